"""Component `CHPAsset` / `Plant` / `CHPAsset_with_min_load_costs` (property C06; window theorems: C08CHP), with and
without start / shutdown ramp profiles: builder correspondence on top of the real `Contract` base problem (rows, bounds,
costs, mapping; `costs_only` cost vector), and the C06 oracles on the real code.

A case is a plain JSON value:
  grid    : {start, end, freq, unit, tz}          (scenario format of harness.scen)
  step_s, unit_s : seconds of the grid step / of the main time unit
  cls     : 'CHPAsset' | 'Plant' | 'CHPAsset_with_min_load_costs'
  profiles: (optional) 'both' | 'start' | 'shutdown' — args then carry start_ramp_* / shutdown_ramp_* lists (and ramp_freq)
  name, nodes : asset name, node names (power[, heat][, fuel])
  args    : constructor arguments (harness.scen encodings: {"$dt"}, {"$arr"}; interval dicts as
            {"start":[{"$dt"}…], "end":[…], "values":[…]})
  prices  : {key: [floats on the full grid]}
  exact   : all arithmetic of the implementation is exact in binary floating point (demand equality)
  kind    : 'build' | 'pattern' | 'portfolio'   (stream 'regrid' - one object on a sequence of grids - has its own case format
            and module, harness/comp/chpregrid.py, and judges every stage through `judge` below)
  companions : (kind 'portfolio') market / heat sink / fuel market specs
Oracles:
  chp.pattern      all 2^T on/off patterns pinned on the REAL asset problem (HiGHS feasibility) vs the
                   run-length specification and the automaton (model via driver + Python transcription)
  chp.first_ramp   min / max of the first-step virtual dispatch on the REAL asset problem vs
                   [last − ramp, last + ramp]
  chp.start_flag   probe: start flag without off->on transition; start bounds untouched by the initial state
  chp.capacity, chp.ramp, chp.heat_share, chp.fuel, chp.start_flag    recomputed from an optimised portfolio
  chp.commitment   the on/off pattern of an optimised portfolio (on variables, no ramp profiles) satisfies the run-length
                   specification with the durations in steps of the grid of the case
  chp.start_costs  in a step with an off->on transition (on variables; without them read from the dispatch) the plant's
                   cash flow holds at least the start costs of THAT step beyond the costs of its other variables, with or
                   without start variables (from an optimised portfolio; lower bound only, cf. F-06b)
  chp.profile_ramp statement-level probe (own small family `gen_probe_profile_ramp`, apart from the normal streams): the
                   dispatch that follows the start profile where it applies (also for a start before the horizon) and then
                   stays constant must be admitted by the REAL asset problem whatever the ramp
  chp.min_load     below the threshold while on => bool_threshhold = 1 (from an optimised portfolio)
  chp.profile      k-th step after a start / before a shutdown: virtual dispatch within the k-th profile bounds
                   (bounds on the grid from the model), start/shutdown flags exact (from an optimised portfolio)
Facts `kind` of deviations that are recorded findings of the current tree (decided by known_findings.json, not
here): 'spurious_start' (F-06b), 'first_step_lower_too_tight' with tar = 0 (F-06c), 'guard_not_in_steps' (F-06d),
'start_ramp_before_horizon_ramp_binds' (F-06h), 'start_ramp_first_step_ramp_binds' (F-06i).
Every other kind ('first_step_ramp_up', 'first_step_shutdown_excluded', 'ramp_conv_index', 'ramp_step',
'start_forced_by_bound', 'pattern_vs_spec', …) is a plain violation (F-06a, F-06e, F-06f are repaired in /repo).
"""
import copy
import itertools
import math
import random
from fractions import Fraction

import numpy as np
import pandas as pd
import scipy.sparse as sp

import eaopack as eao
from .. import scen, impl
from ..impl import Quiet, problem_json, err_class
from ..lean import fs
from ..pf import cmp_problem
from .common import grid_json, param_json, prices_json, instant

OP = 'chp'

# (freq, unit, step seconds, unit seconds)
GRIDS = [
    ('h', 'h', 3600, 3600), ('h', 'h', 3600, 3600), ('h', 'h', 3600, 3600), ('15min', 'h', 900, 3600),
    ('30min', 'h', 1800, 3600), ('2h', 'h', 7200, 3600), ('4h', 'h', 14400, 3600), ('h', 'min', 3600, 60),
    ('d', 'd', 86400, 86400), ('d', 'h', 86400, 3600), ('h', 'd', 3600, 86400), ('15min', 'min', 900, 60),
]
ERRMAP = {'assert': 'assert', 'overlap': 'value', 'ill-posed': 'value', 'length': 'value', 'index': 'index',
          'not-implemented': 'not-implemented', 'nan': 'assert', 'missing-price': 'assert'}


def q8(rnd, lo, hi):
    return rnd.randint(int(lo * 8), int(hi * 8)) / 8.0


def iso(ts):
    return pd.Timestamp(ts).strftime('%Y-%m-%dT%H:%M:%S')


def dyadic(x):
    f = Fraction(float(x))
    return f.denominator & (f.denominator - 1) == 0 and f.denominator <= 2 ** 20


# ------------------------------------------------------------------------------------------- generator
def gen_intervals(rnd, pts, lo, hi, full):
    """interval dictionary on cut points of the grid; `full`: no gaps (capacities have no default)"""
    T = len(pts) - 1
    k = rnd.randint(1, min(3, T))
    cuts = sorted(rnd.sample(range(1, T), k - 1)) if k > 1 else []
    cuts = [0] + cuts + [T]
    ivs = [(cuts[i], cuts[i + 1]) for i in range(len(cuts) - 1)]
    if not full and len(ivs) > 1 and rnd.random() < 0.6:
        ivs.pop(rnd.randrange(len(ivs)))
    if not full and rnd.random() < 0.2:
        a, b = ivs[0]
        if b - a >= 2:
            ivs[0] = (a + 1, b)
    return {'start': [{'$dt': iso(pts[a])} for a, b in ivs], 'end': [{'$dt': iso(pts[b])} for a, b in ivs],
            'values': [q8(rnd, lo, hi) for _ in ivs]}


def gen_param(rnd, case, pts, key, lo, hi, forms, full=False, nonzero=False):
    """one of make_vector's forms; price keys are registered in case['prices']"""
    form = rnd.choice(forms)
    T = len(pts) - 1

    def val():
        v = q8(rnd, lo, hi)
        while nonzero and v == 0:
            v = q8(rnd, lo, hi)
        return v
    if form == 'scalar':
        return val()
    if form == 'key':
        case['prices'][key] = [val() for _ in range(T)]
        return key
    if form == 'array':
        # a numpy array of the length of the asset's window (make_vector multiplies it by np.ones(T) and converts it
        # like every other form)
        a0, a1 = case.get('window', [0, T])
        n = a1 - a0
        if n < 1:
            return val()
        return {'$arr': [val() for _ in range(n)]}
    if form == 'dict':
        d = gen_intervals(rnd, pts, lo, hi, full)
        if nonzero:
            d['values'] = [v if v != 0 else hi for v in d['values']]
        return d
    raise ValueError(form)


def gen_case(rnd, kind='build', tmax=10, grid=None, window=None):
    """`window` ('late-start' | 'early-end' | 'inside'): the asset gets an own window placed like that inside the horizon
    whatever the kind (stream 'window-tables'); None: own windows only in the build stream"""
    freq, unit, step_s, unit_s = rnd.choice(GRIDS)
    if kind != 'build':
        freq, unit, step_s, unit_s = rnd.choice(GRIDS[:9])
    if grid is not None:
        freq, unit, step_s, unit_s = grid       # (stream 'regrid': the grid is chosen by the caller)
    T = rnd.randint(1, tmax)
    if kind == 'pattern':
        T = rnd.randint(2, tmax)
    if window is not None:
        T = rnd.randint(3, max(3, tmax))
    start = pd.Timestamp('2021-01-01') + rnd.choice([0, 0, 6, 24]) * pd.Timedelta(hours=1)
    if freq == 'd':
        start = start.normalize()
    step = pd.Timedelta(seconds=step_s)
    pts = [start + k * step for k in range(T + 1)]
    case = {'kind': kind, 'grid': {'start': iso(pts[0]), 'end': iso(pts[-1]), 'freq': freq, 'unit': unit, 'tz': None},
            'step_s': step_s, 'unit_s': unit_s, 'name': 'chp', 'prices': {}, 'exact': dyadic(step_s / unit_s)}
    args = {}
    case['args'] = args
    # window of the asset
    a0, a1 = 0, T
    w = rnd.random()
    if window is not None:
        # own start strictly after the grid start, own end strictly before the grid end, or both; the bound that is not
        # inside is left out, given as the grid's own bound, or (end) lies beyond the horizon
        if window in ('late-start', 'inside'):
            a0 = rnd.randint(1, T - 1 if window == 'late-start' else T - 2)
        if window in ('early-end', 'inside'):
            a1 = rnd.randint(a0 + 1, T - 1)
        if a0 > 0 or rnd.random() < 0.3:
            args['start'] = {'$dt': iso(pts[a0])}
        if a1 < T:
            args['end'] = {'$dt': iso(pts[a1])}
        elif rnd.random() < 0.5:
            args['end'] = {'$dt': iso(pts[-1] + rnd.choice([0, 1, 3]) * step)}
    elif kind == 'build':
        if w < 0.25 and T >= 2:
            a0 = rnd.randint(0, T - 1)
            a1 = rnd.randint(a0 + 1, T)
            if a0 > 0 or rnd.random() < 0.5:
                args['start'] = {'$dt': iso(pts[a0])}
            if a1 < T or rnd.random() < 0.5:
                args['end'] = {'$dt': iso(pts[a1])}
        elif w < 0.28:
            args['start'] = {'$dt': iso(pts[-1] + step)}
            args['end'] = {'$dt': iso(pts[-1] + 3 * step)}
            a0 = a1 = T
    case['window'] = [a0, a1]
    # class and nodes
    heat = rnd.random() < 0.5
    fuel = rnd.random() < 0.5
    case['cls'] = 'CHPAsset' if heat else 'Plant'
    if heat and kind in ('build', 'portfolio') and rnd.random() < (0.45 if kind == 'build' else 0.35):
        case['cls'] = 'CHPAsset_with_min_load_costs'
    case['nodes'] = ['el'] + (['heat'] if heat else []) + (['gas'] if fuel else [])
    if kind == 'build' and rnd.random() < 0.03:
        case['nodes'] = ['el'] if heat else ['el', 'x', 'gas']      # CHP with one node: assertion; Plant with three: no fuel
        fuel = False
    # which variable blocks are wanted: plain (no on variables), on only, or anything
    mode = rnd.choice(['plain', 'on', 'any', 'any', 'any']) if kind != 'pattern' else 'any'
    case['mode'] = mode
    # capacities (no default value: full cover)
    r = rnd.random()
    if mode == 'plain':
        min_cap = 0.
    elif kind == 'pattern':
        min_cap = q8(rnd, 0.25, 2)
    elif r < 0.35:
        min_cap = 0.
    else:
        min_cap = gen_param(rnd, case, pts, 'k_min', 0, 3, ['scalar', 'scalar', 'dict', 'key', 'array'], full=True)
    args['min_cap'] = min_cap
    top = 3.0
    args['max_cap'] = gen_param(rnd, case, pts, 'k_max', top, top + 8, ['scalar', 'scalar', 'dict', 'key', 'array'], full=True)
    if kind == 'build':
        r = rnd.random()
        if r < 0.02:
            args['min_cap'] = -1.
        elif r < 0.03:
            args['min_cap'], args['max_cap'] = 5., 2.
    if rnd.random() < 0.85:
        args['price'] = 'p_el'
        case['prices']['p_el'] = [q8(rnd, -20, 60) for _ in range(T)]
    if rnd.random() < 0.15:
        args['extra_costs'] = q8(rnd, 0.125, 3)
    # unit commitment: durations in main time units, dyadic
    per = step_s / unit_s      # main time units per step

    def dur(steps):
        raw = math.floor(steps * per * 8) / 8.0
        if rnd.random() < 0.3:
            raw = max(0., raw + rnd.choice([-0.125, 0.125, -0.25]))
        return raw
    R = rnd.choice([0, 0, 1, 2, 2, 3, 4, 6, T + 2])
    D = rnd.choice([0, 0, 1, 2, 2, 3, 4, 6])
    if mode in ('plain', 'on'):
        R = rnd.choice([0, 1])
    if mode == 'plain':
        D = rnd.choice([0, 1])
    if kind == 'pattern':
        R = rnd.choice([0, 1, 2, 3, 4, T, T + 3])
        D = rnd.choice([0, 1, 2, 3, 4, T, T + 3])
    args['min_runtime'] = dur(R)
    args['min_downtime'] = dur(D)
    state = rnd.choice(['running', 'running', 'off', 'off', 'neither', 'both'])
    if args['min_downtime'] > 1 and state in ('neither', 'both') and rnd.random() < 0.8:
        state = rnd.choice(['running', 'off'])
    if state in ('running', 'both'):
        args['time_already_running'] = max(0.125, dur(rnd.choice([1, 1, 2, 3, 5, T + 4])))
    if state in ('off', 'both'):
        args['time_already_off'] = max(0.125, dur(rnd.choice([1, 1, 2, 3, 5, T + 4])))
    case['state'] = state
    # ramp
    if kind == 'pattern':
        if rnd.random() < 0.5:
            # a ramp that never binds (max_cap <= 11 per main time unit)
            args['ramp'] = rnd.choice([11., 64.])
            if state in ('running', 'both'):
                args['last_dispatch'] = q8(rnd, 0, 11)
    elif rnd.random() < 0.65:
        args['ramp'] = q8(rnd, 0.5, 6)
        if rnd.random() < 0.7:
            args['last_dispatch'] = q8(rnd, 0, 8)
    elif rnd.random() < 0.2:
        args['last_dispatch'] = q8(rnd, 0, 8)
    # costs
    if rnd.random() < 0.5 and mode == 'any':
        args['start_costs'] = gen_param(rnd, case, pts, 'k_sc', 0, 9, ['scalar', 'scalar', 'dict'])
        if kind == 'build' and rnd.random() < 0.15:
            n = a1 - a0
            # (for T = 1 numpy broadcasts the other way round: `Param.broadcastArray` documents that it does not model this)
            args['start_costs'] = {'$arr': [q8(rnd, 0, 9) for _ in range(rnd.choice([n, n, 1, n + 1]) if n > 1 else 1)]}
    if rnd.random() < 0.4:
        args['running_costs'] = gen_param(rnd, case, pts, 'k_rc', 0, 5, ['scalar', 'dict', 'key', 'array'])
    # heat
    if heat:
        r = rnd.random()
        if r < 0.6:
            args['conversion_factor_power_heat'] = rnd.choice([1., 0.5, 2., 0.25])
        elif r < 0.7:
            args['conversion_factor_power_heat'] = rnd.choice([0.3, 0.7, 1.1])
            case['exact'] = False
        elif r < 0.9:
            f = rnd.choice(['dict', 'key'])
            p = gen_param(rnd, case, pts, 'k_conv', 1, 1, [f])
            pw = lambda: rnd.choice([0.5, 1., 2., 0.25])
            if f == 'dict':
                p['values'] = [pw() for _ in p['values']]
            else:
                case['prices'][p] = [pw() for _ in range(T)]
            args['conversion_factor_power_heat'] = p
        if kind == 'build' and rnd.random() < 0.02:
            args['conversion_factor_power_heat'] = 0.
        if rnd.random() < 0.6:
            args['max_share_heat'] = gen_param(rnd, case, pts, 'k_share', 0, 2, ['scalar', 'scalar', 'dict', 'key'])
    # fuel
    if fuel:
        if rnd.random() < 0.5 and mode == 'any':
            args['start_fuel'] = gen_param(rnd, case, pts, 'k_sf', 0, 4, ['scalar', 'scalar', 'dict', 'key', 'array'])
        r = rnd.random()
        if r < 0.5:
            args['fuel_efficiency'] = rnd.choice([1., 0.5, 2., 0.25])
        elif r < 0.65:
            args['fuel_efficiency'] = rnd.choice([0.4, 0.9, 0.55])
            case['exact'] = False
        elif r < 0.85:
            f = rnd.choice(['dict', 'key'])
            p = gen_param(rnd, case, pts, 'k_eff', 1, 1, [f])
            pw = lambda: rnd.choice([0.5, 1., 0.25])
            if f == 'dict':
                p['values'] = [pw() for _ in p['values']]
            else:
                case['prices'][p] = [pw() for _ in range(T)]
            args['fuel_efficiency'] = p
        if kind == 'build' and rnd.random() < 0.02:
            args['fuel_efficiency'] = 0.
        if rnd.random() < 0.5 and mode != 'plain':
            args['consumption_if_on'] = gen_param(rnd, case, pts, 'k_ci', 0, 3, ['scalar', 'scalar', 'dict', 'key', 'array'])
    # start / shutdown ramp profiles
    if kind in ('build', 'portfolio') and mode == 'any' and rnd.random() < (0.3 if kind == 'build' else 0.25):
        gen_profiles(rnd, case, args, heat, freq, unit, T)
    if case['cls'] == 'CHPAsset_with_min_load_costs':
        r = rnd.random()
        if r < 0.8:
            args['min_load_threshhold'] = gen_param(rnd, case, pts, 'k_thr', 0, 6, ['scalar', 'scalar', 'dict', 'key', 'array'])
        elif r < 0.87:
            args['min_load_threshhold'] = -1.          # largest threshold negative: nothing is added
        elif r < 0.9:
            args['min_load_threshhold'] = None
        r = rnd.random()
        if r < 0.85:
            args['min_load_costs'] = gen_param(rnd, case, pts, 'k_mlc', 0, 9, ['scalar', 'scalar', 'dict', 'key', 'array'])
        elif r < 0.92:
            args['min_load_costs'] = -2.               # largest cost negative: nothing is added
        # else: the default None: nothing is added
    if kind == 'build':
        if rnd.random() < 0.1 and T >= 2:
            a = rnd.randint(0, T - 1)
            b = rnd.randint(a + 1, T)
            args[rnd.choice(['min_take', 'max_take'])] = {'start': [{'$dt': iso(pts[a])}], 'end': [{'$dt': iso(pts[b])}],
                                                          'values': [q8(rnd, 0, 20)]}
        r = rnd.random()
        if r < 0.04:
            args['freq'] = freq
        elif r < 0.07 and freq in ('h', '15min', '30min') and T >= 4:
            args['freq'] = {'h': '2h', '15min': '30min', '30min': 'h'}[freq]
        if rnd.random() < 0.02:
            args['running_costs'] = 'missing_key'
    if kind == 'portfolio':
        case['companions'] = gen_companions(rnd, case, T)
        if 'profiles' in case and rnd.random() < 0.75:
            # blocks of attractive / unattractive power prices, so that the plant starts and stops inside the horizon and
            # the profile bounds of the ramp steps are exercised; no history that forces the state
            blk = rnd.choice([2, 3, 3, 4])
            off0 = rnd.randint(0, 2 * blk - 1)
            case['prices']['m_el'] = [(300. if ((t + off0) // blk) % 2 == 0 else -80.) + q8(rnd, 0, 4) for t in range(T)]
            if rnd.random() < 0.6:
                args['min_runtime'] = 0.
                args['min_downtime'] = 0.
                args.pop('time_already_running', None)
                args.pop('time_already_off', None)
                case['state'] = 'neither'
    return case


RAMP_FREQS = {'h': ['h', '30min', '2h', '15min'], '15min': ['15min', '5min', '30min', 'h'], '30min': ['30min', '15min', 'h'],
              '2h': ['2h', 'h', '4h'], '4h': ['4h', '2h', 'h'], 'd': ['d', '12h'], 'min': ['min']}


def gen_profiles(rnd, case, args, heat, freq, unit, T):
    """start and/or shutdown ramp profiles (lists in `ramp_freq`, default: the main time unit), optionally with
    heat variants; values per main time unit"""
    which = rnd.choice(['both', 'both', 'start', 'shutdown'])
    if rnd.random() < 0.65:
        rf = None
    else:
        rf = rnd.choice(RAMP_FREQS.get(freq, [freq]))
        args['ramp_freq'] = rf
    eff = rf if rf is not None else unit
    same = (eff == freq)
    if not same:
        case['exact'] = False

    def prof(n):
        lo = sorted(q8(rnd, 0, 3) for _ in range(n))
        up = [v + q8(rnd, 0, 2) for v in lo]
        return lo, up
    give_heat = heat and rnd.random() < 0.4
    if which in ('both', 'start'):
        lo, up = prof(rnd.choice([1, 2, 2, 3]))
        args['start_ramp_lower_bounds'] = lo
        if give_heat or rnd.random() < 0.7:
            args['start_ramp_upper_bounds'] = up
        if give_heat:
            hl, hu = prof(len(lo))
            args['start_ramp_lower_bounds_heat'], args['start_ramp_upper_bounds_heat'] = hl, hu
    if which in ('both', 'shutdown'):
        lo, up = prof(rnd.choice([1, 2, 2, 3]))
        lo, up = lo[::-1], up[::-1]
        args['shutdown_ramp_lower_bounds'] = lo
        if give_heat or rnd.random() < 0.7:
            args['shutdown_ramp_upper_bounds'] = up
        if give_heat:
            hl, hu = prof(len(lo))
            args['shutdown_ramp_lower_bounds_heat'], args['shutdown_ramp_upper_bounds_heat'] = hl, hu
    if case['kind'] == 'build' and rnd.random() < 0.04 and 'start_ramp_upper_bounds' in args:
        args['start_ramp_upper_bounds'] = args['start_ramp_upper_bounds'] + [1.]      # lengths differ: assertion
    if rnd.random() < 0.25:
        # the same profiles as numpy arrays (interval data, capacities and profiles may all be given as arrays)
        for k_ in list(args):
            if k_.endswith('_bounds') or k_.endswith('_bounds_heat'):
                if isinstance(args[k_], list):
                    args[k_] = {'$arr': list(args[k_])}
        case['profile_form'] = 'array'
    case['profiles'] = which


def profiles_json(case):
    """the `profiles` field of the driver request (None: no profile argument given)"""
    a = case['args']
    keys = {'start_lo': 'start_ramp_lower_bounds', 'start_up': 'start_ramp_upper_bounds', 'shut_lo': 'shutdown_ramp_lower_bounds',
            'shut_up': 'shutdown_ramp_upper_bounds', 'start_lo_h': 'start_ramp_lower_bounds_heat', 'start_up_h': 'start_ramp_upper_bounds_heat',
            'shut_lo_h': 'shutdown_ramp_lower_bounds_heat', 'shut_up_h': 'shutdown_ramp_upper_bounds_heat'}
    if not any(v in a for v in keys.values()):
        return None
    from pandas.tseries.frequencies import to_offset
    eff = a.get('ramp_freq') or case['grid']['unit']
    vals = lambda v_: v_['$arr'] if isinstance(v_, dict) else v_
    out = {k: (None if a.get(v) is None else [fs(x) for x in vals(a[v])]) for k, v in keys.items()}
    out['ramp_freq_s'] = int(pd.to_timedelta(to_offset(eff)).total_seconds())
    out['same_freq'] = (eff == case['grid']['freq'])
    return out


def gen_focus_start_fuel(rnd, tmax=10):
    """portfolio case in which start variables exist ONLY because of the start fuel (no start costs, no minimum
    runtime), with block prices that make the plant start more than once: the fuel drawn at the transitions is then
    recomputed from x by `oracle_portfolio`"""
    for _ in range(200):
        case = gen_case(rnd, kind='portfolio', tmax=tmax)
        if 'gas' in case['nodes'] and case['mode'] == 'any':
            break
    a = case['args']
    T = len(case['prices']['m_el'])
    a.pop('start_costs', None)
    for k in ('k_sc',):
        case['prices'].pop(k, None)
    a['min_runtime'] = rnd.choice([0., 0., 1.]) if case['step_s'] >= case['unit_s'] else 0.
    if not isinstance(a.get('min_cap'), (int, float)) or a['min_cap'] <= 0:
        a['min_cap'] = q8(rnd, 0.25, 2)
    if rnd.random() < 0.7:
        a['start_fuel'] = q8(rnd, 0.5, 4)
    elif 'start_fuel' not in a:
        a['start_fuel'] = q8(rnd, 0.5, 4)
    a.pop('time_already_running', None)
    a.pop('last_dispatch', None)
    a.pop('ramp', None)
    case['state'] = 'off' if 'time_already_off' in a else 'neither'
    # blocks of attractive / unattractive power prices
    blk = rnd.choice([1, 2, 2, 3])
    off0 = rnd.randint(0, 2 * blk - 1)
    case['prices']['m_el'] = [(400. if ((t + off0) // blk) % 2 == 0 else -50.) + q8(rnd, 0, 4) for t in range(T)]
    case['focus'] = 'start_fuel_only'
    return case


def gen_focus_window_tables(rnd, tmax=8):
    """stream 'window-tables': portfolio case with a plant / CHP whose OWN window starts after the grid start, ends before
    the grid end, or both (several placements, the other bound absent / equal to the grid's / beyond the horizon), mostly
    with a fuel node, running consumption, start fuel and start costs in varying forms, mostly a positive minimum
    capacity, and in part block prices inside the window that make the unit cycle; no ramp profiles.  Judged by
    `oracle_tables` on the output tables of the whole grid (next to the other portfolio oracles)"""
    for _ in range(400):
        case = gen_case(rnd, kind='portfolio', tmax=tmax, window=rnd.choice(['late-start', 'late-start', 'early-end', 'inside', 'inside']))
        if 'profiles' in case or case['mode'] == 'plain':
            continue
        if 'gas' in case['nodes'] or rnd.random() < 0.25:
            break
    a = case['args']
    T = len(case['prices']['m_el'])
    a0, a1 = case['window']
    if rnd.random() < 0.7 and (not isinstance(a.get('min_cap'), (int, float)) or a['min_cap'] <= 0):
        a['min_cap'] = q8(rnd, 0.25, 2)
    if 'gas' in case['nodes']:
        if 'consumption_if_on' not in a and rnd.random() < 0.7:
            a['consumption_if_on'] = q8(rnd, 0.25, 3)
        if 'start_fuel' not in a and case['mode'] == 'any' and rnd.random() < 0.6:
            a['start_fuel'] = q8(rnd, 0.5, 4)
    if 'start_costs' not in a and case['mode'] == 'any' and rnd.random() < 0.4:
        a['start_costs'] = q8(rnd, 0.5, 9)
    r = rnd.random()
    if r < 0.45:
        # blocks of attractive / unattractive power prices, placed relative to the window
        blk = rnd.choice([1, 2, 2, 3])
        off0 = rnd.randint(0, 2 * blk - 1)
        case['prices']['m_el'] = [(400. if ((t - a0 + off0) // blk) % 2 == 0 else -50.) + q8(rnd, 0, 4) for t in range(T)]
        if rnd.random() < 0.6:
            a['min_runtime'] = min(a.get('min_runtime', 0.), 1.) if case['step_s'] >= case['unit_s'] else 0.
            a['min_downtime'] = min(a.get('min_downtime', 0.), 1.) if case['step_s'] >= case['unit_s'] else 0.
    elif r < 0.7:
        # running pays in every step: the unit is on throughout its window
        case['prices']['m_el'] = [400. + q8(rnd, 0, 4) for t in range(T)]
    case['focus'] = 'window_tables'
    case['window_kind'] = 'late-start' if a1 == T else ('early-end' if a0 == 0 else 'inside')
    return case


def gen_focus_start_costs_vary(rnd, tmax=10):
    """stream 'start-costs-vary': portfolio case with a plant / CHP whose start costs VARY IN TIME and are zero in some
    steps of its window (interval dict covering only part of the window or carrying zero values, price-key series with
    zeros, numpy array; a small share varies without zeros), mostly with nothing else that calls for start variables
    (minimum runtime of at most one step, no start fuel), and block prices that make cycling attractive, the start costs
    ranging from negligible to prohibitive: `oracle_portfolio` then reads the off->on transitions from the on/off pattern
    (from the dispatch where there are no on variables) and demands the start costs OF THE STEP OF THE START in the plant's
    cash flow"""
    for _ in range(400):
        case = gen_case(rnd, kind='portfolio', tmax=tmax)
        if len(case['prices'].get('m_el', [])) >= 3:
            break
    a = case['args']
    T = len(case['prices']['m_el'])
    start = pd.Timestamp(case['grid']['start'])
    step = pd.Timedelta(seconds=case['step_s'])
    pts = [start + k * step for k in range(T + 1)]
    case['mode'] = 'any'
    if rnd.random() < 0.8 and (not isinstance(a.get('min_cap'), (int, float)) or a['min_cap'] <= 0):
        a['min_cap'] = q8(rnd, 0.25, 2)
    if rnd.random() < 0.75:
        a['min_runtime'] = rnd.choice([0., 0., 1.]) if case['step_s'] >= case['unit_s'] else 0.
    if rnd.random() < 0.6:
        a['min_downtime'] = rnd.choice([0., 0., 1.]) if case['step_s'] >= case['unit_s'] else 0.
    if rnd.random() < 0.7:
        a.pop('start_fuel', None)
        case['prices'].pop('k_sf', None)
    if rnd.random() < 0.7:
        a.pop('ramp', None)
        a.pop('last_dispatch', None)
    # start costs per step: zero in at least one step and non-zero in at least one (mostly)
    hi = rnd.choice([9, 9, 40, 400, 3000])
    form = rnd.choice(['dict', 'dict', 'key', 'array'])
    with_zeros = rnd.random() < 0.88
    case['prices'].pop('k_sc', None)
    if form == 'dict':
        k = rnd.randint(2, min(4, T))
        cuts = [0] + sorted(rnd.sample(range(1, T), k - 1)) + [T]
        ivs = [(cuts[i], cuts[i + 1]) for i in range(k)]
        vals = [q8(rnd, 1, hi) if rnd.random() < 0.6 else 0. for _ in ivs]
        if with_zeros and all(v != 0 for v in vals):
            vals[rnd.randrange(k)] = 0.
        if all(v == 0 for v in vals):
            vals[rnd.randrange(k)] = q8(rnd, 1, hi)
        if not with_zeros:
            vals = [v if v != 0 else q8(rnd, 1, hi) for v in vals]
        # an interval without start costs is left out (steps not covered default to 0) or given with the value 0
        keep = [i for i in range(k) if vals[i] != 0 or rnd.random() < 0.4]
        a['start_costs'] = {'start': [{'$dt': iso(pts[ivs[i][0]])} for i in keep], 'end': [{'$dt': iso(pts[ivs[i][1]])} for i in keep],
                            'values': [vals[i] for i in keep]}
    else:
        vec = [q8(rnd, 1, hi) if rnd.random() < 0.6 else 0. for _ in range(T)]
        if with_zeros and all(v != 0 for v in vec):
            vec[rnd.randrange(T)] = 0.
        if all(v == 0 for v in vec):
            vec[rnd.randrange(T)] = q8(rnd, 1, hi)
        if not with_zeros:
            vec = [v if v != 0 else q8(rnd, 1, hi) for v in vec]
        if form == 'key':
            case['prices']['k_sc'] = vec
            a['start_costs'] = 'k_sc'
        else:
            a['start_costs'] = {'$arr': vec}
    # blocks of attractive / unattractive power prices: the plant is worth starting and stopping inside the horizon
    blk = rnd.choice([1, 1, 2, 2, 3])
    off0 = rnd.randint(0, 2 * blk - 1)
    p_hi, p_lo = rnd.choice([120., 400.]), rnd.choice([-50., -200.])
    case['prices']['m_el'] = [(p_hi if ((t + off0) // blk) % 2 == 0 else p_lo) + q8(rnd, 0, 4) for t in range(T)]
    case['focus'] = 'start_costs_vary'
    return case


PROBE_GRIDS = [('h', 'h', 3600, 3600, None), ('h', 'h', 3600, 3600, None), ('d', 'd', 86400, 86400, None), ('h', 'h', 3600, 3600, 'h'),
               ('15min', 'h', 900, 3600, '15min'), ('h', 'min', 3600, 60, 'h'), ('2h', 'h', 7200, 3600, '2h')]


def gen_probe_profile_ramp(rnd, tmax=8):
    """statement-level PROBE (kept apart from the normal streams): a plant / CHP with a START RAMP PROFILE and a general
    ramp, either already inside its start ramp at the beginning of the horizon (0 < time_already_running < length of the
    profile, last_dispatch within the profile bounds of the step before the horizon) or off before the horizon.  The ramp
    is drawn from 'never binds' to 'smaller than the increments of the profile'.  `oracle_profile_ramp` pins the dispatch
    that follows the (remaining) profile and then stays constant - admissible under every reading of the statement, since
    the profile takes precedence over the ramp where it applies - in the REAL asset problem.  Profile given per grid step
    (ramp_freq = grid freq, or main time unit = grid freq), so that no conversion of the profile is involved."""
    freq, unit, step_s, unit_s, rf = rnd.choice(PROBE_GRIDS)
    S = rnd.randint(2, 4)
    T = rnd.randint(S + 2, max(S + 2, tmax))
    start = pd.Timestamp('2021-01-01') + rnd.choice([0, 0, 6]) * pd.Timedelta(hours=1)
    if freq == 'd':
        start = start.normalize()
    step = pd.Timedelta(seconds=step_s)
    pts = [start + k * step for k in range(T + 1)]
    heat = rnd.random() < 0.3
    case = {'kind': 'build', 'probe': 'profile_ramp', 'grid': {'start': iso(pts[0]), 'end': iso(pts[-1]), 'freq': freq, 'unit': unit, 'tz': None},
            'step_s': step_s, 'unit_s': unit_s, 'name': 'chp', 'prices': {}, 'exact': dyadic(step_s / unit_s), 'window': [0, T],
            'cls': 'CHPAsset' if heat else 'Plant', 'nodes': ['el'] + (['heat'] if heat else []), 'mode': 'any'}
    lo, v_ = [], 0.
    for _ in range(S):
        v_ += q8(rnd, 0.5, 3)
        lo.append(v_)
    width = rnd.choice([0., 0., 0.25, 1.])
    up = [x + width for x in lo]
    a = {'start_ramp_lower_bounds': lo}
    if width > 0 or rnd.random() < 0.5:
        a['start_ramp_upper_bounds'] = up
    if rf is not None:
        a['ramp_freq'] = rf
    if rnd.random() < 0.3:
        q_lo = sorted((q8(rnd, 0.25, lo[-1]) for _ in range(rnd.randint(1, 2))), reverse=True)
        a['shutdown_ramp_lower_bounds'] = q_lo
        case['profiles'] = 'both'
    else:
        case['profiles'] = 'start'
    # after the ramp the plant stays at the last profile value: capacities around it
    a['min_cap'] = max(0.125, lo[-1] - q8(rnd, 0, 2))
    a['max_cap'] = up[-1] + q8(rnd, 0, 4)
    a['ramp'] = rnd.choice([q8(rnd, 0.125, 1), q8(rnd, 0.125, 3), q8(rnd, 3, 16), 64.])
    pick = rnd.choice(['lo', 'up'])
    case['pick'] = pick
    per = step_s / unit_s
    if rnd.random() < 0.5:
        k = rnd.randint(1, S - 1)
        a['time_already_running'] = k * per
        a['last_dispatch'] = (lo if pick == 'lo' else up)[k - 1]
        case['state'] = 'running'
    else:
        if rnd.random() < 0.4:
            a['time_already_off'] = rnd.choice([1, 2, 5]) * per
        case['state'] = 'off' if 'time_already_off' in a else 'neither'
    if rnd.random() < 0.3:
        a['min_runtime'] = rnd.choice([1, 2]) * per
    if rnd.random() < 0.3:
        a['start_costs'] = q8(rnd, 0, 9)
    if rnd.random() < 0.5:
        a['price'] = 'p_el'
        case['prices']['p_el'] = [q8(rnd, -20, 60) for _ in range(T)]
    if heat:
        a['conversion_factor_power_heat'] = rnd.choice([1., 0.5, 2.])
        if rnd.random() < 0.5:
            a['max_share_heat'] = rnd.choice([0.5, 1., 2.])
    case['args'] = a
    return case


def gen_focus_ramp_conv(rnd, tmax=10):
    """portfolio case with a CHP whose power/heat conversion factor changes over time while heat is produced and a ramp
    binds: the ramp must then limit the change of the TRUE virtual dispatch power_t + k_t heat_t (each step with its own
    factor), which `oracle_portfolio` recomputes from x"""
    for _ in range(400):
        case = gen_case(rnd, kind='portfolio', tmax=tmax)
        if case['cls'] == 'CHPAsset' and len(case['prices'].get('m_el', [])) >= 3:
            break
    a = case['args']
    T = len(case['prices']['m_el'])
    pw = [rnd.choice([0.25, 0.5, 1., 2.]) for _ in range(T)]
    if rnd.random() < 0.5:
        pw = sorted(pw)
    case['prices']['k_conv'] = pw
    a['conversion_factor_power_heat'] = 'k_conv'
    a['ramp'] = q8(rnd, 0.25, 1.5)
    a['max_share_heat'] = rnd.choice([1., 2., 4.])
    a['min_cap'] = 0.
    a.pop('min_take', None)
    a.pop('max_take', None)
    # heat is worth a lot, power a little: the plant produces heat up to its share, the ramp binds
    case['prices']['m_heat'] = [200. + q8(rnd, 0, 20) for _ in range(T)]
    case['prices']['m_el'] = [60. + q8(rnd, 0, 20) for _ in range(T)]
    case['focus'] = 'ramp_conv'
    return case


def gen_companions(rnd, case, T):
    comp = {}
    for nd, key, lo, hi in (('el', 'm_el', -30, 80), ('heat', 'm_heat', 0, 40), ('gas', 'm_gas', 5, 40)):
        if nd in case['nodes']:
            case['prices'][key] = [q8(rnd, lo, hi) for _ in range(T)]
            comp[nd] = {'type': 'SimpleContract', 'name': 'mkt_' + nd, 'nodes': [nd],
                        'args': {'price': key, 'min_cap': -1000., 'max_cap': 1000.}}
    # make running attractive or not, per case
    if rnd.random() < 0.5:
        case['prices']['m_el'] = [v + 40 for v in case['prices']['m_el']]
    return comp


# ------------------------------------------------------------------------------------------- implementation side
def build_asset(case):
    nodes = [eao.Node(n) for n in case['nodes']]
    args = scen.dec(copy.deepcopy(case['args']))
    cls = getattr(eao.assets, case['cls'])
    return cls(name=case['name'], nodes=nodes, **args)


def np_prices(case):
    return {k: np.asarray(v, dtype=float) for k, v in case['prices'].items()}


def restricted_grid(case):
    tg = scen.make_grid(case['grid'])
    args = scen.dec(copy.deepcopy(case['args']))
    tg.set_wacc(args.get('wacc', 0))
    tg.set_restricted_grid(args.get('start'), args.get('end'))
    return grid_json(tg.restricted)


def run_impl(case):
    """constructor, the parent class's problem (input of the model), and the asset's own problem"""
    out = {'grid': restricted_grid(case)}
    prices = np_prices(case)
    with Quiet():
        try:
            asset = build_asset(case)
        except Exception as e:
            out.update(error=err_class(e), stage='ctor')
            return out
        try:
            tg = scen.make_grid(case['grid'])
            base = eao.assets.Contract.setup_optim_problem(asset, prices, tg)
            out['base'] = problem_json(base, name=case['name'], nodes=case['nodes'])
        except Exception as e:
            out.update(error=err_class(e), stage='base')
            return out
        try:
            asset = build_asset(case)
            tg = scen.make_grid(case['grid'])
            op = asset.setup_optim_problem(prices, tg)
            out['problem'] = problem_json(op, name=case['name'], nodes=case['nodes'])
            out['attrs'] = {k: int(getattr(asset, k)) for k in ('heat_idx', 'on_idx', 'start_idx', 'shutdown_idx') if hasattr(asset, k)}
            out['op'] = op
            out['asset'] = asset
        except Exception as e:
            out.update(error=err_class(e), stage='chp')
        try:
            asset2 = build_asset(case)
            tg = scen.make_grid(case['grid'])
            c = asset2.setup_optim_problem(prices, tg, costs_only=True)
            out['costs_only'] = {'c': [fs(v) for v in np.asarray(c, dtype=float)]}
        except Exception as e:
            out['costs_only'] = {'error': err_class(e)}
    return out


def request(case, ir, costs_only=False):
    a = scen.dec(copy.deepcopy(case['args']))
    freq = a.get('freq')
    p = {'name': case['name'], 'nodes': case['nodes'], 'no_heat': case['cls'] == 'Plant',
         'min_cap': param_json(a.get('min_cap', 0.)), 'conv': param_json(a.get('conversion_factor_power_heat', 1.)),
         'share': None if a.get('max_share_heat') is None else param_json(a['max_share_heat']),
         'ramp': None if a.get('ramp') is None else fs(a['ramp']),
         'start_costs': param_json(a.get('start_costs', 0.)), 'running_costs': param_json(a.get('running_costs', 0.)),
         'min_runtime': fs(a.get('min_runtime', 0)), 'tar': fs(a.get('time_already_running', 0)),
         'min_downtime': fs(a.get('min_downtime', 0)), 'tao': fs(a.get('time_already_off', 0)),
         'last_dispatch': fs(a.get('last_dispatch', 0)), 'start_fuel': param_json(a.get('start_fuel', 0.)),
         'fuel_eff': param_json(a.get('fuel_efficiency', 1.)), 'cons_if_on': param_json(a.get('consumption_if_on', 0.)),
         'freq_mismatch': freq is not None and freq != case['grid']['freq']}
    base = ir.get('base') or {'name': case['name'], 'nodes': case['nodes'], 'c': [], 'l': [], 'u': [], 'rows': [], 'mapping': []}
    req = {'op': OP, 'p': p, 'base': base, 'grid': ir['grid'], 'prices': prices_json(case['prices']),
           'unit_s': case['unit_s'], 'step_s': case['step_s']}
    if case['cls'] == 'CHPAsset_with_min_load_costs':
        thr = a.get('min_load_threshhold', 0.)
        mlc = a.get('min_load_costs', None)
        req['min_load'] = {'threshold': None if thr is None else param_json(thr), 'costs': None if mlc is None else param_json(mlc)}
    pj = profiles_json(case)
    if pj is not None:
        req['profiles'] = pj
    if costs_only:
        req['costs_only'] = True
    return req


def compare_costs_only(case, ir, mr):
    """`setup_optim_problem(costs_only=True)` vs the model's cost vector"""
    co = ir.get('costs_only')
    if co is None or ir.get('stage') in ('base', 'ctor'):
        return []
    if 'error' in co:
        if 'error' not in mr:
            return ['chp.costs_only: implementation raises %s but the model returns a vector' % co['error']]
        if ERRMAP.get(mr['error'], mr['error']) != co['error']:
            return ['chp.costs_only: error class %s (impl) vs %s (model)' % (co['error'], mr['error'])]
        return []
    if 'error' in mr:
        a_ = scen.dec(copy.deepcopy(case['args']))
        if a_.get('freq') is not None and a_.get('freq') != case['grid']['freq'] and len(co.get('c', [1])) == 0:
            return []       # (inactive asset with an own frequency: see `compare`)
        return ['chp.costs_only: model rejects (%s) what the implementation computes' % mr['error']]
    from ..pf import cmp_vec
    d = cmp_vec('chp.costs_only.c', mr['c'], co['c'], 0 if case.get('exact') else 1e-9)
    return [d] if d else []


def compare(case, ir, mr):
    """list of disagreement strings; errors are compared by class"""
    if ir.get('stage') == 'base' or (ir.get('stage') == 'ctor' and ir.get('error') == 'value'):
        return []       # the parent class failed (its constructor or its builder): nothing of the CHP builder ran
    if 'error' in ir:
        if 'error' not in mr:
            return ['chp: implementation raises %s (%s) but the model builds a problem' % (ir['error'], ir['stage'])]
        if ERRMAP.get(mr['error'], mr['error']) != ir['error']:
            return ['chp: error class %s (impl, %s) vs %s (model)' % (ir['error'], ir['stage'], mr['error'])]
        return []
    if 'error' in mr:
        a_ = scen.dec(copy.deepcopy(case['args']))
        if a_.get('freq') is not None and a_.get('freq') != case['grid']['freq'] and len((ir.get('problem') or {}).get('c', [1])) == 0:
            # an own frequency (which the class refuses) on a window that holds no step of that frequency: the asset is not
            # active, the implementation returns the empty problem before it ever looks at the frequency; the model reports
            # the frequency first.  No variable, no row: nothing any statement speaks about
            return []
        return ['chp: model rejects (%s) what the implementation builds' % mr['error']]
    tol = 0 if case.get('exact') else 1e-9
    mp, ip = mr['problem'], ir['problem']
    if tol:
        # floating point cancellation (e.g. min_cap - profile bound = 0.0) leaves a coefficient of 1e-17 in exact
        # arithmetic on the same inputs: drop coefficients below 1e-12 on both sides before comparing structures
        def clean(rows):
            return [dict(r, coeffs=[[j, v] for j, v in r['coeffs'] if abs(Fraction(v)) > Fraction(1, 10 ** 12)]) for r in rows]
        mp = dict(mp, rows=clean(mp['rows']))
        ip = dict(ip, rows=clean(ip['rows']))
    out = cmp_problem('chp', mp, ip, tol, aspects=('c', 'l', 'u', 'rows', 'mapping'))
    info = mr.get('info')
    if info:
        if not info.get('commit_ok', True):
            out.append('chp: the resolved inputs violate `CHPR.commitOK` (hypothesis of commit_rows_iff_spec)')
        if not info.get('fuel_ok', True) and len(set(case['nodes'])) == len(case['nodes']):
            out.append('chp: the resolved inputs violate `CHPR.fuelOK` (hypotheses of the fuel dispatch theorem)')
        for k in ('heat_idx', 'on_idx', 'start_idx'):
            if k in ir['attrs'] and ir['attrs'][k] != info[k]:
                # the attribute of the object is only meaningful where the variable block exists
                if (k == 'heat_idx' and info['heat']) or (k == 'on_idx' and info['inc_on']) or (k == 'start_idx' and info['inc_start']):
                    out.append('chp: %s = %d (model) vs %d (impl)' % (k, info[k], ir['attrs'][k]))
        if info.get('profiles') and ir['attrs'].get('shutdown_idx') != info['shut_idx']:
            out.append('chp: shutdown_idx = %s (model) vs %s (impl)' % (info['shut_idx'], ir['attrs'].get('shutdown_idx')))
        if ('on_idx' in ir['attrs']) != info['inc_on'] or ('start_idx' in ir['attrs']) != info['inc_start']:
            out.append('chp: include flags on/start %s/%s (model) vs %s/%s (impl)' % (
                info['inc_on'], info['inc_start'], 'on_idx' in ir['attrs'], 'start_idx' in ir['attrs']))
    return out


# ------------------------------------------------------------------------------------------- specification in Python
def py_spec(R, D, tar, tao, on):
    """transcription of `EAO.UC.SpecF`"""
    T = len(on)
    for s in range(1, T):
        if on[s] and not on[s - 1] and not all(on[s + k] for k in range(R) if s + k < T):
            return False
        if not on[s] and on[s - 1] and any(on[s + k] for k in range(D) if s + k < T):
            return False
    if T > 0:
        if tar == 0 and on[0] and not all(on[k] for k in range(min(R, T))):
            return False
        if tao == 0 and not on[0] and any(on[k] for k in range(min(D, T))):
            return False
    if tar > 0 and not all(on[t] for t in range(min(max(R - tar, 0), T))):
        return False
    if tao > 0 and any(on[t] for t in range(min(max(D - tao, 0), T))):
        return False
    return True


def py_accepts(R, D, tar, tao, on):
    """transcription of `EAO.UC.accepts`"""
    st = (True, tar) if tar > 0 else ((False, tao) if tao > 0 else (False, D))
    for v in on:
        if v == st[0]:
            st = (st[0], st[1] + 1)
        elif (R if st[0] else D) <= st[1]:
            st = (v, 1)
        else:
            return False
    return True


def py_guard(R, D, tar, tao):
    return (not D > 1) or (tar > 0 and tao == 0) or (tar == 0 and tao > 0)


# ------------------------------------------------------------------------------------------- HiGHS on a real problem
def bool_vars(op):
    m = op.mapping
    if 'bool' not in m.columns:
        return []
    mm = m[~m.index.duplicated(keep='first')]
    return [int(i) for i, b in zip(mm.index, mm['bool'].values) if b is True or b == True]


def highs(op, obj=None, lb=None, ub=None):
    """minimise obj·x (default 0) over the real OptimProblem with HiGHS; returns (status, x, value);
    status 'optimal' | 'infeasible' | other"""
    from scipy.optimize import milp, LinearConstraint, Bounds
    n = len(op.c)
    lb = np.asarray(op.l if lb is None else lb, dtype=float)
    ub = np.asarray(op.u if ub is None else ub, dtype=float)
    if np.any(lb > ub):
        return 'infeasible', None, None
    cons = []
    if op.A is not None and op.A.shape[0] > 0:
        A = sp.csr_matrix(op.A)
        b = np.asarray(op.b, dtype=float)
        lo = np.full(len(b), -np.inf)
        hi = np.full(len(b), np.inf)
        for i, k in enumerate(op.cType):
            if k in 'US N'.replace(' ', ''):
                pass
            if k in ('U', 'S', 'N'):
                hi[i] = b[i]
            if k in ('L', 'S', 'N'):
                lo[i] = b[i]
        cons = [LinearConstraint(A, lo, hi)]
    integ = np.zeros(n)
    integ[bool_vars(op)] = 1
    res = milp(np.zeros(n) if obj is None else np.asarray(obj, dtype=float), constraints=cons, integrality=integ, bounds=Bounds(lb, ub))
    if res.status == 0:
        return 'optimal', res.x, float(res.fun)
    if res.status == 2:
        return 'infeasible', None, None
    return 'status%d' % res.status, None, None


def V(oracle, detail, **facts):
    return {'oracle': oracle, 'detail': detail, 'facts': facts}


def steps_of(case, info):
    return info['R'], info['D'], info['tar'], info['tao']


def oracle_patterns(case, ir, info, drv=None):
    """(a) the admissible on/off patterns of the REAL asset problem must be exactly those of the run-length
    specification (and of the automaton, under the constructor's guard read in steps)"""
    op, asset = ir['op'], ir['asset']
    T = asset.timegrid.restricted.T
    on0 = asset.on_idx
    R, D, tar, tao = steps_of(case, info)
    pats = list(itertools.product([False, True], repeat=T))
    real = []
    for pat in pats:
        lb, ub = op.l.copy(), op.u.copy()
        v = np.asarray(pat, dtype=float)
        lb[on0:on0 + T] = np.maximum(lb[on0:on0 + T], v)
        ub[on0:on0 + T] = np.minimum(ub[on0:on0 + T], v)
        st, _, _ = highs(op, lb=lb, ub=ub)
        real.append(st == 'optimal')
    spec = [py_spec(R, D, tar, tao, p) for p in pats]
    acc = [py_accepts(R, D, tar, tao, p) for p in pats]
    guard = py_guard(R, D, tar, tao)
    viol = []
    dis = []
    if drv is not None:
        m = drv.ask({'op': 'uc_accepts', 'R': R, 'D': D, 'tar': tar, 'tao': tao, 'patterns': [list(p) for p in pats]})
        if 'ok' not in m:
            dis.append('uc_accepts: driver rejected the request: %s' % str(m)[:200])
        else:
            m = m['ok']
            if m['accepts'] != acc or m['spec'] != spec or m['guard'] != guard:
                dis.append('uc_accepts: model automaton/spec differ from their Python transcription (R=%d D=%d tar=%d tao=%d T=%d)' % (R, D, tar, tao, T))
            acc, spec, guard = m['accepts'], m['spec'], m['guard']
    facts = dict(R=R, D=D, tar=tar, tao=tao, T=T, guard=guard, state=case.get('state'))
    fmt = lambda p: ''.join('1' if b else '0' for b in p)
    bad = [i for i in range(len(pats)) if real[i] != spec[i]]
    if bad:
        i = bad[0]
        viol.append(V('chp.pattern', 'pattern %s: real rows %s, run-length specification %s (R=%d D=%d tar=%d tao=%d; %d of %d patterns differ)' % (
            fmt(pats[i]), 'admit' if real[i] else 'exclude', 'admits' if spec[i] else 'excludes', R, D, tar, tao, len(bad), len(pats)),
            kind='pattern_vs_spec', **facts))
    bad = [i for i in range(len(pats)) if real[i] != acc[i]]
    if bad:
        i = bad[0]
        viol.append(V('chp.pattern', 'pattern %s: real rows %s, automaton %s (R=%d D=%d tar=%d tao=%d, guard in steps %s; %d of %d patterns differ)' % (
            fmt(pats[i]), 'admit' if real[i] else 'exclude', 'accepts' if acc[i] else 'rejects', R, D, tar, tao, guard, len(bad), len(pats)),
            kind='pattern_vs_automaton' if guard else 'guard_not_in_steps', **facts))
    obs = {'patterns': len(pats), 'admitted': sum(real), 'guard': guard}
    return viol, dis, obs


# ------------------------------------------------------------------------------------------- own evaluation of parameters
def vec_of(value, pts, I, prices, default, T):
    """independent evaluation of scalar | array | key | interval data on the restricted points"""
    if value is None:
        return None
    if isinstance(value, (int, float)):
        return np.full(T, float(value))
    if isinstance(value, np.ndarray):
        return value * np.ones(T)
    if isinstance(value, str):
        return np.asarray(prices[value], dtype=float)[I]
    out = np.full(T, float(default))
    for s, e, v in zip(value['start'], value['end'], value['values']):
        s, e = pd.Timestamp(s), pd.Timestamp(e)
        for i, p in enumerate(pts):
            if s <= pd.Timestamp(p).tz_localize(None) < e:
                out[i] = v
    return out


def own_grid(case, asset):
    """the asset's own (restricted) grid on the grid of the case, computed on a FRESH time grid object: inside a portfolio
    all assets share one Timegrid object, whose `restricted` is the window of the asset set up last"""
    tg = scen.make_grid(case['grid'])
    tg.set_wacc(getattr(asset, 'wacc', 0))
    tg.set_restricted_grid(asset.start, asset.end)
    return tg.restricted


def params_on_grid(case, asset, rg=None):
    a = scen.dec(copy.deepcopy(case['args']))
    rg = asset.timegrid.restricted if rg is None else rg
    T, I, pts, dt = rg.T, np.asarray(rg.I), list(rg.timepoints), np.asarray(rg.dt, dtype=float)
    pr = np_prices(case)
    g = lambda k, d: vec_of(a.get(k, d), pts, I, pr, d, T)
    P = {'T': T, 'dt': dt, 'min_cap': g('min_cap', 0.) * dt, 'max_cap': g('max_cap', 0.) * dt,
         'conv': g('conversion_factor_power_heat', 1.), 'share': vec_of(a.get('max_share_heat'), pts, I, pr, 1., T),
         'ramp': None if a.get('ramp') is None else a['ramp'] * dt[0], 'last': a.get('last_dispatch', 0) * dt[0],
         'start_costs': g('start_costs', 0.), 'eff': g('fuel_efficiency', 1.), 'cons': g('consumption_if_on', 0.) * dt,
         'start_fuel': g('start_fuel', 0.)}
    return P


def oracle_first_ramp(case, ir, info):
    """min / max of the first-step virtual dispatch admitted by the REAL asset problem vs what the property
    says: within [last − ramp, last + ramp], between min and max capacity when on, zero when off"""
    op, asset = ir['op'], ir['asset']
    P = params_on_grid(case, asset)
    if P['ramp'] is None:
        return [], {}
    a = case['args']
    if 'min_take' in a or 'max_take' in a:
        return [], {}
    R, D, tar, tao = steps_of(case, info)
    n = len(op.c)
    obj = np.zeros(n)
    obj[0] = 1.
    if info['heat']:
        obj[info['heat_idx']] = P['conv'][0]
    stmin, _, vmin = highs(op, obj=obj)
    stmax, _, vmax = highs(op, obj=-obj)
    if stmin != 'optimal' or stmax != 'optimal':
        return [], {'first_ramp': 'asset problem ' + stmin}
    vmax = -vmax
    ramp, last, lo, hi = P['ramp'], P['last'], P['min_cap'][0], P['max_cap'][0]
    on_vars = info['inc_on']
    forced_on = info['inc_start'] and R > 1 and tar > 0 and R - tar > 0
    forced_off = D > 1 and tao > 0 and D - tao > 0
    cands = []
    if not forced_off:                      # on at step 0
        a_lo, a_hi = max(lo if on_vars else 0., last - ramp, 0.), min(hi, last + ramp)
        if a_lo <= a_hi + 1e-9:
            cands.append((a_lo, a_hi))
    if on_vars and not forced_on and last - ramp <= 1e-9:   # off at step 0 (a shutdown needs last ≤ ramp)
        cands.append((0., 0.))
    if not cands:
        return [], {'first_ramp': 'nothing expected to be admissible'}
    emin, emax = min(c[0] for c in cands), max(c[1] for c in cands)
    tol = 1e-6 * max(1., abs(last), hi)
    viol = []
    const_caps = all(isinstance(case['args'].get(k, 0.), (int, float)) for k in ('min_cap', 'max_cap'))
    facts = dict(tar=tar, tao=tao, on_vars=on_vars, last=last, ramp=ramp, state=case.get('state'))
    if vmax > emax + tol:
        viol.append(V('chp.first_ramp', 'first step: the real asset problem admits virtual dispatch %.6g, but last_dispatch + ramp = %.6g + %.6g (max_cap %.6g)' % (
            vmax, last, ramp, hi), kind='first_step_ramp_up', direction='up', **facts))
    if vmax < emax - tol and const_caps:
        viol.append(V('chp.first_ramp', 'first step: the real asset problem caps virtual dispatch at %.6g, expected %.6g (last %.6g, ramp %.6g, max_cap %.6g)' % (
            vmax, emax, last, ramp, hi), kind='first_step_upper_too_tight', direction='up', **facts))
    if vmin < emin - tol:
        viol.append(V('chp.first_ramp', 'first step: the real asset problem admits virtual dispatch %.6g below last_dispatch - ramp = %.6g - %.6g' % (
            vmin, last, ramp), kind='first_step_ramp_down', direction='down', **facts))
    if vmin > emin + tol and const_caps:
        kind = 'first_step_shutdown_excluded' if (tar > 0 and emin == 0.) else 'first_step_lower_too_tight'
        viol.append(V('chp.first_ramp', 'first step: the real asset problem forces virtual dispatch >= %.6g, expected minimum %.6g (last %.6g, ramp %.6g, min_cap %.6g, max_cap %.6g, time_already_running %d)' % (
            vmin, emin, last, ramp, lo, hi, tar), kind=kind, direction='down', **facts))
    return viol, {'first_ramp': [vmin, vmax, emin, emax]}


def oracle_spurious_start(case, ir, info):
    """is a start flag without off→on transition admissible in the REAL asset problem? (F-06b)"""
    if not info['inc_start']:
        return [], {}
    op, asset = ir['op'], ir['asset']
    T = asset.timegrid.restricted.T
    if T < 2:
        return [], {}
    on0, st0 = getattr(asset, 'on_idx', None), getattr(asset, 'start_idx', None)
    if on0 is None or st0 is None:
        # the real asset has no start variables where the model expects them: nothing to probe here; the
        # correspondence and the optimised-portfolio oracle (fuel and start flags recomputed from x) decide
        return [], {'spurious': 'no start variables in the real asset'}
    viol = []
    if np.any(op.l[st0:st0 + T] != 0) or np.any(op.u[st0:st0 + T] != 1):
        viol.append(V('chp.start_flag', 'bounds of the start variables are not [0, 1]: l = %s, u = %s (initial-state bounds belong to the on variables only)' % (
            op.l[st0:st0 + T].tolist(), op.u[st0:st0 + T].tolist()), kind='start_forced_by_bound', probe=True))
    lb, ub = op.l.copy(), op.u.copy()
    lb[on0:on0 + T] = 1
    st, _, _ = highs(op, lb=lb, ub=ub)
    if st != 'optimal':
        return viol, {'spurious': 'all-on not admissible'}
    k = T - 1
    lb[st0 + k] = 1
    st, _, _ = highs(op, lb=lb, ub=ub)
    if st == 'optimal':
        P = params_on_grid(case, asset)
        free = P['start_costs'][k] == 0 and P['start_fuel'][k] == 0
        viol.append(V('chp.start_flag', 'on at every step and start flag 1 at step %d (no off->on transition) is feasible in the real asset problem' % k,
                      kind='spurious_start', free=bool(free), probe=True))
        return viol, {'spurious': True}
    return viol, {'spurious': False}


def oracle_profile_ramp(case, ir, info):
    """statement-level probe (cases of `gen_probe_profile_ramp` only): "it changes by at most the ramp between consecutive
    steps including the first step relative to the last dispatch (start/shutdown ramp profiles taking precedence where
    given)".  The witness dispatch follows the start profile where it applies - from position `tar` for a plant already
    inside its start ramp (a start before the horizon), from position 0 for a start in the first step (and, as a control,
    for a start in the second step after an off step) - and then stays constant at the last profile value, which lies
    between min and max capacity: it respects capacity, profile bounds, the ramp outside the start ramp, runtime and
    downtime, so it is admissible under the statement whatever the ramp.  It is pinned on the dispatch variables of the REAL
    asset problem (binaries free, heat 0) and HiGHS decides feasibility.  Facts: `kind`
      'start_ramp_before_horizon_ramp_binds'  rejected, plant inside its start ramp at the beginning, and the witness
                                              exceeds the ramp only in steps of that start ramp (F-06h)
      'start_ramp_first_step_ramp_binds'      rejected, start in the first step, and the witness exceeds the ramp in the
                                              first step relative to the last dispatch (F-06i)
      'start_profile_later_step_rejected' / 'profile_witness_rejected'   anything else that is rejected"""
    op, asset = ir['op'], ir['asset']
    P = params_on_grid(case, asset)
    T, S, tar = P['T'], info['S'], info['tar']
    if P['ramp'] is None or S == 0 or tar >= S or T < S + 2:
        return [], {'profile_ramp': 'not applicable'}
    sl, su = ([float(Fraction(v)) for v in info[k]] for k in ('sl', 'su'))
    val = sl if case.get('pick', 'lo') == 'lo' else su
    ramp, last = P['ramp'], P['last']

    def witness(shift):
        w = [0.] * shift + val[tar:]
        return np.asarray((w + [val[-1]] * T)[:T])

    def admitted(w):
        lb, ub = op.l.copy(), op.u.copy()
        lb[0:T] = w
        ub[0:T] = w
        if info['heat']:
            lb[info['heat_idx']:info['heat_idx'] + T] = 0.
            ub[info['heat_idx']:info['heat_idx'] + T] = 0.
        return highs(op, lb=lb, ub=ub)[0]
    tol = 1e-9 * max(1., val[-1])
    w = witness(0)
    n_ramp = S - tar                        # steps 0 .. n_ramp - 1 belong to the start ramp
    binding = []
    if w[0] - last > ramp + tol:
        binding.append('first_step')
    binding += ['step_%d' % t for t in range(1, n_ramp) if w[t] - w[t - 1] > ramp + tol]
    facts = dict(tar=tar, S=S, T=T, ramp=ramp, last=last, state=case.get('state'), cls=case['cls'], binding=binding,
                 witness=[float(x) for x in w], probe=True)
    st = admitted(w)
    obs = {'profile_ramp': st, 'profile_ramp_binding': len(binding)}
    viol = []
    if st == 'infeasible':
        if tar > 0 and binding:
            kind = 'start_ramp_before_horizon_ramp_binds'
            why = 'the plant is in step %d of its start ramp at the beginning (start before the horizon)' % tar
        elif tar == 0 and 'first_step' in binding:
            # (the rows of the later steps of a start inside the horizon are relaxed by the start variables: the control below)
            kind = 'start_ramp_first_step_ramp_binds'
            why = 'start in the first step'
        else:
            kind = 'profile_witness_rejected'
            why = 'start in the first step' if tar == 0 else 'start before the horizon'
        viol.append(V('chp.profile_ramp', '%s: dispatch %s follows the start profile %s and then stays at %.6g within [min_cap %.6g, max_cap %.6g], but the real asset problem rejects it (ramp %.6g, last_dispatch %.6g; the witness exceeds the ramp in %s, all inside the start ramp)' % (
            why, [float(x) for x in w], val, val[-1], P['min_cap'][0], P['max_cap'][0], ramp, last, binding or 'no step'), kind=kind, **facts))
    elif st != 'optimal':
        obs['profile_ramp'] = st
    if tar == 0 and last == 0 and info['D'] <= 1:
        # control: off in the first step, start in the second: the code relaxes the ramp rows by the start variables
        w1 = witness(1)
        st1 = admitted(w1)
        obs['profile_ramp_later'] = st1
        if st1 == 'infeasible':
            viol.append(V('chp.profile_ramp', 'start in the second step: dispatch %s follows the start profile %s and then stays constant, but the real asset problem rejects it (ramp %.6g)' % (
                [float(x) for x in w1], val, ramp), kind='start_profile_later_step_rejected', **dict(facts, witness=[float(x) for x in w1])))
    return viol, obs


def oracle_tables(case, I, out, P, prof=False, tar=0):
    """the last clauses of C06 read from the OUTPUT TABLES of the real code (`io.extract_output`: dispatch per node and
    step, internal variables bool_on / bool_start as reported), on EVERY step of the optimisation grid - also the steps
    outside the asset's own window, where it does not exist (nothing reported = off):
      * where the unit is reported off (or nothing is reported) its output - power, heat, fuel - is zero; where it is
        reported on, the step belongs to its window and the virtual output lies within [min_cap, max_cap] of that step;
      * the fuel drawn at the fuel node in a step = virtual output / efficiency + consumption_if_on while reported on +
        start_fuel where a start is reported (without start variables: at the off->on transitions of the reported state);
      * a start is reported in every step in which the reported state goes from off to on.
    Nothing is read from the solution vector or the mapping.  With ramp profiles only the fuel clause is judged"""
    name = case['name']
    disp, iv = out['dispatch'], out['internal_variables']
    Tg = len(disp)
    I = np.asarray(I, dtype=int)

    def table(df, label):
        for c in (name + ' (' + label + ')', name if df is disp else None):
            if c is not None and df is not None and c in df.columns:
                return pd.to_numeric(df[c], errors='coerce').fillna(0.).values.astype(float), True
        return np.zeros(Tg), False

    def full(vec, fill=0.):
        w = np.full(Tg, float(fill))
        w[I] = vec
        return w
    has_heat = case['cls'] in ('CHPAsset', 'CHPAsset_with_min_load_costs')
    power, _ = table(disp, case['nodes'][0])
    heat = table(disp, case['nodes'][1])[0] if has_heat else np.zeros(Tg)
    has_fuel = 'gas' in case['nodes'] and len(case['nodes']) == (3 if has_heat else 2)
    fuel = table(disp, 'gas')[0] if has_fuel else np.zeros(Tg)
    on, has_on = table(iv, 'bool_on')
    start, has_start = table(iv, 'bool_start')
    on_r, start_r = np.round(on), np.round(start)
    inside = np.zeros(Tg, dtype=bool)
    inside[I] = True
    v = power + full(P['conv'], 1.) * heat
    sc = max(1., float(np.abs(v).max()))
    tol = 2e-6 * sc
    lo, hi = full(P['min_cap']), full(P['max_cap'])
    first = int(I[0]) if len(I) else 0
    facts = dict(on_vars=has_on, start_vars=has_start, tar=tar, state=case.get('state'), tables=True, window=[first, int(I[-1]) + 1 if len(I) else 0],
                 grid_steps=Tg, window_kind=case.get('window_kind'))
    viol = []
    obs = {'tables_steps': Tg, 'tables_outside': int(Tg - inside.sum())}
    # off (or not existing) => nothing produced, nothing drawn
    for t in range(Tg):
        if not inside[t]:
            if abs(power[t]) > tol or abs(heat[t]) > tol or abs(fuel[t]) > tol or on_r[t] != 0 or start_r[t] != 0:
                viol.append(V('chp.tables', 'output tables, step %d of the grid lies OUTSIDE the own window of the unit (steps %d..%d): power %.6g, heat %.6g, fuel node %.6g, reported on %g, reported start %g - all of them must be zero / absent' % (
                    t, first, facts['window'][1] - 1, power[t], heat[t], fuel[t], on[t], start[t]), kind='tables_outside_window', step=t, **facts))
                break
        elif has_on and not prof:
            if on_r[t] == 0 and abs(v[t]) > tol:
                viol.append(V('chp.tables', 'output tables, step %d: the unit is reported off (bool_on %g) but its virtual output is %.6g (power %.6g, heat %.6g)' % (
                    t, on[t], v[t], power[t], heat[t]), kind='tables_off_nonzero', step=t, **facts))
                break
            if on_r[t] == 1 and (v[t] < lo[t] - tol or v[t] > hi[t] + tol):
                viol.append(V('chp.tables', 'output tables, step %d: the unit is reported on but its virtual output %.6g lies outside [%.6g, %.6g]' % (
                    t, v[t], lo[t], hi[t]), kind='tables_on_outside', step=t, **facts))
                break
    # fuel per step
    if has_fuel:
        prev_on = np.concatenate(([0.], on_r[:-1]))
        if len(I):
            prev_on[first] = 1. if tar > 0 else 0.
        trans = ((on_r == 1) & (prev_on == 0)).astype(float)
        flag = start_r if has_start else (trans if has_on else np.zeros(Tg))
        exp = -(v / full(P['eff'], 1.)) - (full(P['cons']) * on_r if has_on else 0.) - full(P['start_fuel']) * flag
        bad = np.where(np.abs(fuel - exp) > 1e-6 * max(1., float(np.abs(exp).max())))[0]
        obs['tables_fuel_steps'] = int(Tg)
        if len(bad):
            t = int(bad[0])
            viol.append(V('chp.tables', 'output tables, step %d: dispatch at the fuel node %.8g, expected -(virtual output %.6g / efficiency %.6g) - consumption_if_on %.6g x reported on %g - start_fuel %.6g x %s %g = %.8g' % (
                t, fuel[t], v[t], full(P['eff'], 1.)[t], full(P['cons'])[t], on_r[t], full(P['start_fuel'])[t],
                'reported start' if has_start else 'off->on transition', flag[t], exp[t]), kind='tables_fuel', step=t, **facts))
    # a start is reported at every off -> on transition of the reported state (a start reported without a transition is
    # the recorded finding F-06b and judged on the solution vector by chp.start_flag)
    if has_start and has_on and not prof:
        for t in range(Tg):
            if not inside[t]:
                continue
            prev = (1. if tar > 0 else 0.) if t == first else on_r[t - 1]
            if on_r[t] == 1 and prev == 0 and start_r[t] != 1:
                viol.append(V('chp.tables', 'output tables, step %d: the reported state goes from off to on but no start is reported (bool_start %g)' % (t, start[t]),
                              kind='tables_missed_start', step=t, **facts))
                break
    return viol, obs


# ------------------------------------------------------------------------------------------- (b) optimised portfolio
def oracle_portfolio(case, info=None, shared=None):
    """optimise plant + markets with the real code and recompute capacity, ramp, heat share, fuel and start
    flags from x; with start / shutdown ramp profiles (bounds on the grid taken from the model: `info`) the virtual
    dispatch in the k-th step after a start / before a shutdown must lie within the k-th profile bounds, which take
    precedence over min_cap / max_cap / ramp there; the optimised on/off pattern must respect minimum runtime, minimum
    downtime and the initial state in steps of the grid of the case (oracle chp.commitment).
    `shared` = (asset object, {node name: Node}): an EXISTING object (set up before, possibly on other grids) takes the
    place of a freshly constructed one (stream 'regrid')"""
    nodes = {n: eao.Node(n) for n in case['nodes']} if shared is None else shared[1]
    with Quiet():
        if shared is None:
            asset = build_asset(case)
            asset.nodes = [nodes[n] for n in case['nodes']]
        else:
            asset = shared[0]
        others = [scen.build_asset(s, nodes) for s in case['companions'].values()]
        portf = eao.portfolio.Portfolio([asset] + others)
        tg = scen.make_grid(case['grid'])
        prices = np_prices(case)
        op = portf.setup_optim_problem(prices, tg)
        try:
            res = op.optimize(solver='SCIPY')
        except AssertionError as e:
            # a declared state that contradicts itself in steps (running AND off before, cf. F-06d): the bounds cross
            if 'Lower bounds must be smaller' not in str(e):
                raise
            res = 'bounds-contradict'
    if isinstance(res, str):
        return [], {'solved': False, 'status': res}
    with Quiet():
        out = eao.io.extract_output(portf, op, res, prices)
    x = np.asarray(res.x, dtype=float)
    rg_own = own_grid(case, asset)
    P = params_on_grid(case, asset, rg_own)
    T, dt = P['T'], P['dt']
    I = np.asarray(rg_own.I)
    m = op.mapping
    mm = m[m['asset'] == case['name']]

    def series(var_name, node):
        sel = mm[(mm['var_name'] == var_name)]
        sel = sel[sel['node'] == node] if node is not None else sel[sel['node'].isna()]
        v = np.zeros(T)
        for idx, r in zip(sel.index, sel.to_dict('records')):
            hit = np.where(I == r['time_step'])[0]
            if not len(hit):
                stray.append((var_name, int(r['time_step'])))     # a mapping row labelled with a step outside the own window
                continue
            k = int(hit[0])
            v[k] = x[idx]
            if var_name == 'bool_start':
                start_lower[k] = op.l[idx]
        return v, len(sel) > 0
    start_lower = np.zeros(T)
    stray = []
    power, _ = series('disp', case['nodes'][0])
    has_heat = case['cls'] in ('CHPAsset', 'CHPAsset_with_min_load_costs')
    heat = series('disp', case['nodes'][1])[0] if has_heat else np.zeros(T)
    on, has_on = series('bool_on', None)
    start, has_start = series('bool_start', None)
    on_r, start_r = np.round(on), np.round(start)
    conv = P['conv']
    v = power + conv * heat
    sc = max(1., float(np.abs(v).max()))
    tol = 2e-6 * sc
    viol = []
    a = case['args']
    tar = math.ceil(a.get('time_already_running', 0) * case['unit_s'] / case['step_s'])
    facts = dict(on_vars=has_on, start_vars=has_start, tar=tar, state=case.get('state'))
    prof = bool(info and info.get('profiles'))
    phase = np.zeros(T, dtype=bool)
    # the statement on the output tables, over the whole grid (nothing read from x or the mapping)
    viol_t, obs_t = oracle_tables(case, I, out, P, prof=prof or any(k.endswith('_bounds') or k.endswith('_bounds_heat') for k in a), tar=tar)
    viol += viol_t
    if prof:
        shut, has_shut = series('bool_shutdown', None)
        shut_r = np.round(shut)
        S, Q = info['S'], info['Q']
        sl, su, ql, qu = ([float(Fraction(v)) for v in info[k]] for k in ('sl', 'su', 'ql', 'qu'))
        sphase = -np.ones(T, dtype=int)      # position in a start ramp
        qphase = -np.ones(T, dtype=int)      # position in a shutdown ramp
        for s0 in range(T):
            if start_r[s0] == 1:
                for k in range(S):
                    if s0 + k < T:
                        sphase[s0 + k] = k
            if shut_r[s0] == 1:
                for j in range(Q):
                    if s0 - 1 - j >= 0:
                        qphase[s0 - 1 - j] = j
        if 0 < tar < S:
            for i in range(min(S - tar, T)):
                sphase[i] = tar + i
        phase = (sphase >= 0) | (qphase >= 0)
        if Q > 0 and shut_r[0] == 1:
            # a stop at step 0: the steps before the horizon were the shutdown ramp; the code relaxes the first-step
            # ramp row by every shutdown flag among the first Q steps (last_dispatch is not checked against the profile)
            phase[0] = True
        nprof = 0
        for t in range(T):
            if sphase[t] >= 0 and qphase[t] >= 0:
                continue        # both ramps at once: the rows combine the two reliefs, nothing simple to expect
            if sphase[t] >= 0 and on_r[t] == 1:
                k = sphase[t]
                nprof += 1
                if v[t] < sl[k] - tol or v[t] > su[k] + tol:
                    viol.append(V('chp.profile', 'step %d is step %d of a start ramp: virtual dispatch %.6g outside the profile bounds [%.6g, %.6g]' % (
                        t, k, v[t], sl[k], su[k]), kind='start_profile', **facts))
                    break
            if qphase[t] >= 0 and on_r[t] == 1:
                j = qphase[t]
                nprof += 1
                if v[t] < ql[j] - tol or v[t] > qu[j] + tol:
                    viol.append(V('chp.profile', 'step %d is %d steps before a shutdown: virtual dispatch %.6g outside the profile bounds [%.6g, %.6g]' % (
                        t, j + 1, v[t], ql[j], qu[j]), kind='shutdown_profile', **facts))
                    break
        # with shutdown variables the flags are exact: start_t - shut_t = on_t - on_{t-1}
        for t in range(T):
            prev = (1. if tar > 0 else 0.) if t == 0 else on_r[t - 1]
            if start_r[t] - shut_r[t] != on_r[t] - prev or (start_r[t] == 1 and shut_r[t] == 1 and t < T - 1):
                viol.append(V('chp.start_flag', 'step %d: start %d, shutdown %d but on goes %d -> %d' % (t, start_r[t], shut_r[t], prev, on_r[t]),
                              kind='start_shutdown_flags', **facts))
                break
    # unit commitment: the on/off pattern of the optimum is one of the patterns the statement allows - minimum runtime,
    # minimum downtime and the declared initial state, the durations converted to steps of THE GRID OF THIS CASE (the
    # model's step counts `info`, cross-checked with ceil(duration * unit / step)); profile-free rows only (with ramp
    # profiles the minimum runtime grows by the ramp times: no theorem, left to the row correspondence)
    n_commit = None
    if has_on and info and not prof and all(k in info for k in ('R', 'D', 'tar', 'tao')):
        Rm, Dm, tarm, taom = info['R'], info['D'], info['tar'], info['tao']
        pat = [bool(b) for b in on_r]
        n_commit = int(Rm > 1 or Dm > 1)
        if not py_spec(Rm, Dm, tarm, taom, pat):
            viol.append(V('chp.commitment', 'optimised on/off pattern %s violates minimum runtime %d / minimum downtime %d steps with initial state running %d / off %d steps (grid %s, main time unit %s: min_runtime %s, min_downtime %s, time_already_running %s, time_already_off %s in main time units)' % (
                ''.join('1' if b else '0' for b in pat), Rm, Dm, tarm, taom, case['grid']['freq'], case['grid']['unit'], a.get('min_runtime', 0),
                a.get('min_downtime', 0), a.get('time_already_running', 0), a.get('time_already_off', 0)),
                kind='optimum_pattern_vs_spec', R=Rm, D=Dm, tao=taom, T=T, **facts))
    # capacity
    for t in range(T):
        if phase[t]:
            continue
        if has_on and on_r[t] == 0:
            if abs(v[t]) > tol:
                viol.append(V('chp.capacity', 'step %d: off but virtual dispatch %.6g' % (t, v[t]), kind='off_nonzero', **facts))
                break
        else:
            lo = P['min_cap'][t] if has_on else 0.
            if v[t] < lo - tol or v[t] > P['max_cap'][t] + tol:
                viol.append(V('chp.capacity', 'step %d: on with virtual dispatch %.6g outside [%.6g, %.6g]' % (t, v[t], lo, P['max_cap'][t]), kind='on_outside', **facts))
                break
    # ramp
    if P['ramp'] is not None:
        ramp = P['ramp']
        for t in range(1, T):
            if phase[t] or phase[t - 1]:
                continue
            if abs(v[t] - v[t - 1]) > ramp + tol:
                code_view = (power[t] + conv[t] * heat[t]) - (power[t - 1] + conv[t] * heat[t - 1])
                viol.append(V('chp.ramp', 'step %d: virtual dispatch changes by %.6g > ramp %.6g (with the conversion factor of step t on both heats: %.6g)' % (
                    t, v[t] - v[t - 1], ramp, code_view),
                    kind='ramp_conv_index' if abs(code_view) <= ramp + tol else 'ramp_step', **facts))
                break
        d0 = v[0] - P['last']
        if abs(d0) > ramp + tol and not (has_on and on_r[0] == 0 and tar == 0) and not phase[0]:
            viol.append(V('chp.first_ramp', 'first step: virtual dispatch %.6g vs last_dispatch %.6g: change %.6g > ramp %.6g' % (v[0], P['last'], d0, ramp),
                          kind='first_step_ramp_up' if d0 > 0 else 'first_step_ramp_down', direction='up' if d0 > 0 else 'down', probe=False, **facts))
    # heat share
    if has_heat and P['share'] is not None:
        for t in range(T):
            if heat[t] > P['share'][t] * power[t] + tol:
                viol.append(V('chp.heat_share', 'step %d: heat %.6g > share %.6g x power %.6g' % (t, heat[t], P['share'][t], power[t]), kind='heat_share', **facts))
                break
    # fuel
    if 'gas' in case['nodes'] and len(case['nodes']) == (3 if has_heat else 2):
        col = case['name'] + ' (gas)'
        got = out['dispatch'][col].values.astype(float)[I]
        if has_start:
            sf = P['start_fuel'] * start_r
        elif has_on:
            # no start variables: the start consumption must still be drawn at the off->on transitions
            prev_on = np.concatenate(([1. if tar > 0 else 0.], on_r[:-1]))
            sf = P['start_fuel'] * ((on_r == 1) & (prev_on == 0))
        else:
            sf = 0.
        exp = -v / P['eff'] - (P['cons'] * on_r if has_on else 0.) - sf
        bad = np.where(np.abs(got - exp) > 1e-6 * max(1., float(np.abs(exp).max())))[0]
        if len(bad):
            t = int(bad[0])
            viol.append(V('chp.fuel', 'step %d: fuel node dispatch %.8g, expected -(v/eta) - cons*on - start_fuel*start = %.8g' % (t, got[t], exp[t]), kind='fuel', **facts))
    # start flags
    if has_start and not prof:
        for t in range(T):
            prev = (1. if tar > 0 else 0.) if t == 0 else on_r[t - 1]
            trans = 1. if (on_r[t] == 1 and prev == 0) else 0.
            if start_r[t] != trans:
                paid = P['start_costs'][t] != 0 or P['start_fuel'][t] != 0
                kind = 'missed_start' if trans == 1 else 'spurious_start'
                if trans == 0 and start_lower[t] >= 1:
                    kind = 'start_forced_by_bound'
                viol.append(V('chp.start_flag', 'step %d: start flag %d but on goes %d -> %d (start costs %.6g, start fuel %.6g)' % (
                    t, start_r[t], prev, on_r[t], P['start_costs'][t], P['start_fuel'][t]), kind=kind, free=not paid, probe=False, **facts))
                break
    # start costs charged: the plant's cash flow of a step in which it goes from off to on carries the start costs OF THAT
    # STEP, whether or not the problem has start (or on) variables.  The on/off pattern is read from the on variables, without
    # them from the dispatch (output > 0 => on; output below a positive min_cap => off); the start costs charged in a step
    # are what the plant's cash flow (output of the real code) holds beyond the costs of its other variables (dispatch, on,
    # shutdown, minimum-load flags).  Lower bound only: a start flagged and charged WITHOUT a transition is the recorded
    # finding F-06b (start >= transition) and not judged here.
    n_tr = 0
    if np.any(P['start_costs'] != 0) and len(mm):
        cash = out['DCF'][case['name']].values.astype(float)[I]
        mu = mm[~mm.index.duplicated(keep='first')]
        other = np.zeros(T)
        for idx, r in zip(mu.index, mu.to_dict('records')):
            if r['var_name'] != 'bool_start' and r['time_step'] in I:
                other[int(np.where(I == r['time_step'])[0][0])] += op.c[idx] * x[idx]
        charged = -cash - other
        if has_on:
            is_on, is_off = on_r == 1, on_r == 0
        else:
            is_on, is_off = v > tol, v < P['min_cap'] - tol
        for t in range(T):
            was_off = (tar == 0) if t == 0 else bool(is_off[t - 1])
            if not (is_on[t] and was_off):
                continue
            sc_t = float(P['start_costs'][t])
            if sc_t != 0:
                n_tr += 1
            if charged[t] < sc_t - 1e-6 * max(1., abs(sc_t)):
                viol.append(V('chp.start_costs', 'step %d: the plant goes from off to on (%s; virtual dispatch %.6g -> %.6g), start costs of the step %.6g, but its cash flow %.6g holds only %.6g beyond the costs of dispatch / running (start variables %s; optimal value %.6g)' % (
                    t, 'on variables' if has_on else 'read from the dispatch, min_cap %.6g' % P['min_cap'][t - 1 if t else 0], P['last'] if t == 0 else v[t - 1], v[t], sc_t, cash[t], charged[t],
                    'present' if has_start else 'ABSENT', float(res.value)), kind='start_costs_not_charged', step=t, start_costs=sc_t, charged=float(charged[t]), **facts))
                break
    # minimum-load costs: below the threshold while on => the boolean is 1 (and its cost is charged)
    if case['cls'] == 'CHPAsset_with_min_load_costs':
        bthr, has_thr = series('bool_threshhold', None)
        if has_thr:
            a_dec = scen.dec(copy.deepcopy(case['args']))
            rg = rg_own
            thr = vec_of(a_dec.get('min_load_threshhold', 0.), list(rg.timepoints), np.asarray(rg.I), np_prices(case), 0., T) * dt
            mlc = vec_of(a_dec.get('min_load_costs'), list(rg.timepoints), np.asarray(rg.I), np_prices(case), 0., T) * dt
            b_r = np.round(bthr)
            below = 0
            for t in range(T):
                is_on = (not has_on) or on_r[t] == 1
                if is_on and power[t] < thr[t] - tol:
                    below += 1
                    if b_r[t] != 1:
                        viol.append(V('chp.min_load', 'step %d: on with power %.6g below the threshold %.6g but bool_threshhold = %g' % (
                            t, power[t], thr[t], bthr[t]), kind='min_load_flag_missing', **facts))
                        break
                elif b_r[t] == 1 and mlc[t] > 0:
                    viol.append(V('chp.min_load', 'step %d: bool_threshhold = 1 with cost %.6g although %s' % (
                        t, mlc[t], 'off' if not is_on else 'power %.6g >= threshold %.6g' % (power[t], thr[t])),
                        kind='min_load_flag_paid_needlessly', **facts))
                    break
            extra_obs = {'min_load_below': below}
        else:
            extra_obs = {'min_load_below': None}
    else:
        extra_obs = {}
    obs = {'solved': True, 'on_steps': int(on_r.sum()) if has_on else None, 'starts': int(start_r.sum()) if has_start else None,
           'value': float(res.value), 'v_max': float(v.max())}
    obs.update(extra_obs)
    obs.update(obs_t)
    if stray:
        obs['mapping_rows_outside_window'] = stray[:6]
    if prof:
        obs['profile_steps'] = nprof
    if n_commit is not None:
        obs['commitment_checked'] = n_commit
    if np.any(P['start_costs'] != 0):
        obs['paid_transitions'] = n_tr       # off->on transitions in steps with non-zero start costs (oracle chp.start_costs)
    return viol, obs


# ------------------------------------------------------------------------------------------- driver
def run_case(case, drv, pattern_tmax=7):
    r = {'disagreements': [], 'violations': [], 'features': [], 'observed': {}}
    ir = run_impl(case)
    mr = drv.ask(request(case, ir))
    return judge(case, ir, mr, drv, r, pattern_tmax)


def judge(case, ir, mr, drv, r, pattern_tmax=7, shared=None):
    """correspondence of the implementation result `ir` with the model's answer `mr` and the property oracles on the real
    problem of `ir`; `shared` = (asset object, nodes) is handed to the portfolio oracle (stream 'regrid')"""
    f = r['features']
    f.append('kind:' + case['kind'])
    f.append(case['cls'])
    f.append('nodes:%d' % len(case['nodes']))
    f.append('grid:%s/%s' % (case['grid']['freq'], case['grid']['unit']))
    f.append('exact' if case.get('exact') else 'tolerant')
    if 'ok' not in mr:
        r['disagreements'].append('chp: driver rejected the request: %s' % str(mr)[:300])
        return r
    mr = mr['ok']
    r['disagreements'] += compare(case, ir, mr)
    if case['kind'] == 'build' and 'costs_only' in ir:
        mc = drv.ask(request(case, ir, costs_only=True))
        if 'ok' not in mc:
            r['disagreements'].append('chp.costs_only: driver rejected the request: %s' % str(mc)[:300])
        else:
            r['disagreements'] += compare_costs_only(case, ir, mc['ok'])
            f.append('costs_only')
    if 'min_load' in request(case, ir):
        nv = (mr.get('info') or {}).get('n_chp_vars')
        if 'problem' in mr and nv is not None:
            f.append('min-load-added' if len(mr['problem']['c']) > nv else 'min-load-nothing')
    if 'error' in ir:
        f.append('error:%s@%s' % (ir['error'], ir['stage']))
        return r
    info = mr.get('info')
    if not info:
        f.append('empty-window')
        return r
    f.append('on' if info['inc_on'] else 'no-on')
    f.append('start' if info['inc_start'] else 'no-start')
    f.append('heat' if info['heat'] else 'no-heat')
    f.append('fuel' if info['fuel'] else 'no-fuel')
    a = case['args']
    for k in ('ramp', 'last_dispatch', 'time_already_running', 'time_already_off', 'running_costs', 'start_costs', 'min_take',
              'max_take', 'start', 'end', 'freq', 'max_share_heat', 'start_fuel', 'consumption_if_on', 'extra_costs'):
        if k in a:
            f.append('arg:' + k)
    for k in ('min_cap', 'max_cap', 'conversion_factor_power_heat', 'fuel_efficiency', 'start_costs', 'max_share_heat'):
        if k in a:
            f.append('%s:%s' % (k, 'dict' if isinstance(a[k], dict) and '$arr' not in a[k] else ('array' if isinstance(a[k], dict) else ('key' if isinstance(a[k], str) else 'scalar'))))
    f.append('R>1' if info['R'] > 1 else 'R<=1')
    f.append('D>1' if info['D'] > 1 else 'D<=1')
    if info['tar'] > 0 and info['R'] - info['tar'] > ir['asset'].timegrid.restricted.T and info['inc_start']:
        f.append('bound-spill')
    T = ir['asset'].timegrid.restricted.T
    prof = bool(info.get('profiles'))
    if prof:
        f.append('profiles:' + str(case.get('profiles')))
        f.append('S=%d' % info['S'])
        f.append('Q=%d' % info['Q'])
        if any(k.endswith('_heat') for k in a):
            f.append('profiles-heat')
        if 'ramp_freq' in a:
            f.append('ramp_freq')
    if prof:
        # the first-step and spurious-start probes assume the profile-free rows
        if case.get('probe') == 'profile_ramp':
            v, obs = oracle_profile_ramp(case, ir, info)
            r['violations'] += v
            r['observed'].update(obs)
            f.append('probe:profile_ramp')
            f.append('probe-ramp-binds' if obs.get('profile_ramp_binding') else 'probe-ramp-free')
    elif info['inc_on'] and ('min_take' not in a and 'max_take' not in a):
        v, obs = oracle_first_ramp(case, ir, info)
        r['violations'] += v
        r['observed'].update(obs)
        v, obs = oracle_spurious_start(case, ir, info)
        r['violations'] += v
        r['observed'].update(obs)
    elif 'ramp' in a and ('min_take' not in a and 'max_take' not in a):
        v, obs = oracle_first_ramp(case, ir, info)
        r['violations'] += v
        r['observed'].update(obs)
    if case['kind'] == 'pattern' and info['inc_on'] and T <= pattern_tmax:
        v, d, obs = oracle_patterns(case, ir, info, drv)
        r['violations'] += v
        r['disagreements'] += d
        r['observed'].update(obs)
        f.append('patterns')
    if case['kind'] == 'portfolio':
        v, obs = oracle_portfolio(case, info, shared=shared)
        r['violations'] += v
        r['observed'].update(obs)
        f.append('solved' if obs.get('solved') else 'unsolved')
    return r


def selftest(n, seed, drv, verbose=False, kinds=('build', 'build', 'build', 'pattern', 'portfolio'), tmax=10, pattern_tmax=7):
    rnd = random.Random(seed)
    tot = {'cases': 0, 'disagreements': [], 'violations': [], 'features': {}, 'errors': [], 'patterns': 0, 'violation_kinds': {}}
    for i in range(n):
        kind = kinds[i % len(kinds)]
        case = gen_case(random.Random(rnd.getrandbits(48)), kind=kind, tmax=(pattern_tmax if kind == 'pattern' else tmax))
        try:
            r = run_case(case, drv, pattern_tmax=pattern_tmax)
        except Exception as e:
            import traceback
            tot['errors'].append((i, '%s: %s' % (type(e).__name__, e), traceback.format_exc()[-1200:]))
            if verbose:
                print('ERR', i, e)
            continue
        tot['cases'] += 1
        tot['patterns'] += r['observed'].get('patterns', 0)
        for x in r['features']:
            tot['features'][x] = tot['features'].get(x, 0) + 1
        for d in r['disagreements']:
            tot['disagreements'].append((i, d))
            if verbose:
                print('DIS', i, d)
        for v in r['violations']:
            tot['violations'].append((i, v))
            k = v['oracle'] + ':' + str(v['facts'].get('kind'))
            tot['violation_kinds'][k] = tot['violation_kinds'].get(k, 0) + 1
            if verbose:
                print('VIOL', i, v['oracle'], v['detail'])
    return tot



# ------------------------------------------------------------------------------------------- registry (for harness/props/c06.py, c08.py)
_P6, _P8 = 'EAO.Properties.C06', 'EAO.Properties.C08CHP'
THEOREMS = [
    (_P6, 'EAO.C06.commit_rows_iff_spec', 'for all T, min runtime R, min downtime D (in steps) and initial states: an on/off pattern extends to a 0/1 start assignment satisfying the GENERATED start-definition, min-runtime and min-downtime rows and initial-state bounds iff it satisfies the run-length specification MinUpDown (profile-free case)'),
    (_P6, 'EAO.C06.commit_rows_iff_spec_bool', 'the same in Boolean form'),
    (_P6, 'EAO.C06.spec_iff_automaton', 'MinUpDown holds iff the unit-commitment automaton (state = on?, time in state) accepts, under the constructor guard evaluated in steps'),
    (_P6, 'EAO.C06.commit_rows_iff_automaton', 'the two combined: admissible patterns = accepted patterns, unbounded in T'),
    (_P6, 'EAO.C06.commitWF_of_ok', 'the well-formedness hypothesis follows from a decidable check the driver evaluates on every request'),
    (_P6, 'EAO.C06.capacity_on_off', 'off => virtual dispatch (power + k*heat) = 0; on => between min and max capacity'),
    (_P6, 'EAO.C06.capacity_without_on', 'without on-variables: between min and max capacity'),
    (_P6, 'EAO.C06.ramp_steps', 'the ramp rows for t >= 1 in terms of the true virtual dispatch of steps t-1 and t'),
    (_P6, 'EAO.C06.ramp_steps_on', '|v_t - v_{t-1}| <= ramp when on at both steps (or without on-variables)'),
    (_P6, 'EAO.C06.ramp_steps_shutdown', 'a shutdown needs v_{t-1} <= ramp'),
    (_P6, 'EAO.C06.ramp_first_step', 'first step relative to the last dispatch, as the code has it'),
    (_P6, 'EAO.C06.ramp_first_step_running', 'already running and on: |v_0 - last_dispatch| <= ramp'),
    (_P6, 'EAO.C06.first_step_up_ramp_enforced_on_old_witness', 'the witness of the repaired defect F-06a is now rejected'),
    (_P6, 'EAO.C06.start_flag', 'every feasible point has start_{t+1} >= on_{t+1} - on_t'),
    (_P6, 'EAO.C06.start_flag_first', 'start_0 = on_0 when the unit was off before'),
    (_P6, 'EAO.C06.spurious_start_feasible', 'machine-checked witness of known finding F-06b: a start may be flagged without an off-to-on transition'),
    (_P6, 'EAO.C06.heat_share', 'heat <= share * power'),
    (_P6, 'EAO.C06.fuel_rows', 'fuel-node dispatch = -(power + k*heat)/efficiency - consumption_if_on*on - start_fuel*start'),
    (_P6, 'EAO.C06.fuel_rows_of_ok', 'the same from the decidable check evaluated per request'),
    (_P6, 'EAO.C06.buildCHP_ok', 'whatever buildCHP returns is the base problem or the assembled CHP problem of the resolved inputs'),
    # CHPAsset_with_min_load_costs
    (_P6, 'EAO.C06.min_load_rows', 'min-load costs: every feasible point satisfies per step thr*(on - b) <= power (thr*(1 - b) <= power without on-variables), variables identified through the mapping as the code does'),
    (_P6, 'EAO.C06.min_load_flag_forced', 'on and power below the threshold => the 0/1 boolean is 1, i.e. min_load_costs*dt is charged'),
    (_P6, 'EAO.C06.min_load_flag_free', 'the boolean may be 0 when off or at/above the threshold'),
    (_P6, 'EAO.C06.min_load_flag_not_exact', 'NOT enforced: the boolean may be 1 although off / above the threshold (costs money only)'),
    (_P6, 'EAO.C06.min_load_nothing_added', 'empty window, min_load_costs None (default) or threshold None: the parent problem unchanged'),
    (_P6, 'EAO.C06.min_load_shape', 'otherwise one [0,1] boolean per step of the own grid with cost min_load_costs*dt appended'),
    # start / shutdown ramp profiles
    (_P6, 'EAO.C06.start_profile_bounds', 'with profiles: in the k-th step after a start the virtual dispatch lies within the k-th start-profile bounds, whatever min_cap / max_cap are (precedence)'),
    (_P6, 'EAO.C06.shutdown_profile_bounds', 'k+1 steps before a shutdown: within the k-th shutdown-profile bounds'),
    (_P6, 'EAO.C06.capacity_outside_ramps', 'outside the ramps capacity as in the profile-free case'),
    (_P6, 'EAO.C06.init_ramp_bounds', 'a unit in its start ramp at the beginning (0 < tar < S) follows the profile from position tar'),
    (_P6, 'EAO.C06.start_shut_flag', 'with shutdown variables: on_{t+1} - on_t = start_{t+1} - shut_{t+1} (equality)'),
    (_P6, 'EAO.C06.start_exact', 'with shutdown variables a start is flagged exactly at off-to-on transitions (every step t+1 < T, the last one included since the repair e7aae05)'),
    (_P6, 'EAO.C06.shutdown_exact', 'and a shutdown exactly at on-to-off transitions'),
    (_P6, 'EAO.C06.flags_exclusive', 'start and shutdown flag exclude each other at every step, the last one included'),
    (_P6, 'EAO.C06.last_step_witness_now_rejected', 'the former witness (start and shutdown both flagged at the last step while the unit stays on; repaired in /repo, e7aae05) is infeasible for the repaired rows, the point with exact flags is feasible'),
    (_P6, 'EAO.C06.ramp_steps_outside_ramps', 'ramp rows outside the start / shutdown ramps read as in the profile-free case'),
    (_P6, 'EAO.C06.profile_precedence_witness', 'kernel-evaluated instance: dispatch below min_cap during the start ramp is feasible, above the profile bound is not'),
]
THEOREMS_C08 = [
    (_P8, 'EAO.C08CHP.chp_vars_only_in_window', 'every mapping row of the built CHP / Plant problem (dispatch, fuel, on, start) sits at a step of the restricted grid'),
    (_P8, 'EAO.C08CHP.chp_no_dispatch_outside_window', 'hence zero read-out at steps outside the window, whatever the solution'),
    (_P8, 'EAO.C08CHP.chp_empty_window', 'empty window: the parent problem unchanged'),
    (_P8, 'EAO.C08CHP.chp_mapping_asset', 'all mapping rows carry the asset name'),
    (_P8, 'EAO.C08CHP.minload_vars_only_in_window', 'the same for the min-load-cost builder (threshold booleans)'),
    (_P8, 'EAO.C08CHP.minload_no_dispatch_outside_window', 'zero read-out outside the window'),
    (_P8, 'EAO.C08CHP.minload_empty_window', 'empty window: nothing added'),
    (_P8, 'EAO.C08CHP.chp_profiles_vars_only_in_window', 'the same for the builder with ramp profiles (shutdown variables in addition)'),
    (_P8, 'EAO.C08CHP.chp_profiles_no_dispatch_outside_window', 'zero read-out outside the window'),
    (_P8, 'EAO.C08CHP.chp_profiles_empty_window', 'empty window: the parent problem unchanged'),
    (_P8, 'EAO.C08CHP.chp_any_vars_only_in_window', 'the dispatching builder (with or without profiles)'),
    (_P8, 'EAO.C08CHP.chp_any_empty_window', 'empty window for the dispatching builder'),
    (_P8, 'EAO.C08CHP.chp_on_contract_vars_only_in_window', 'chain Contract -> CHP on a well-formed restricted grid'),
    (_P8, 'EAO.C08CHP.chp_on_contract_empty_window', 'chain Contract -> CHP, empty window: no variable, row or mapping row'),
    (_P8, 'EAO.C08CHP.minload_chp_on_contract_vars_only_in_window', 'chain Contract -> CHP -> min-load'),
    (_P8, 'EAO.C08CHP.minload_chp_on_contract_empty_window', 'chain Contract -> CHP -> min-load, empty window'),
]
PARTIAL = ['with start/shutdown ramp profiles the on/off-pattern theorem (commit_rows_iff_spec for the rows WITH shutdown variables and the minimum runtime increased by the ramp times), the reading of the HEAT profile rows, the relaxed ramp rows with several flags at once and properties of _convert_ramp (interpolation / averaging) are modelled and covered by the exact row correspondence but have no theorem; '
           'the precedence of a start ramp profile over the general ramp holds in the generated rows (and in the model, which follows them) only for the steps t >= 1 of a start INSIDE the horizon: the first-step row relative to the last dispatch is never relaxed (known finding F-06i) and the rows of a start ramp begun before the horizon are not relaxed either (known finding F-06h: the relaxing branch is unreachable); the statement-level probe chp.profile_ramp reproduces both on the real code; '
           'the statement "start flagged exactly at off-to-on transitions" holds without shutdown variables only as start >= transition (known finding F-06b: spurious starts are feasible), with shutdown variables exactly at every step (EAO.C06P.flag_rows_iff; the last-step exception was repaired in /repo, e7aae05)']
MODELLED = ['CHPAsset / Plant with and without start/shutdown ramp profiles incl. heat variants and _convert_ramp; CHPAsset_with_min_load_costs; costs_only of all three; empty windows']


# ------------------------------------------------------------------------------------------- C12: change of the main time unit
UNIT_S = {'s': 1, 'min': 60, 'h': 3600, 'd': 86400}
RATE_ARGS = ('min_cap', 'max_cap', 'ramp', 'last_dispatch', 'running_costs', 'consumption_if_on', 'min_load_threshhold',
             'min_load_costs', 'start_ramp_lower_bounds', 'start_ramp_upper_bounds', 'shutdown_ramp_lower_bounds',
             'shutdown_ramp_upper_bounds', 'start_ramp_lower_bounds_heat', 'start_ramp_upper_bounds_heat',
             'shutdown_ramp_lower_bounds_heat', 'shutdown_ramp_upper_bounds_heat')
DURATION_ARGS = ('min_runtime', 'min_downtime', 'time_already_running', 'time_already_off')


def unit_change_case(case, new_unit):
    """the same asset re-expressed for the main time unit `new_unit`: every rate per time (whatever the code multiplies by
    dt, dt[0] or step/unit: capacities, ramp, last dispatch, running costs, consumption if on, profile bounds, minimum-load
    threshold and costs) divided by kappa = old unit / new unit, every duration in main time units multiplied by kappa;
    all parameter forms (scalar, interval dict, numpy array, list, price key: the price array is rescaled under the same
    key); per-volume quantities (prices, extra costs, take volumes, start costs, start fuel, efficiencies) untouched.
    A `ramp_freq` of None means "the main time unit": it is made explicit (the OLD unit) in the rescaled case."""
    old = case['grid']['unit']
    kappa = Fraction(UNIT_S[old], UNIT_S[new_unit])
    c2 = copy.deepcopy(case)
    c2['grid']['unit'] = new_unit
    c2['unit_s'] = UNIT_S[new_unit]
    a, a2 = case['args'], c2['args']
    used_keys = {}

    def div(v):
        return float(Fraction(float(v)) / kappa)

    def rate(v, name):
        if v is None:
            return None
        if isinstance(v, bool):
            return v
        if isinstance(v, (int, float)):
            return div(v)
        if isinstance(v, str):
            used_keys.setdefault(v, []).append(name)
            return v
        if isinstance(v, (list, tuple)):
            return [div(x) for x in v]
        if isinstance(v, dict) and '$arr' in v:
            return {'$arr': [div(x) for x in v['$arr']]}
        if isinstance(v, dict) and 'values' in v:
            vals = v['values']
            return dict(v, values=[div(x) for x in vals] if isinstance(vals, list) else div(vals))
        raise TypeError('unit_change_case: unsupported form of %s: %r' % (name, type(v)))
    for k in RATE_ARGS:
        if k in a:
            a2[k] = rate(a[k], k)
    for k in DURATION_ARGS:
        if k in a:
            a2[k] = float(Fraction(float(a[k])) * kappa)
    for key, names in used_keys.items():
        # a price key used for a rate: the series is the rate, rescale it (keys of the generator are per parameter; a key
        # shared with a per-volume use cannot be rescaled consistently)
        others = [n for n in ('price', 'extra_costs', 'start_costs', 'start_fuel', 'fuel_efficiency', 'conversion_factor_power_heat',
                              'max_share_heat') if a.get(n) == key]
        if others:
            raise ValueError('unit_change_case: key %r is used for a rate and for %s' % (key, others))
        if key in case['prices']:          # (a key missing in the price data is a malformed case: left alone)
            c2['prices'][key] = [div(x) for x in case['prices'][key]]
    if any(k.startswith(('start_ramp', 'shutdown_ramp')) for k in a) and a.get('ramp_freq') is None:
        a2['ramp_freq'] = old
    c2['exact'] = False
    c2['unit_change'] = {'from': old, 'to': new_unit, 'kappa': [kappa.numerator, kappa.denominator]}
    return c2


def guard_stable(case, new_unit):
    """the constructor guard on (time_already_running, time_already_off) is evaluated on the raw values, only when the raw
    min_downtime > 1 (known finding F-06d): not invariant under a change of the unit unless it holds anyway or is skipped in
    both units (`EAO.CHPUnit.GuardStable`)"""
    a = case['args']
    kappa = Fraction(UNIT_S[case['grid']['unit']], UNIT_S[new_unit])
    md = Fraction(float(a.get('min_downtime', 0)))
    xor = (a.get('time_already_off', 0) == 0) != (a.get('time_already_running', 0) == 0)
    return xor or (md <= 1 and md * kappa <= 1)


def real_problem(case):
    """constructor + setup_optim_problem of the REAL code: {'problem': json} | {'error': class, 'stage'}"""
    prices = np_prices(case)
    with Quiet():
        try:
            asset = build_asset(case)
        except Exception as e:
            return {'error': err_class(e), 'stage': 'ctor'}
        try:
            tg = scen.make_grid(case['grid'])
            op = asset.setup_optim_problem(prices, tg)
            return {'problem': problem_json(op, name=case['name'], nodes=case['nodes'])}
        except Exception as e:
            return {'error': err_class(e), 'stage': 'setup'}


def oracle_unit_change(case, new_unit=None):
    """C12 for CHP / Plant / min-load on the REAL code: the problem built for the rescaled case must be the same problem
    (c, l, u, rows, mapping; exact where the rescaled numbers are representable, else 1e-9 relative), and the same error
    class otherwise.  Returns (violations, observed)."""
    new_unit = new_unit or (case.get('unit_change') or {}).get('to')
    c2 = unit_change_case(case, new_unit)
    r1, r2 = real_problem(case), real_problem(c2)
    facts = dict(cls=case['cls'], unit_from=case['grid']['unit'], unit_to=new_unit, freq=case['grid']['freq'],
                 profiles=case.get('profiles'), guard_stable=guard_stable(case, new_unit))
    obs = {'unit_pair': '%s->%s' % (case['grid']['unit'], new_unit)}
    if 'error' in r1 or 'error' in r2:
        e1, e2 = r1.get('error'), r2.get('error')
        obs['errors'] = [e1, e2]
        if e1 != e2:
            kind = 'unit_change_guard' if not facts['guard_stable'] and 'assert' in (e1, e2) and 'ctor' in (r1.get('stage'), r2.get('stage')) else 'unit_change_error'
            return [V('chp.unit_change', 'main time unit %s: %s; re-expressed for %s: %s' % (
                case['grid']['unit'], 'error %s (%s)' % (e1, r1.get('stage')) if e1 else 'problem built', new_unit,
                'error %s (%s)' % (e2, r2.get('stage')) if e2 else 'problem built'), kind=kind, **facts)], obs
        return [], obs
    p1, p2 = r1['problem'], r2['problem']
    d = cmp_problem('unit_change', p2, p1, 0, aspects=('c', 'l', 'u', 'rows', 'mapping'))
    if not d:
        obs['equal'] = 'exact'
        return [], obs

    def clean(rows):
        return [dict(r, coeffs=[[j, v] for j, v in r['coeffs'] if abs(Fraction(v)) > Fraction(1, 10 ** 12)]) for r in rows]
    d = cmp_problem('unit_change', dict(p2, rows=clean(p2['rows'])), dict(p1, rows=clean(p1['rows'])), 1e-9, aspects=('c', 'l', 'u', 'rows', 'mapping'))
    if not d:
        obs['equal'] = 'tolerant'
        return [], obs
    obs['equal'] = 'no'
    return [V('chp.unit_change', 'problem for main time unit %s (as "model") vs the original in %s (as "impl"): %s' % (new_unit, case['grid']['unit'], d[0]),
              kind='unit_change_problem', n_differences=len(d), **facts)], obs


UNIT_PAIRS = [('h', 'min'), ('min', 'h'), ('h', 'd'), ('d', 'h'), ('min', 's'), ('s', 'min')]
UNIT_GRIDS = {'h': [('h', 3600), ('15min', 900), ('30min', 1800), ('2h', 7200)], 'min': [('15min', 900), ('h', 3600), ('5min', 300)],
              'd': [('d', 86400), ('h', 3600), ('6h', 21600)], 's': [('15min', 900), ('min', 60)]}


def gen_unit_change_case(rnd, tmax=8):
    """a build-kind case (CHPAsset / Plant / CHPAsset_with_min_load_costs, with and without ramp profiles, every parameter
    form) in a main time unit chosen from the unit pairs h<->min, h<->d, min<->s, carrying `unit_change: {to}`; the
    generated numbers are per main time unit, so the case is first drawn for a grid of that unit"""
    u_from, u_to = rnd.choice(UNIT_PAIRS)
    freq, step_s = rnd.choice(UNIT_GRIDS[u_from])
    for _ in range(50):
        case = gen_case(rnd, kind='build', tmax=tmax)
        a = case['args']
        # re-seat the generated case on the wanted grid / unit: the generator's numbers are plain multiples of 1/8 and do
        # not depend on the unit; only the grid (points, window dates) must be consistent, so regenerate until the grid fits
        if case['grid']['freq'] == freq and case['grid']['unit'] == u_from:
            break
    else:
        # draw with a forced grid
        global GRIDS
        saved = GRIDS
        try:
            GRIDS = [(freq, u_from, step_s, UNIT_S[u_from])]
            case = gen_case(rnd, kind='build', tmax=tmax)
        finally:
            GRIDS = saved
    a = case['args']
    if 'freq' in a:
        a.pop('freq')           # the asset's own freq is not the subject here
    if not guard_stable(case, u_to) and rnd.random() < 0.85:
        # keep most cases clear of known finding F-06d (guard on raw values): declare exactly one history
        if rnd.random() < 0.5:
            a['time_already_running'] = a.get('time_already_running') or 0.5
            a.pop('time_already_off', None)
        else:
            a['time_already_off'] = a.get('time_already_off') or 0.5
            a.pop('time_already_running', None)
    case['unit_change'] = {'to': u_to}
    case['kind'] = 'build'
    return case


THEOREMS_C12_CHP = [
    ('EAO.Properties.C12CHP', 'EAO.C12.unit_change_chp', "CHP / Plant: grid with every dt multiplied by k > 0, rates per time (ramp, last dispatch, running costs, consumption if on, raw min_cap) divided by k, durations (min runtime / downtime, time already running / off) multiplied by k, unit length u' k = u: buildCHP returns the SAME problem (same error otherwise); hypotheses: running costs and consumption-if-on not given as price keys, and the raw-value constructor guard stable (known finding F-06d)"),
    ('EAO.Properties.C12CHP', 'EAO.C12.unit_change_chp_steps', 'the step counts ceil(duration * unit / step) of a duration multiplied by k under the unit divided by k are equal (the rational under the ceiling is the same)'),
    ('EAO.Properties.C12CHP', 'EAO.C12.unit_change_chp_costs_only', 'the same for the costs_only cost vector'),
    ('EAO.Properties.C12CHP', 'EAO.C12.unit_change_chp_profiles', 'the same with start / shutdown ramp profiles (bounds divided by k, ramp_freq kept; heat profiles only together with the power profile of the same ramp)'),
    ('EAO.Properties.C12CHP', 'EAO.C12.unit_change_chp_any', 'the dispatching builder (with or without profiles)'),
    ('EAO.Properties.C12CHP', 'EAO.C12.unit_change_profile_bounds', '_convert_ramp (identity / interpolation / averaging) is linear: converted bounds times step/unit are the same after rescaling'),
    ('EAO.Properties.C12CHP', 'EAO.C12.unit_change_min_load', 'the minimum-load-cost extension (threshold and costs divided by k, not price keys)'),
    ('EAO.Properties.C12CHP', 'EAO.C12.unit_change_min_load_costs_only', 'its costs_only vector'),
    ('EAO.Properties.C12CHP', 'EAO.C12.unit_change_chp_chain', 'the whole chain Contract -> CHP (with or without profiles) -> min-load returns the same problem (capacities not price keys, as in unit_change for contracts)'),
    ('EAO.Properties.C12CHP', 'EAO.C12.guard_not_unit_invariant', 'machine-checked instance of the C12 consequence of known finding F-06d: min_downtime 0.5 h without declared history builds, re-expressed as 30 min the constructor asserts'),
]


class ScratchDriver:
    """driver behind an arbitrary command (development: `lake env lean --run /tmp/.../Main.lean`)"""

    def __init__(self, cmd, cwd=None):
        import subprocess
        self.p = subprocess.Popen(cmd, cwd=cwd, stdin=subprocess.PIPE, stdout=subprocess.PIPE, text=True, bufsize=1)

    def ask(self, req):
        import json
        self.p.stdin.write(json.dumps(req) + '\n')
        self.p.stdin.flush()
        line = self.p.stdout.readline()
        if not line:
            raise RuntimeError('driver died')
        return json.loads(line)

    def close(self):
        try:
            self.p.stdin.close()
            self.p.wait(timeout=5)
        except Exception:
            self.p.kill()
