"""C11 — stream `dates`: DATE CONTAINERS of every kind inside interval data, order books and asset windows.

The dates of interval data (`min_take` / `max_take`, capacity and cost dictionaries, the orders of an order book) reach
eaopack in many containers: lists of (zone-aware) Timestamps or datetimes, numpy OBJECT arrays of them (what
`DatetimeIndex.to_numpy()` gives for a zone-aware index, numpy has no zone-aware date type), numpy datetime64 arrays, a
DatetimeIndex without or WITH a frequency (`pd.date_range(..., freq='D', tz=...)`: calendar days, weeks, months — not
equidistant as instants when the range spans a daylight-saving switch).  Every container has its own branch in the
serialiser.  This module generates

  * grids in zones that are mostly NOT UTC, placed around a daylight-saving switch or anywhere in the year (`gen_grid`),
  * calendar-regular interval data as date ranges with a frequency (`cal_range`, `cal_take`, `cal_cover`), and
  * a rewriting of any generated scenario (lists of naive local `$dt` dates, as harness.gen writes them) into a container
    kind drawn per dictionary — zone of the dates: the grid's zone or another one (same instants) — (`apply_containers`).

Encoded (plain JSON) forms, decoded by `dec_containers` right before the objects are built:
  {'$dc': kind, 'utc': [iso ...], 'tz': zone}     zone-aware dates given by their instants
  {'$dc': kind, 'loc': [iso ...]}                 dates without zone
  {'$dc': 'range', 'start': iso (local), 'tz': zone | None, 'periods': n, 'freq': f, 'lo': a, 'hi': b, 'as': kind}
kinds: ts / dt (one Timestamp / datetime), list_ts, list_dt, objarr_ts, objarr_dt (numpy object arrays), idx (DatetimeIndex
without frequency), dt64 (numpy datetime64[ns], dates without zone only); for ranges `as`: index (frequency kept), idx,
objarr_ts, objarr_dt, list_ts.

This module does not import harness.comp.serial (which imports it).
"""
import random

import numpy as np
import pandas as pd

from .. import gen, scen

# zones: mostly with an offset to UTC, most with daylight saving time (northern and southern hemisphere)
ZONES = ['CET', 'CET', 'Europe/Berlin', 'US/Eastern', 'US/Pacific', 'Europe/London', 'Australia/Sydney', 'Asia/Kolkata',
         'Asia/Tokyo', 'UTC']
# (freq, main time unit, step in seconds, (min days, max days) of the horizon)
STEPS = [('h', 'h', 3600, (1, 3)), ('h', 'd', 3600, (1, 2)), ('30min', 'h', 1800, (1, 2)), ('2h', 'h', 7200, (2, 4)),
         ('4h', 'h', 14400, (2, 6)), ('6h', 'd', 21600, (2, 6)), ('d', 'd', 86400, (3, 16)), ('d', 'h', 86400, (3, 12))]
AWARE_KINDS = ['list_ts', 'list_dt', 'objarr_ts', 'objarr_ts', 'objarr_dt', 'idx']
NAIVE_KINDS = ['list_ts', 'objarr_ts', 'objarr_dt', 'idx', 'dt64']
RANGE_AS = ['index', 'index', 'index', 'objarr_ts', 'objarr_ts', 'objarr_dt', 'idx', 'list_ts']
CAL_FREQS = ['D', 'D', 'D', 'W', 'MS', '2D', '12h']

_TRANS = {}


def transitions(zone, year):
    """[(kind, local date of the switch)] of a zone in a year"""
    key = (zone, year)
    if key not in _TRANS:
        idx = pd.date_range('%d-01-01' % year, '%d-01-01' % (year + 1), freq='30min', tz='UTC')
        loc = idx.tz_convert(zone).tz_localize(None)
        off = loc - idx.tz_localize(None)
        _TRANS[key] = [('fall' if off[i] < off[i - 1] else 'spring', loc[i].normalize())
                       for i in range(1, len(idx)) if off[i] != off[i - 1]]
    return _TRANS[key]


def gen_grid(rnd):
    """a grid spec in the plain form of harness.scen (naive local start / end + zone) that starts at a local midnight:
    a few days around a daylight-saving switch of its zone, or anywhere in the year; None if pandas / eaopack refuse it"""
    zone = rnd.choice(ZONES)
    year = rnd.choice([2021, 2022])
    freq, unit, step_s, (dmin, dmax) = rnd.choice(STEPS)
    days = rnd.randint(dmin, dmax)
    tr = transitions(zone, year)
    season = rnd.choice(['spring', 'fall', 'spring', 'fall', 'any']) if tr else 'any'
    if season == 'any':
        d0 = pd.Timestamp('%d-01-02' % year) + pd.Timedelta(days=rnd.randrange(0, 360))
        if rnd.random() < 0.3:          # across the turn of a month
            d0 = (d0 + pd.offsets.MonthBegin(1)).normalize() - pd.Timedelta(days=rnd.randint(1, max(1, days - 1)))
    else:
        sw = rnd.choice([d for k, d in tr if k == season])
        d0 = sw - pd.Timedelta(days=rnd.randint(0, days - 1))       # the day of the switch lies in the horizon
    start = d0 + (pd.Timedelta(hours=rnd.choice([6, 12])) if (rnd.random() < 0.15 and step_s <= 21600) else pd.Timedelta(0))
    end = d0 + pd.Timedelta(days=days)
    g = {'start': gen.iso(start), 'end': gen.iso(end), 'freq': freq, 'unit': unit, 'tz': zone, 'step_s': step_s,
         'season': season}
    try:
        gen.fix_grid(g)
        tg = scen.make_grid(g)
        if tg.T < 2 or tg.T != len(g['_pts']) - 1 or tg.T > 100:
            return None
    except Exception:
        return None
    return g


# ------------------------------------------------------------------ encoding
def _utc(loc, zone):
    """naive local time of a zone -> naive UTC iso (raises for a local time that does not exist / exists twice)"""
    return gen.iso(pd.Timestamp(loc).tz_localize(zone).tz_convert('UTC').tz_localize(None))


def contain(locs, grid_zone, kind, date_zone=None):
    """the encoded container of kind `kind` for naive local times of the grid's zone; zone-aware in `date_zone` if given"""
    if date_zone is None:
        return {'$dc': kind, 'loc': [gen.iso(x) for x in locs]}
    return {'$dc': kind, 'utc': [_utc(x, grid_zone) for x in locs], 'tz': date_zone}


def _objarr(xs):
    a = np.empty(len(xs), dtype=object)
    for i, x in enumerate(xs):
        a[i] = x
    return a


def _as_kind(ts, kind):
    if kind == 'ts':
        return ts[0]
    if kind == 'dt':
        return ts[0].to_pydatetime()
    if kind == 'list_ts':
        return list(ts)
    if kind == 'list_dt':
        return [t.to_pydatetime() for t in ts]
    if kind == 'objarr_ts':
        return _objarr(list(ts))
    if kind == 'objarr_dt':
        return _objarr([t.to_pydatetime() for t in ts])
    if kind == 'idx':
        return pd.DatetimeIndex(list(ts))
    if kind == 'dt64':
        return np.asarray([np.datetime64(t, 'ns') for t in ts], dtype='datetime64[ns]')
    raise ValueError(kind)


def decode(v):
    if v['$dc'] == 'range':
        r = pd.date_range(start=pd.Timestamp(v['start']), periods=v['periods'], freq=v['freq'], tz=v.get('tz'))[v['lo']:v['hi']]
        return r if v['as'] == 'index' else _as_kind(list(r), v['as'])
    if 'utc' in v:
        ts = [pd.Timestamp(u, tz='UTC').tz_convert(v['tz']) for u in v['utc']]
    else:
        ts = [pd.Timestamp(u) for u in v['loc']]
    return _as_kind(ts, v['$dc'])


def dec_containers(v):
    """decode every `$dc` form inside a (nested) spec; everything else is left as it is (harness.scen decodes it)"""
    if isinstance(v, dict):
        if '$dc' in v:
            return decode(v)
        return {k: dec_containers(x) for k, x in v.items()}
    if isinstance(v, list):
        return [dec_containers(x) for x in v]
    return v


def has_containers(v):
    if isinstance(v, dict):
        return '$dc' in v or any(has_containers(x) for x in v.values())
    if isinstance(v, list):
        return any(has_containers(x) for x in v)
    return False


def container_kinds(v, out=None):
    """evidence features: which containers a spec holds ('<kind>:aware|naive[:freq]')"""
    out = set() if out is None else out
    if isinstance(v, dict):
        if '$dc' in v:
            if v['$dc'] == 'range':
                out.add('range-%s:%s:%s' % (v['as'], 'aware' if v.get('tz') else 'naive', v['freq']))
            else:
                out.add('%s:%s' % (v['$dc'], 'aware' if 'utc' in v else 'naive'))
        else:
            for x in v.values():
                container_kinds(x, out)
    elif isinstance(v, list):
        for x in v:
            container_kinds(x, out)
    return out


# ------------------------------------------------------------------ rewriting generated scenarios
def _is_dt_list(x):
    return isinstance(x, list) and len(x) > 0 and all(isinstance(y, dict) and '$dt' in y for y in x)


def _other_zone(rnd, zone):
    return rnd.choice([z for z in ZONES + ['UTC', 'UTC'] if z != zone])


def apply_containers(scn, rnd, p_other_zone=0.15, p_naive=0.15):
    """rewrite (in place) the date lists of every interval-data dictionary / order book of a scenario into a container
    kind drawn per dictionary, and the windows (`start` / `end` of assets) into zone-aware or naive single time stamps.
    The dates written by harness.gen are naive local times of the grid's zone; zone-aware containers hold the same
    instants, in the grid's zone or (p_other_zone) in another zone."""
    zone = scn['grid'].get('tz')

    def draw():
        if zone is None or rnd.random() < p_naive:
            return rnd.choice(NAIVE_KINDS), None
        return rnd.choice(AWARE_KINDS), (_other_zone(rnd, zone) if rnd.random() < p_other_zone else zone)

    def conv(k, v):
        if isinstance(v, dict) and '$dt' in v and k in ('start', 'end'):
            if zone is None or rnd.random() < 0.3:
                return v if rnd.random() < 0.5 else contain([v['$dt']], zone, rnd.choice(['ts', 'dt']))
            try:
                return contain([v['$dt']], zone, rnd.choice(['ts', 'dt']), zone if rnd.random() > p_other_zone else _other_zone(rnd, zone))
            except Exception:
                return v
        if isinstance(v, dict) and _is_dt_list(v.get('start')) and (('end' not in v) or _is_dt_list(v['end'])):
            kind, dz = draw()
            v = dict(v)
            try:
                new = {'start': contain([x['$dt'] for x in v['start']], zone, kind, dz)}
                if 'end' in v:
                    k2 = kind
                    if rnd.random() < 0.25:       # start and end in different containers
                        k2 = rnd.choice(AWARE_KINDS if dz is not None else NAIVE_KINDS)
                    new['end'] = contain([x['$dt'] for x in v['end']], zone, k2, dz)
                v.update(new)
            except Exception:
                pass
            return v
        return v

    def walk(a):
        for k in list(a.get('args', {})):
            a['args'][k] = conv(k, a['args'][k])
        if 'base' in a:
            walk(a['base'])
        for b in a.get('inner', []):
            walk(b)
    for a in scn['assets']:
        walk(a)


# ------------------------------------------------------------------ calendar-regular interval data
def cal_range(rnd, g, freq=None, aware=True):
    """a date range with a calendar frequency whose points cover the horizon of the grid (first point at or before the
    start, last point at or after the end, sometimes one more on either side); returns the encoded range without
    `lo` / `hi` / `as`, or None"""
    s = pd.Timestamp(g['_pts'][0])
    e = pd.Timestamp(g['end'])
    f = freq or rnd.choice(CAL_FREQS)
    a0 = s.normalize()
    if f == 'W':
        a0 = a0 - pd.Timedelta(days=(a0.dayofweek + 1) % 7)         # the Sunday at or before the start
    elif f == 'MS':
        a0 = a0.replace(day=1)
    elif f == '2D' and rnd.random() < 0.5:
        a0 = a0 - pd.Timedelta(days=1)
    if rnd.random() < 0.25:
        a0 = pd.date_range(end=a0, periods=2, freq=f)[0]
    n = 2
    while n < 40 and pd.date_range(a0, periods=n, freq=f)[-1] < e:
        n += 1
    if n >= 40:
        return None
    if rnd.random() < 0.25:
        n += 1
    zone = g.get('tz') if aware else None
    try:
        pd.date_range(start=a0, periods=n, freq=f, tz=zone)
    except Exception:
        return None
    return {'$dc': 'range', 'start': gen.iso(a0), 'tz': zone, 'periods': n, 'freq': f}


def _pair(rng, rnd, lo=0, hi=None):
    """start / end containers of the intervals between consecutive points lo..hi of a range"""
    hi = rng['periods'] if hi is None else hi
    as1 = rnd.choice(RANGE_AS)
    as2 = as1 if rnd.random() < 0.8 else rnd.choice(RANGE_AS)
    return dict(rng, lo=lo, hi=hi - 1, **{'as': as1}), dict(rng, lo=lo + 1, hi=hi, **{'as': as2})


def cal_take(rnd, g, lo, hi, aware=True):
    """quantities per calendar period (day, week, month, ...): {'start', 'end', 'values'} or None"""
    rng = cal_range(rnd, g, aware=aware)
    if rng is None:
        return None
    n = rng['periods']
    a, b = 0, n
    if n > 3 and rnd.random() < 0.4:       # only some of the periods
        a = rnd.randint(0, n - 3)
        b = rnd.randint(a + 2, n)
    st, en = _pair(rng, rnd, a, b)
    return {'start': st, 'end': en, 'values': [gen.q8(rnd, lo, hi) for _ in range(b - a - 1)]}


def cal_cover(rnd, g, lo, hi, aware=True, with_end=None):
    """a capacity / cost per calendar period covering the horizon: {'start', ['end',] 'values'} or None"""
    rng = cal_range(rnd, g, aware=aware)
    if rng is None:
        return None
    n = rng['periods']
    with_end = (rnd.random() < 0.7) if with_end is None else with_end
    if with_end:
        st, en = _pair(rng, rnd)
        return {'start': st, 'end': en, 'values': [gen.q8(rnd, lo, hi) for _ in range(n - 1)]}
    # without `end`: every interval ends where the next one starts, the last one is extended by eaopack
    st = dict(rng, lo=0, hi=n - 1, **{'as': rnd.choice(RANGE_AS)})
    return {'start': st, 'values': [gen.q8(rnd, lo, hi) for _ in range(n - 1)]}


def cal_orders(rnd, g, aware=True):
    """orders per calendar period: the `orders` dictionary of an order book, or None"""
    rng = cal_range(rnd, g, aware=aware)
    if rng is None:
        return None
    st, en = _pair(rng, rnd)
    m = rng['periods'] - 1
    return {'start': st, 'end': en, 'capa': [rnd.choice([-1, 1]) * gen.q8(rnd, 0.25, 4) for _ in range(m)],
            'price': [gen.q8(rnd, -2, 15) for _ in range(m)]}


def portfolio(rnd, g):
    """a small portfolio on grid spec `g` in which (nearly) every asset carries interval data: takes, capacity / cost
    dictionaries, orders — calendar-regular (date ranges) and irregular (lists of `$dt`, to be rewritten by
    `apply_containers`) —, also inside a scaled and a structured asset"""
    T = len(g['_pts']) - 1
    prices = {}
    nodes = ['N1', 'N2'][:rnd.randint(1, 2)]
    extra_nodes = []
    assets = [{'type': 'SimpleContract', 'name': 'mkt%d' % (j + 1), 'nodes': [n],
               'args': {'min_cap': -40.0, 'max_cap': 40.0, 'price': gen.price_key(rnd, prices, T)}} for j, n in enumerate(nodes)]
    aware = g.get('tz') is not None

    def one(k, nm, n):
        if k == 'cal_contract':
            a = {'type': 'Contract', 'name': nm, 'nodes': [n], 'args': {'min_cap': -gen.q8(rnd, 1, 5), 'max_cap': gen.q8(rnd, 1, 5),
                                                                        'extra_costs': gen.q8(rnd, 0, 2)}}
            r = rnd.random()
            if r < 0.75:
                a['args']['min_take'] = cal_take(rnd, g, -30, -2, aware and rnd.random() < 0.9)
            if r > 0.4:
                a['args']['max_take'] = cal_take(rnd, g, 2, 30, aware and rnd.random() < 0.9)
            if rnd.random() < 0.3:
                a['args']['max_cap'] = cal_cover(rnd, g, 1, 5, aware and rnd.random() < 0.9)
            a['args'] = {k_: v for k_, v in a['args'].items() if v is not None}
            if rnd.random() < 0.5:
                a['args']['price'] = gen.price_key(rnd, prices, T)
            return a
        if k == 'cal_simple':
            cls = rnd.choice(['SimpleContract', 'SimpleContract', 'Contract'])
            a = {'type': cls, 'name': nm, 'nodes': [n], 'args': {'min_cap': -gen.q8(rnd, 0, 4), 'max_cap': gen.q8(rnd, 0.5, 5)}}
            which = rnd.sample(['min_cap', 'max_cap', 'extra_costs'], rnd.randint(1, 2))
            for p in which:
                lo, hi = {'min_cap': (-5, 0), 'max_cap': (0.5, 5), 'extra_costs': (0, 2)}[p]
                v = cal_cover(rnd, g, lo, hi, aware and rnd.random() < 0.9)
                if v is not None:
                    a['args'][p] = v
            if rnd.random() < 0.7:
                a['args']['price'] = gen.price_key(rnd, prices, T)
            return a
        if k == 'cal_transport' and len(nodes) == 2:
            a = {'type': 'Transport', 'name': nm, 'nodes': list(nodes), 'args': {'min_cap': 0.0, 'max_cap': gen.q8(rnd, 0.5, 5),
                                                                                  'efficiency': rnd.choice([1.0, 0.5])}}
            v = cal_cover(rnd, g, 0.5, 5, aware and rnd.random() < 0.9)
            if v is not None:
                a['args']['max_cap'] = v
            return a
        if k == 'cal_orders':
            o = cal_orders(rnd, g, aware and rnd.random() < 0.9)
            if o is not None:
                return {'type': 'OrderBook', 'name': nm, 'nodes': [n], 'args': {'orders': o}}
        if k == 'contract':
            a = gen.gen_contract(rnd, g, prices, T, nm, n)
            if 'min_take' not in a['args'] and 'max_take' not in a['args']:
                a['args']['max_take'] = gen.take_dict(rnd, g, 2, 30)
            return a
        if k == 'orderbook':
            return gen.gen_orderbook(rnd, g, prices, T, nm, n, allow_mip=rnd.random() < 0.3)
        a = gen.gen_simple_contract(rnd, g, prices, T, nm, n)
        if not any(isinstance(v, dict) for v in a['args'].values()):
            a['args']['extra_costs'] = gen.interval_dict(rnd, g, 0, 2, full_cover=False)
        return a

    kinds = ['cal_contract', 'cal_contract', 'cal_simple', 'cal_simple', 'cal_transport', 'cal_orders', 'contract', 'orderbook', 'simple']
    for _ in range(rnd.randint(1, 3)):
        nm = 'a%d' % (len(assets) + 1)
        n = rnd.choice(nodes)
        a = one(rnd.choice(kinds), nm, n)
        w = rnd.random()
        if w < 0.12 and a['type'] in ('SimpleContract', 'Contract'):
            a['name'] = nm + '_b'
            a = {'type': 'ScaledAsset', 'name': nm, 'base': a, 'args': {'max_scale': rnd.choice([1.0, 2.0]), 'fix_costs': gen.q8(rnd, 0, 1)}}
        elif w < 0.24 and a['type'] in ('SimpleContract', 'Contract', 'OrderBook'):
            inode = nm + '_i'
            a['nodes'] = [inode]
            a['name'] = nm + '_c'
            extra_nodes.append(inode)
            a = {'type': 'StructuredAsset', 'name': nm, 'nodes': [n], 'inner_nodes': [inode], 'args': {},
                 'inner': [{'type': 'Transport', 'name': nm + '_tr', 'nodes': [inode, n], 'args': {'min_cap': -6.0, 'max_cap': 6.0}}, a]}
        elif w < 0.4 and a['type'] in ('SimpleContract', 'Transport') and not any(k_ in a['args'] for k_ in ('min_take', 'max_take')):
            gen.put_window(a['args'], gen.window(rnd, g, kinds=['inside', 'start_only', 'end_only', 'straddle_end', 'straddle_start', 'covering']))
        assets.append(a)
    return {'grid': g, 'nodes': nodes + extra_nodes, 'prices': prices, 'assets': assets}
