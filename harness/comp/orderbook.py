"""Component `OrderBook` (property C20): builder correspondence, order rows of the special table,
and the C20 oracles on the real code.

A case is a plain JSON value:
  grid      : {start, end, freq, unit, tz}                       (scenario format of harness.scen)
  ob        : asset spec {type:'OrderBook', name, nodes:[node], args:{orders:{start,end,capa,price}, full_exec, wacc}}
  malformed : None | 'nan' | 'len'
  portfolio : None | {position, market:{...}, load:..., storage:..., prices:{key:[...]}}   companions for the oracles
  inert     : [[position, {start,end,capa,price}], ...]          orders without a step in the horizon, to be inserted
  frame     : bool                                               orders handed over as a pandas DataFrame
  form      : None | {capa, price, dates}                        how each column reaches the constructor (see NUM_FORMS_*);
                                                                 the capa / price lists of `ob` keep the exact values AND
                                                                 whether an entry is a whole number given as int or a float
  numkind   : [capa kind, price kind]                            'float' | 'int' | 'whole_float' | 'mixed' (generator's record)
"""
import copy
import math
import random
from fractions import Fraction

import numpy as np
import pandas as pd

import eaopack as eao
from .. import scen, impl, pf
from ..impl import Quiet, problem_json, err_class
from ..lean import fs
from .common import grid_json, instant
from . import obforms as FORMS

OP = 'orderbook'

# ------------------------------------------------------------------------------------------- generator
# (freq, unit, nominal step in seconds, calendar?)
GRIDS = [
    ('h', 'h', 3600), ('h', 'h', 3600), ('2h', 'h', 7200), ('4h', 'h', 14400), ('30min', 'h', 1800),
    ('15min', 'h', 900), ('h', 'd', 3600), ('h', 'min', 3600), ('d', 'd', 86400), ('d', 'h', 86400),
    ('6h', 'd', 21600), ('MS', 'd', 30 * 86400), ('MS', 'h', 30 * 86400),
]
# grids on which the (discounted) covered duration of an order is not a whole number of main time units although the
# numbers of the orders are: preferred when capacities and prices are integer-typed
GRIDS_FRAC = [('30min', 'h', 1800), ('15min', 'h', 900), ('15min', 'h', 900), ('h', 'd', 3600), ('6h', 'd', 21600),
              ('15min', 'd', 900), ('30min', 'min', 1800), ('h', 'min', 3600), ('d', 'h', 86400)]
ZONES = ['CET', 'Europe/Berlin', 'US/Eastern', 'UTC', 'Asia/Kolkata']


def q8(rnd, lo, hi):
    return rnd.randint(int(lo * 8), int(hi * 8)) / 8.0


def iso(ts):
    return pd.Timestamp(ts).strftime('%Y-%m-%dT%H:%M:%S')


def gen_grid(rnd, tmax=12, grids=None):
    freq, unit, step = rnd.choice(grids or GRIDS)
    T = rnd.randint(1, tmax) if rnd.random() < 0.9 else 1
    tz = rnd.choice(ZONES) if rnd.random() < 0.4 else None
    if freq == 'MS':
        T = min(T, 6)
        start = pd.Timestamp(rnd.choice(['2021-01-01', '2021-02-01', '2020-11-01']))
        end = start + pd.DateOffset(months=T)
    else:
        start = pd.Timestamp('2021-01-01') + rnd.choice([0, 0, 6, 24, 30]) * pd.Timedelta(hours=1)
        if tz is not None and rnd.random() < 0.6:
            # cross a daylight saving switch: equal absolute steps for tick frequencies, 23h/25h days for 'd'
            start = pd.Timestamp(rnd.choice(['2021-03-27 20:00', '2021-10-30 20:00', '2021-03-13 20:00', '2021-11-06 20:00']))
        if freq == 'd':
            start = start.normalize()
            end = start + pd.DateOffset(days=T)
        else:
            end = start + T * pd.Timedelta(seconds=step)
    if tz is not None:
        for _ in range(6):
            try:
                start.tz_localize(tz)
                end.tz_localize(tz)
                break
            except Exception:
                end = end + pd.Timedelta(seconds=step)
    return {'start': iso(start), 'end': iso(end), 'freq': freq, 'unit': unit, 'tz': tz, 'step_s': step}


def all_points(g):
    """every grid point including the closing one, as instants (seconds, UTC)"""
    pts = pd.date_range(pd.Timestamp(g['start'], tz=g['tz']), pd.Timestamp(g['end'], tz=g['tz']), freq=g['freq'])
    return [instant(p, g['tz']) for p in pts]


def render_date(rnd, sec, tz, force=None):
    """an instant as one of the forms the order columns accept; naive forms are local times of the grid's zone"""
    utc = pd.Timestamp(sec, unit='s', tz='UTC')
    if tz is None:
        loc = utc.tz_localize(None)
        form = rnd.choice(['dt', 'ts', 'str'])
    else:
        loc = utc.tz_convert(tz).tz_localize(None)
        form = force or rnd.choice(['dt', 'ts', 'str', 'aware', 'aware', 'aware_utc'])
        try:
            ok = instant(loc, tz) == sec
        except Exception:
            ok = False
        if not ok:      # ambiguous or non-existent local time: only an explicit UTC date names this instant
            form = 'aware_utc'
    if form == 'dt':
        return {'$dt': iso(loc)}
    if form == 'ts':
        return {'$ts': iso(loc)}
    if form == 'str':
        return iso(loc).replace('T', ' ')
    if form == 'aware':
        return {'$ts': iso(loc), 'tz': tz}
    return {'$ts': iso(utc.tz_localize(None)), 'tz': 'UTC'}


KINDS = ['inside', 'inside', 'inside', 'single', 'all', 'straddle_start', 'straddle_end', 'straddle_both',
         'outside_before', 'outside_after', 'touch_before', 'touch_after', 'last_step', 'offgrid', 'offgrid',
         'within_step', 'zero_length', 'reversed']
OUTSIDE_KINDS = ['outside_before', 'outside_after', 'touch_before', 'touch_after', 'zero_length', 'reversed', 'within_step_out']


def gen_window(rnd, pts, step, kind):
    """(start, end) instants of an order of the given kind relative to the grid points `pts` (incl. closing point)"""
    T = len(pts) - 1
    a = rnd.randint(0, max(0, T - 1))
    b = rnd.randint(a + 1, T)

    def frac(i):  # a point strictly inside step i (i < T)
        return pts[i] + (pts[i + 1] - pts[i]) * rnd.choice([1, 2, 3]) // 4
    if kind == 'inside':
        return pts[a], pts[b]
    if kind == 'single':
        return pts[a], pts[a + 1]
    if kind == 'all':
        return pts[0], pts[T]
    if kind == 'straddle_start':
        return pts[0] - rnd.randint(1, 5) * step, pts[b]
    if kind == 'straddle_end':
        return pts[a], pts[T] + rnd.randint(1, 5) * step
    if kind == 'straddle_both':
        return pts[0] - rnd.randint(1, 3) * step, pts[T] + rnd.randint(1, 3) * step
    if kind == 'outside_before':
        e = pts[0] - rnd.randint(1, 4) * step
        return e - rnd.randint(1, 4) * step, e
    if kind == 'outside_after':
        s = pts[T] + rnd.randint(0, 4) * step
        return s, s + rnd.randint(1, 4) * step
    if kind == 'touch_before':      # ends exactly at the first point: covers nothing
        return pts[0] - rnd.randint(1, 3) * step, pts[0]
    if kind == 'touch_after':       # starts exactly at the closing point / inside the last step: covers nothing
        s = pts[T] if rnd.random() < 0.5 else frac(T - 1)
        return s, pts[T] + rnd.randint(1, 3) * step
    if kind == 'last_step':         # starts exactly at the last point: covers the last step
        return pts[T - 1], pts[T] + rnd.randint(0, 2) * step
    if kind == 'offgrid':
        return frac(a), (frac(b) if b < T else pts[T] + step // 2)
    if kind in ('within_step', 'within_step_out'):     # strictly inside one step: covers nothing
        s = pts[a] + (pts[a + 1] - pts[a]) // 4
        return s, pts[a] + (pts[a + 1] - pts[a]) * 3 // 4
    if kind == 'zero_length':
        p = rnd.choice([pts[a], frac(a)])
        return p, p
    if kind == 'reversed':
        return pts[b], pts[a]
    raise ValueError(kind)


# ---- the numbers of the orders: values (`numkind`, per column) and the form in which a column reaches the constructor
# numkind: 'float' eighths as floats | 'int' whole numbers as Python ints | 'whole_float' whole numbers as floats |
#          'mixed' entry by entry one of the three
NUMKINDS = ['float', 'int', 'whole_float', 'mixed']
# dict of ...: list / tuple as they are; numpy array of the inferred dtype (all ints -> int64, else float64); list of numpy
# scalars (np.int64 / np.float64 entry by entry); numpy object array holding the Python numbers; pandas Series (inferred
# dtype); numpy float64 array
NUM_FORMS_DICT = ['list', 'list', 'tuple', 'array', 'array', 'np_scalars', 'object', 'series', 'float_array']
# DataFrame column of the inferred dtype (all ints -> int64, else float64), cast to float64, or of dtype object
NUM_FORMS_FRAME = ['infer', 'infer', 'infer', 'float64', 'object']
DATE_FORMS_DICT = ['list', 'list', 'list', 'tuple', 'object']


def gen_numkinds(rnd):
    """value kinds of (capa, price): all floats (the usual documentation form), all whole numbers given as ints (as they
    come from an exchange feed), or any combination"""
    r = rnd.random()
    if r < 0.4:
        return ['float', 'float']
    if r < 0.7:
        return ['int', 'int']
    return [rnd.choice(NUMKINDS), rnd.choice(NUMKINDS)]


def gen_form(rnd, frame):
    forms = NUM_FORMS_FRAME if frame else NUM_FORMS_DICT
    return {'capa': rnd.choice(forms), 'price': rnd.choice(forms), 'dates': 'list' if frame else rnd.choice(DATE_FORMS_DICT)}


def as_kind(rnd, kind, whole, eighths):
    """a number of the given kind: `whole` (an int) for the whole-number kinds, `eighths` (a float) otherwise"""
    if kind == 'mixed':
        kind = rnd.choice(['float', 'int', 'whole_float'])
    if kind == 'int':
        return int(whole)
    if kind == 'whole_float':
        return float(whole)
    return float(eighths)


def gen_order(rnd, g, pts, kinds=KINDS, generic=False, force=None, numkinds=('float', 'float')):
    kind = rnd.choice(kinds)
    s, e = gen_window(rnd, pts, g['step_s'], kind)
    sign = rnd.choice([-1, 1])
    capa = as_kind(rnd, numkinds[0], sign * rnd.randint(1, 5), sign * q8(rnd, 0.25, 4))
    if rnd.random() < 0.04:
        capa = as_kind(rnd, numkinds[0], 0, 0.0)
    price = as_kind(rnd, numkinds[1], rnd.randint(-2, 15), q8(rnd, -2, 15))
    if generic:
        price = round(price + rnd.uniform(-0.05, 0.05), 5)
    return {'start': render_date(rnd, s, g['tz'], force), 'end': render_date(rnd, e, g['tz'], force), 'capa': capa, 'price': price, 'kind': kind}


def gen_case(rnd, with_portfolio=None, frame_share=0.2):
    numkinds = gen_numkinds(rnd)
    # whole numbers given as ints: more often than otherwise on a grid whose steps are not whole main time units, and
    # with discounting (the cost of an order is capa x price x discounted covered duration: not a whole number there)
    whole = numkinds == ['int', 'int']
    g = gen_grid(rnd, grids=GRIDS_FRAC if whole and rnd.random() < 0.5 else None)
    pts = all_points(g)
    T = len(pts) - 1
    wacc = 0.0 if rnd.random() < (0.5 if whole else 0.6) else rnd.choice([0.05, 0.1, 0.5, 0.0725])
    if with_portfolio is None:
        with_portfolio = rnd.random() < 0.5
    n = rnd.randint(1, 6)
    if not with_portfolio and rnd.random() < 0.03:
        n = 0
    # generic (non-dyadic) order prices in part of the oracle cases make the optimum unique
    generic = with_portfolio and numkinds[1] == 'float' and rnd.random() < 0.5
    # orders handed over as a pandas DataFrame (the constructor takes `orders[col].values`); with every date of a
    # column zone-aware in ONE zone the column is datetime64[ns, tz] and `.values` drops the zone (finding F-20b)
    frame = n > 0 and rnd.random() < frame_share
    force = None
    if frame and tz_of(g) is not None and rnd.random() < 0.8:
        force = rnd.choice(['aware', 'aware_utc', 'aware_utc'])
    orders = [gen_order(rnd, g, pts, generic=generic, force=force, numkinds=numkinds) for _ in range(n)]
    cols = {k: [o[k] for o in orders] for k in ('start', 'end', 'capa', 'price')}
    case = {'grid': g, 'malformed': None, 'kinds': [o['kind'] for o in orders], 'portfolio': None, 'inert': [], 'frame': frame,
            'form': gen_form(rnd, frame), 'numkind': numkinds}
    args = {'orders': cols, 'wacc': wacc}
    if rnd.random() < 0.4:
        args['full_exec'] = True
    elif rnd.random() < 0.3:
        args['full_exec'] = False
    r = rnd.random()
    if not with_portfolio and n > 0 and not frame:
        if r < 0.04:
            case['malformed'] = 'nan'
            cols[rnd.choice(['capa', 'price'])][rnd.randrange(n)] = None     # None = NaN
        elif r < 0.07:
            case['malformed'] = 'len'
            k = rnd.choice(['start', 'end', 'capa', 'price'])
            if rnd.random() < 0.5:
                cols[k] = cols[k][:-1]
            else:
                cols[k] = cols[k] + [cols[k][-1]]
    name = rnd.choice(['ob', 'ob', 'orders', '1', 'book_1'])
    node = rnd.choice(['n1', 'n1', 'hub'])
    case['ob'] = {'type': 'OrderBook', 'name': name, 'nodes': [node], 'args': args}
    if with_portfolio:
        case['portfolio'] = gen_companions(rnd, g, T, node, wacc)
        k = rnd.randint(1, 3)
        ins = []
        for _ in range(k):
            o = gen_order(rnd, g, pts, kinds=OUTSIDE_KINDS, force=force)
            sign = rnd.choice([-1, 1])                               # attractive if it were (wrongly) live
            o['capa'] = as_kind(rnd, numkinds[0], sign * rnd.randint(1, 6), sign * q8(rnd, 1, 6))
            o['price'] = as_kind(rnd, numkinds[1], *rnd.choice([(-20, -20.0), (40, 40.0), (rnd.randint(-2, 15), q8(rnd, -2, 15))]))
            ins.append([rnd.randint(0, n), {kk: o[kk] for kk in ('start', 'end', 'capa', 'price')}])
        case['inert'] = ins
    return case


def gen_case_forms(rnd):
    """stream `forms`: a case of `gen_case` (more often a DataFrame, more often several orders) whose order list reaches
    the constructor in one of the container forms of comp/obforms.py"""
    case = None
    for _ in range(3):
        case = gen_case(random.Random(rnd.getrandbits(48)), with_portfolio=(rnd.random() < 0.6), frame_share=0.55)
        if len(case['ob']['args']['orders']['start']) >= 2 or rnd.random() < 0.3:
            break
    case['stream'] = 'forms'
    n = len(case['ob']['args']['orders']['start'])
    if case['malformed'] is None and n > 0:
        case['container'] = FORMS.gen_container(rnd, case['frame'])
    return case


def gen_companions(rnd, g, T, node, wacc):
    """market contract (always), fixed load and storage (sometimes) at the order book's node"""
    generic = rnd.random() < 0.7
    price = [round(rnd.uniform(-3, 25), 4) if generic else q8(rnd, -3, 25) for _ in range(T)]
    load = q8(rnd, 0.5, 3) if rnd.random() < 0.5 else None
    M = (load or 0.0) + q8(rnd, 0.25, 5)
    same_wacc = rnd.random() < 0.7
    p = {'position': rnd.randint(0, 3), 'prices': {'p': price},
         'market': {'type': 'SimpleContract', 'name': 'market', 'nodes': [node],
                    'args': {'price': 'p', 'min_cap': -M, 'max_cap': M, 'wacc': wacc if same_wacc else rnd.choice([0.0, 0.1, 0.03])}},
         'load': None, 'storage': None}
    if load is not None:
        p['load'] = {'type': 'SimpleContract', 'name': 'load', 'nodes': [node], 'args': {'min_cap': -load, 'max_cap': -load}}
    if rnd.random() < 0.4:
        size = q8(rnd, 1, 8)
        lvl = q8(rnd, 0, size) if rnd.random() < 0.4 else 0.0
        p['storage'] = {'type': 'Storage', 'name': 'store', 'nodes': [node],
                        'args': {'size': size, 'cap_in': q8(rnd, 0.25, 3), 'cap_out': q8(rnd, 0.25, 3),
                                 'start_level': lvl, 'end_level': lvl}}
    return p


# ------------------------------------------------------------------------------------------- helpers
def dec_nan(spec):
    """None in capa/price stands for NaN"""
    spec = copy.deepcopy(spec)
    o = spec['args']['orders']
    for k in ('capa', 'price'):
        o[k] = [float('nan') if v is None else v for v in o[k]]
    return spec


def tz_of(g):
    return g.get('tz')


FRAME_DROPS_ZONE = False    # follow the code: `orders[col].values` of a datetime64[ns, tz] column is zone-less UTC wall time


def shape_num(vals, form):
    """a capa / price column (Python ints and floats, exactly as the case records them) in the form `form`"""
    vals = list(vals)
    if form in (None, 'list'):
        return vals
    if form == 'tuple':
        return tuple(vals)
    if form == 'array':             # int64 when every entry is an int, float64 otherwise
        return np.asarray(vals) if vals else np.zeros(0)
    if form == 'float_array':
        return np.asarray(vals, dtype=float)
    if form == 'np_scalars':
        return [np.int64(v) if isinstance(v, int) else np.float64(v) for v in vals]
    if form == 'object':
        a = np.empty(len(vals), dtype=object)
        a[:] = vals
        return a
    if form == 'series':
        return pd.Series(vals) if vals else pd.Series(vals, dtype=float)
    if form == 'infer':             # DataFrame column: int64 when every entry is an int, float64 otherwise
        return pd.Series(vals) if vals else pd.Series(vals, dtype=float)
    if form == 'float64':
        return pd.Series(vals, dtype=float)
    raise ValueError(form)


def shape_dates(vals, form):
    vals = list(vals)
    if form in (None, 'list'):
        return vals
    if form == 'tuple':
        return tuple(vals)
    if form == 'object':
        a = np.empty(len(vals), dtype=object)
        a[:] = vals
        return a
    raise ValueError(form)


def as_frame(cols, form=None):
    """the four columns as a DataFrame (None = NaN); numeric columns of the dtype the case's `form` asks for"""
    form = form or {}
    d = {}
    for k, v in cols.items():
        f = form.get(k) if k in ('capa', 'price') else None
        if f == 'object':
            d[k] = pd.Series(list(v), dtype=object)
        elif f in ('infer', 'float64') and len({len(x) for x in cols.values()}) == 1:
            d[k] = shape_num(v, f)
        else:
            d[k] = list(v)
    return pd.DataFrame(d)


def shape_orders(case, cols):
    """the decoded order columns as the object handed to the constructor: dict of lists / tuples / numpy arrays / Series,
    or a DataFrame with int64 / float64 / object columns"""
    form = case.get('form') or {}
    cont = case.get('container')
    if case.get('frame'):
        df = as_frame(cols, form)
        return FORMS.frame_container(df, cont) if cont else df
    out = {}
    for k, v in cols.items():
        if k in ('capa', 'price'):
            out[k] = shape_num(v, form.get(k))
        elif k in ('start', 'end'):
            out[k] = shape_dates(v, form.get('dates'))
        else:
            out[k] = v
    return FORMS.dict_container(out, cont) if cont else out


def code_dtypes(case, spec=None):
    """numpy dtype kinds ('i', 'f', 'O') of the capa and price columns as the implementation sees them"""
    o = scen.dec(copy.deepcopy(dec_nan(spec or case['ob'])['args']['orders']))
    try:
        sh = shape_orders(case, o)
        return [np.asarray(sh[k]).dtype.kind for k in ('capa', 'price')]
    except Exception:
        return ['?', '?']


def frame_zone_dropped(case, spec=None):
    """does the DataFrame form of this case lose the zone of a date column? (F-20b)"""
    if not case.get('frame'):
        return False
    o = scen.dec(copy.deepcopy(dec_nan(spec or case['ob'])['args']['orders']))
    try:
        df = as_frame(o)
    except Exception:
        return False
    return any(isinstance(df[k].dtype, pd.DatetimeTZDtype) for k in ('start', 'end'))


def order_instants(case, spec=None, as_code=True):
    """(starts, ends) as instants; naive dates are localised to the grid's zone, exactly as the code does.
    With `as_code` the DataFrame form is passed through `.values` first, as the constructor does."""
    tz = case['grid']['tz']
    o = scen.dec(copy.deepcopy(dec_nan(spec or case['ob'])['args']['orders']))
    if case.get('frame') and as_code and FRAME_DROPS_ZONE and len(set(len(v) for v in o.values())) == 1:
        df = as_frame(o)
        o = {k: df[k].values for k in ('start', 'end')}
    return [instant(x, tz) for x in o['start']], [instant(x, tz) for x in o['end']]


def build_ob(case, spec, nodes):
    spec = dec_nan(spec)
    args = scen.dec(copy.deepcopy(spec.get('args', {})))
    args['orders'] = shape_orders(case, args['orders'])
    return eao.assets.OrderBook(name=spec['name'], nodes=nodes[spec['nodes'][0]], **args)


def own_grid(case):
    """the grid with the order book's own discount factors, without building the order book"""
    tg = scen.make_grid(case['grid'])
    tg.set_wacc(case['ob']['args'].get('wacc', 0.0))
    tg.set_restricted_grid(None, None)
    return tg


def is_exact(case, gj):
    """every intermediate of the implementation exactly representable? (then equality is demanded)"""
    if case['ob']['args'].get('wacc', 0.0) != 0:
        return False
    for v in gj['dt']:
        d = Fraction(v).denominator
        if d > 64 or d & (d - 1):
            return False
    o = case['ob']['args']['orders']
    for v in list(o['capa']) + list(o['price']):
        if v is not None and (Fraction(float(v)) * 8).denominator != 1:
            return False
    return True


# ------------------------------------------------------------------------------------------- real code
def run_impl(case):
    """builder of the real code on the case's grid: {'grid': grid json, 'problem' | 'error'}"""
    tg = own_grid(case)
    tz = case['grid']['tz']
    res = {'grid': grid_json(tg.restricted, tz)}
    try:
        with Quiet():
            nodes = scen.make_nodes(case['ob']['nodes'])
            ob = build_ob(case, case['ob'], nodes)
            tg2 = scen.make_grid(case['grid'])
            op = ob.setup_optim_problem(None, tg2)
        res['problem'] = problem_json(op, name=ob.name, nodes=[n.name for n in ob.nodes])
        res['raw_order'] = [(int(i), int(t)) for i, t in zip(op.mapping.index, op.mapping['time_step'])] if len(op.mapping) else []
        g2 = grid_json(ob.timegrid.restricted, tz)
        if g2 != res['grid']:
            res['grid_mismatch'] = True
    except Exception as e:
        res['error'] = err_class(e)
        res['error_text'] = '%s: %s' % (type(e).__name__, str(e)[:120])
    return res


def request(case, impl_result=None, op=OP, extra=None):
    gj = (impl_result or {}).get('grid') or grid_json(own_grid(case).restricted, case['grid']['tz'])
    ss, ee = order_instants(case)
    o = case['ob']['args']['orders']
    req = {'op': op, 'name': case['ob']['name'], 'node': case['ob']['nodes'][0],
           'full_exec': bool(case['ob']['args'].get('full_exec', False)), 'grid': gj,
           'orders': {'start': ss, 'stop': ee, 'capa': [None if v is None else fs(v) for v in o['capa']],
                      'price': [None if v is None else fs(v) for v in o['price']]}}
    if extra:
        req.update(extra)
    return req


ERR_MAP = {'nan': 'assert', 'assert': 'assert', 'index': 'index', 'ill-posed': 'value', 'overlap': 'value',
           'length': 'value', 'not-implemented': 'not-implemented', 'missing-price': 'assert'}


def compare(case, impl_result, model_result):
    """disagreement strings; model_result is the driver's answer to `request(case)`"""
    dis = []
    if impl_result.get('grid_mismatch'):
        dis.append('orderbook: restricted grid of the asset differs from the grid handed to the model')
    ie, me = impl_result.get('error'), model_result.get('error')
    if ie or me:
        if not (ie and me and ERR_MAP.get(me, me) == ie):
            dis.append('orderbook: error class %r (model) vs %r (impl)' % (me, ie))
        return dis
    tol = 0 if is_exact(case, impl_result['grid']) else 1e-9
    mp, ip = model_result['problem'], impl_result['problem']
    dis += pf.cmp_problem('orderbook', mp, ip, tol, aspects=('c', 'l', 'u', 'rows', 'mapping'))
    if mp.get('name') != ip.get('name') or mp.get('nodes') != ip.get('nodes'):
        dis.append('orderbook: name/nodes %r %r (model) vs %r %r (impl)' % (mp.get('name'), mp.get('nodes'), ip.get('name'), ip.get('nodes')))
    mo = [(m['var'], m['step']) for m in mp['mapping']]
    if mo != impl_result['raw_order']:
        dis.append('orderbook: literal order of mapping rows %s (model) vs %s (impl)' % (mo[:10], impl_result['raw_order'][:10]))
    return dis


# ------------------------------------------------------------------------------------------- portfolio runs
def scenario_of(case, extra_orders=()):
    """scenario (harness.scen format) with the order book embedded among its companions; `extra_orders` are
    inserted at their positions (counted in the list as it grows)"""
    p = case['portfolio']
    ob = dec_nan(case['ob'])
    cols = ob['args']['orders']
    for pos, o in extra_orders:
        for k in ('start', 'end', 'capa', 'price'):
            cols[k] = list(cols[k])
            cols[k].insert(pos, o[k])
    others = [a for a in (p['market'], p['load'], p['storage']) if a is not None]
    pos = min(p['position'], len(others))
    assets = others[:pos] + [ob] + others[pos:]
    return {'grid': {k: v for k, v in case['grid'].items()}, 'nodes': [case['ob']['nodes'][0]],
            'prices': p['prices'], 'assets': assets}


def inserted_index_map(n, extra_orders):
    """positions of the n original orders after the insertions, and positions of the inserted ones"""
    tags = list(range(n))
    for j, (pos, _) in enumerate(extra_orders):
        tags.insert(pos, ('x', j))
    orig = {t: i for i, t in enumerate(tags) if not isinstance(t, tuple)}
    ins = [i for i, t in enumerate(tags) if isinstance(t, tuple)]
    return [orig[k] for k in range(n)], ins


def solve_portfolio(scn, case=None):
    """as pf.setup_mono + pf.solve_rec, with the order book built by `build_ob` (DataFrame form)"""
    tg = scen.make_grid(scn['grid'])
    nodes = scen.make_nodes(scn['nodes'])
    assets = [build_ob(case or {}, s, nodes) if s['type'] == 'OrderBook' else scen.build_asset(s, nodes) for s in scn['assets']]
    portf = eao.portfolio.Portfolio(assets)
    prices = {k: np.asarray(v, dtype=float) for k, v in scn.get('prices', {}).items()}
    rec = {'portf': portf, 'tg': tg, 'prices': prices, 'scn': scn}
    with Quiet(), impl.Capture(portf) as cap:
        rec['op'] = portf.setup_optim_problem(prices, tg)
    rec['captured'] = {k: v[-1] for k, v in cap.caught.items()}
    pf.solve_rec(rec)
    return rec


def special_rows(rec, name):
    sp = rec['out']['special']
    rows = []
    for _, r in sp[sp['asset'] == name].iterrows():
        rows.append({'asset': str(r['asset']), 'kind': str(r['variable']), 'name': str(r['name']),
                     'value': float(r['value']), 'costs': float(r['costs'])})
    return rows


# ------------------------------------------------------------------------------------------- independent reference
def discount(wacc, Dt, unit):
    days = pd.Timedelta(1, unit) / pd.Timedelta(1, 'd')
    return [float((1.0 + wacc) ** (-(float(d) * days) / 365.0)) for d in Dt]


def facts_of(case, orders_cols, tg):
    """grid facts and per-order cover computed by the harness itself (only points/dt come from the grid object)"""
    tz = case['grid']['tz']
    pts = [instant(p, tz) for p in tg.timepoints]
    dt = [float(v) for v in tg.dt]
    Dt = list(np.cumsum(dt))
    o = scen.dec(copy.deepcopy(orders_cols))
    ss = [instant(x, tz) for x in o['start']]
    ee = [instant(x, tz) for x in o['end']]
    cover = [[t for t, p in enumerate(pts) if s <= p < e] for s, e in zip(ss, ee)]
    return {'pts': pts, 'dt': dt, 'Dt': Dt, 'cover': cover, 'capa': [float(v) for v in o['capa']],
            'price': [float(v) for v in o['price']], 'unit': case['grid']['unit']}


def reference(case, F):
    """independent formulation with scipy: one execution variable per order, the market's step variables, the
    storage's net flow per step; balance per step.  Returns (value, x) or (None, status)"""
    p = case['portfolio']
    T, n = len(F['pts']), len(F['capa'])
    dt = F['dt']
    df_ob = discount(case['ob']['args'].get('wacc', 0.0), F['Dt'], F['unit'])
    df_mk = discount(p['market']['args'].get('wacc', 0.0), F['Dt'], F['unit'])
    has_s = p['storage'] is not None
    N = n + T + (T if has_s else 0)
    c = np.zeros(N)
    lo = np.zeros(N)
    hi = np.ones(N)
    for o in range(n):
        c[o] = F['capa'][o] * F['price'][o] * sum(dt[t] * df_ob[t] for t in F['cover'][o])
    price = p['prices']['p']
    M = p['market']['args']['max_cap']
    for t in range(T):
        c[n + t] = price[t] * df_mk[t]
        lo[n + t], hi[n + t] = -M * dt[t], M * dt[t]
    load = -p['load']['args']['min_cap'] if p['load'] is not None else 0.0
    rows, lb, ub = [], [], []
    for t in range(T):
        r = np.zeros(N)
        for o in range(n):
            if t in F['cover'][o]:
                r[o] += F['capa'][o] * dt[t]
        r[n + t] = 1.0
        if has_s:
            r[n + T + t] = 1.0
        rows.append(r)
        lb.append(load * dt[t])
        ub.append(load * dt[t])
    if has_s:
        a = p['storage']['args']
        for t in range(T):
            lo[n + T + t], hi[n + T + t] = -a['cap_in'] * dt[t], a['cap_out'] * dt[t]
            r = np.zeros(N)
            r[n + T:n + T + t + 1] = -1.0           # level_t - start = - sum of net outflow
            rows.append(r)
            if t == T - 1:
                lb.append(a['end_level'] - a['start_level'])
                ub.append(a['end_level'] - a['start_level'])
            else:
                lb.append(-a['start_level'])
                ub.append(a['size'] - a['start_level'])
    A, lb, ub = np.array(rows), np.array(lb), np.array(ub)
    ref = {'c': c, 'lo': lo, 'hi': hi, 'A': A, 'lb': lb, 'ub': ub, 'n': n, 'T': T}
    live = [o for o in range(n) if F['cover'][o]]
    if case['ob']['args'].get('full_exec', False):
        # full execution: every 0/1 pattern of the orders that cover a step, one LP each (no MIP solver involved)
        best, bx, msg = None, None, 'no feasible execution pattern'
        for pat in range(1 << len(live)):
            l2, h2 = lo.copy(), hi.copy()
            for k, o in enumerate(live):
                l2[o] = h2[o] = float((pat >> k) & 1)
            v, x = solve_lp(c, A, lb, ub, l2, h2)
            if v is not None and (best is None or v > best):
                best, bx = v, x
            elif v is None:
                msg = x
        if best is None:
            return None, msg
        ref['x'] = bx
        return best, ref
    v, x = solve_lp(c, A, lb, ub, lo, hi)
    if v is None:
        return None, x
    ref['x'] = x
    return v, ref


def solve_lp(c, A, lb, ub, lo, hi):
    """max -c.x  s.t.  lb <= A x <= ub, lo <= x <= hi  with scipy's linprog; (value, x) or (None, message)"""
    from scipy.optimize import linprog
    eq = lb == ub
    A_ub = np.vstack((A[~eq], -A[~eq])) if (~eq).any() else None
    b_ub = np.concatenate((ub[~eq], -lb[~eq])) if (~eq).any() else None
    res = None
    for opts in ({}, {'presolve': False}):
        res = linprog(c, A_ub=A_ub, b_ub=b_ub, A_eq=A[eq] if eq.any() else None, b_eq=lb[eq] if eq.any() else None,
                      bounds=list(zip(lo, hi)), method='highs', options=opts)
        if res.status == 0:
            return -float(res.fun), res.x
    return None, res.message


# ------------------------------------------------------------------------------------------- oracles
def V(oracle, detail, **facts):
    return {'oracle': oracle, 'detail': detail, 'facts': facts}


def oracle_tables(case, rec, cols, tag='base'):
    """fractions, delivery and cash from the output tables of one solved portfolio"""
    viol = []
    name, node = case['ob']['name'], case['ob']['nodes'][0]
    full = bool(case['ob']['args'].get('full_exec', False))
    F = facts_of(case, cols, rec['tg'])
    out = rec['out']
    n, T = len(F['capa']), len(F['pts'])
    rows = special_rows(rec, name)
    live = [o for o in range(n) if F['cover'][o]]
    names = [r['name'] for r in rows]
    if sorted(names) != sorted(str(o) for o in live):
        viol.append(V('order_report', '%s: special table lists orders %s, orders with a step in the horizon are %s' % (tag, names, live), mode=tag))
    frac = {}
    for r in rows:
        frac[int(r['name'])] = r['value']
    df = discount(case['ob']['args'].get('wacc', 0.0), F['Dt'], F['unit'])
    W = [sum(F['dt'][t] * df[t] for t in F['cover'][o]) for o in range(n)]
    tol = 1e-6
    for o, f in frac.items():
        if not (-tol <= f <= 1 + tol):
            viol.append(V('order_fraction', '%s: order %d executed at fraction %.9g outside [0,1]' % (tag, o, f), mode=tag, order=o))
        if full and min(abs(f), abs(f - 1)) > tol:
            viol.append(V('order_full_exec', '%s: full execution enforced but order %d executed at fraction %.9g' % (tag, o, f), mode=tag, order=o))
    sc = 1.0 + max([abs(v) for v in F['capa']] + [0]) * max(F['dt'] + [0])
    col = impl.disp_cols(rec['portf'])[(name, node)]
    disp = out['dispatch'][col].values.astype(float)
    for t in range(T):
        exp = sum(frac.get(o, 0.0) * F['capa'][o] * F['dt'][t] for o in live if t in F['cover'][o])
        if abs(disp[t] - exp) > 1e-6 * sc:
            viol.append(V('order_delivery', '%s: step %d: order book delivers %.9g, sum over covering orders of fraction*capa*dt is %.9g' % (tag, t, disp[t], exp), mode=tag, step=t))
            break
    cash = float(np.nansum(out['DCF'][name].values.astype(float)))
    exp = -sum(frac.get(o, 0.0) * F['capa'][o] * F['price'][o] * W[o] for o in live)
    csc = 1.0 + sum(abs(F['capa'][o] * F['price'][o] * W[o]) for o in live)
    if abs(cash - exp) > 1e-6 * csc:
        viol.append(V('order_cash', '%s: order book cash flow %.9g, expected -sum fraction*capa*price*discounted covered duration = %.9g' % (tag, cash, exp), mode=tag))
    for r in rows:
        o = int(r['name'])
        e = r['value'] * F['capa'][o] * F['price'][o] * W[o]
        if abs(r['costs'] - e) > 1e-6 * csc:
            viol.append(V('order_report', '%s: special table reports costs %.9g for order %d, expected %.9g' % (tag, r['costs'], o, e), mode=tag, order=o))
    return viol, F, frac, disp


def embed_in_reference(case, rec, F, frac, ref):
    """the implementation's solution expressed in the variables of the reference formulation: feasible? value?"""
    n, T = ref['n'], ref['T']
    x = np.zeros(len(ref['c']))
    for o in range(n):
        x[o] = frac.get(o, 0.0)
    cols = impl.disp_cols(rec['portf'])
    node = case['ob']['nodes'][0]
    x[n:n + T] = rec['out']['dispatch'][cols[('market', node)]].values.astype(float)
    if case['portfolio']['storage'] is not None:
        x[n + T:n + 2 * T] = rec['out']['dispatch'][cols[('store', node)]].values.astype(float)
    sc = 1.0 + float(np.abs(x).max())
    ax = ref['A'] @ x
    worst = max(float(np.max(ref['lo'] - x)), float(np.max(x - ref['hi'])), float(np.max(ref['lb'] - ax)), float(np.max(ax - ref['ub'])))
    return worst / sc, -float(ref['c'] @ x)


def oracle(case, impl_result=None):
    """all C20 oracles on the real code for a case with companions: list of violation dicts"""
    return oracle_full(case)[0]


def oracle_full(case):
    v, obs = oracle_inner(case)
    if frame_zone_dropped(case):
        obs['frame_zone_dropped'] = True
        for x in v:
            x['facts']['frame_zone_dropped'] = True
    return v, obs


def oracle_inner(case):
    """(violations, observations)"""
    viol, obs = [], {}
    if case.get('portfolio') is None:
        return viol, obs
    cols = dec_nan(case['ob'])['args']['orders']
    n = len(cols['capa'])
    rec = solve_portfolio(scenario_of(case), case)
    if isinstance(rec['res'], str):
        obs['unsolved'] = rec['res']
        viol.append(V('order_reference', 'portfolio with order book not solved (%s) although zero execution is feasible' % rec['res']))
        return viol, obs
    v, F, frac, disp = oracle_tables(case, rec, cols, 'base')
    viol += v
    val = float(rec['res'].value)
    obs.update({'value': val, 'orders': n, 'live': sum(1 for cv in F['cover'] if cv), 'T': len(F['pts']),
                'executed': sum(1 for f in frac.values() if f > 1e-6), 'partial': sum(1 for f in frac.values() if 1e-6 < f < 1 - 1e-6),
                'overlap_steps': sum(1 for t in range(len(F['pts'])) if sum(1 for cv in F['cover'] if t in cv) >= 2)})
    # independent formulation
    rv, ref = reference(case, F)
    if rv is None:
        viol.append(V('order_reference', 'reference formulation not solved: %s' % ref))
        return viol, obs
    vs = 1e-6 * (1.0 + abs(rv) + float(np.abs(ref['c']).sum()))
    obs['ref_value'] = rv
    if abs(rv - val) > vs:
        viol.append(V('order_reference', 'optimum with the order book %.9g, optimum of the independent per-order formulation %.9g' % (val, rv), what='value'))
    infeas, own = embed_in_reference(case, rec, F, frac, ref)
    if infeas > 1e-6:
        viol.append(V('order_reference', 'solution of the implementation violates the independent formulation by %.3g' % infeas, what='feasible'))
    elif abs(own - val) > vs:
        viol.append(V('order_reference', 'reported value %.9g but fractions and dispatch of the output are worth %.9g in the independent formulation' % (val, own), what='worth'))
    # re-optimisation: a second set-up of the SAME objects on the SAME grid object gives the same problem and optimum
    try:
        with Quiet():
            op_b = rec['portf'].setup_optim_problem(rec['prices'], rec['tg'])
        op_a = rec['op']
        same_problem = (len(op_a.c) == len(op_b.c) and np.array_equal(op_a.c, op_b.c) and np.array_equal(op_a.l, op_b.l) and np.array_equal(op_a.u, op_b.u)
                        and len(op_a.mapping) == len(op_b.mapping))
        obs['second_setup_same'] = bool(same_problem)
        if not same_problem:
            res_b = impl.solve(op_b)
            vb = None if isinstance(res_b, str) else float(res_b.value)
            if vb is None or abs(vb - rv) > vs:
                viol.append(V('order_reference', 'second set-up of the same portfolio on the same grid: optimum %s, optimum of the independent per-order formulation %.9g' % (
                    'not found (%s)' % res_b if vb is None else '%.9g' % vb, rv), what='second_setup'))
    except Exception as e:
        viol.append(V('order_reference', 'second set-up of the same portfolio on the same grid raises %s: %s' % (type(e).__name__, str(e)[:120]), what='second_setup'))
    # the order book inside a wrapper with its own window: orders are delivered (and paid) over the part of their window that
    # lies inside the wrapper's window - the independent formulation with the covers cut to that window
    T_ = len(F['pts'])
    if T_ >= 3 and n >= 1:
        try:
            from eaopack.portfolio import StructuredAsset, Portfolio
            i0, i1 = T_ // 3, T_ - max(1, T_ // 4)
            if i0 < i1:
                tg_ = rec['tg']
                ws, we = tg_.timepoints[i0], tg_.timepoints[i1]
                scn_w = scenario_of(case)
                nodes_w = scen.make_nodes(scn_w['nodes'])
                assets_w = []
                for s_ in scn_w['assets']:
                    if s_['type'] == 'OrderBook':
                        ob_w = build_ob(case, s_, nodes_w)
                        assets_w.append(StructuredAsset(name='wrap', nodes=ob_w.nodes[0], portfolio=Portfolio([ob_w]),
                                                        start=ws.to_pydatetime(), end=we.to_pydatetime()))
                    else:
                        assets_w.append(scen.build_asset(s_, nodes_w))
                pw = eao.portfolio.Portfolio(assets_w)
                tgw = scen.make_grid(scn_w['grid'])
                prw = {k: np.asarray(v, dtype=float) for k, v in scn_w.get('prices', {}).items()}
                with Quiet():
                    opw = pw.setup_optim_problem(prw, tgw)
                resw = impl.solve(opw)
                F2 = dict(F)
                F2['cover'] = [[t for t in cv if i0 <= t < i1] for cv in F['cover']]
                rv2, ref2 = reference(case, F2)
                obs['wrapped_window'] = [i0, i1]
                if rv2 is not None:
                    vs2 = 1e-6 * (1.0 + abs(rv2) + float(np.abs(ref2['c']).sum()))
                    if isinstance(resw, str):
                        viol.append(V('order_reference', 'order book inside a structured asset with window [step %d, step %d): not solved (%s), the independent formulation has the optimum %.9g' % (i0, i1, resw, rv2), what='wrapped_window'))
                    elif abs(float(resw.value) - rv2) > vs2:
                        viol.append(V('order_reference', 'order book inside a structured asset with window [step %d, step %d): optimum %.9g, independent per-order formulation with the covers cut to the window %.9g' % (
                            i0, i1, float(resw.value), rv2), what='wrapped_window'))
        except Exception as e:
            viol.append(V('order_reference', 'order book inside a structured asset with a window: %s: %s' % (type(e).__name__, str(e)[:150]), what='wrapped_window'))
    # inert orders
    if case.get('inert'):
        ext = [(p, o) for p, o in case['inert']]
        scn2 = scenario_of(case, ext)
        ob2 = [a for a in scn2['assets'] if a['type'] == 'OrderBook'][0]
        cols2 = ob2['args']['orders']
        rec2 = solve_portfolio(scn2, case)
        if isinstance(rec2['res'], str):
            viol.append(V('order_inert', 'adding orders without a step in the horizon made the problem unsolved (%s)' % rec2['res']))
            return viol, obs
        v2, F2, frac2, disp2 = oracle_tables(case, rec2, cols2, 'with-inert')
        viol += v2
        where, ins = inserted_index_map(n, ext)
        bad = [i for i in ins if F2['cover'][i]]
        if bad:
            obs['inert_generator_error'] = bad
            return viol, obs
        val2 = float(rec2['res'].value)
        obs['inert_added'] = len(ins)
        if abs(val2 - val) > vs:
            viol.append(V('order_inert', 'value %.9g becomes %.9g after inserting %d orders with no step in the horizon at positions %s' % (
                val, val2, len(ins), ins), what='value', positions=ins))
        # other dispatch: identical, or (non-unique optimum) still an optimal point of the ORIGINAL reference problem
        frac2b = {k: frac2.get(where[k], 0.0) for k in range(n) if F['cover'][k]}
        same = True
        for a in rec['portf'].assets:
            c1 = rec['out']['dispatch'][impl.disp_cols(rec['portf'])[(a.name, a.nodes[0].name)]].values.astype(float)
            c2 = rec2['out']['dispatch'][impl.disp_cols(rec2['portf'])[(a.name, a.nodes[0].name)]].values.astype(float)
            if np.abs(c1 - c2).max() > 1e-5 * (1 + np.abs(c1).max()):
                same = False
        if any(abs(frac2b[k] - frac.get(k, 0.0)) > 1e-5 for k in frac2b):
            same = False
        obs['inert_same_dispatch'] = same
        if not same:
            infeas2, own2 = embed_in_reference(case, rec2, F, frac2b, ref)
            if infeas2 > 1e-6 or abs(own2 - rv) > vs:
                viol.append(V('order_inert', 'after inserting inert orders at %s the dispatch of the other elements changed to a point that is '
                              'not an optimum of the original problem (violation %.3g, worth %.9g vs %.9g)' % (ins, infeas2, own2, rv), what='dispatch', positions=ins))
    return viol, obs


def oracle_container(case, ir):
    """the statement of C20 on the order book's own problem, whatever the container of the order list: one execution
    variable per order GIVEN (rows by position), bounds [0,1], cost of the variable = capa x price x discounted covered
    duration computed by the harness from the plain columns; a container of well-formed orders must not raise when the
    same orders as a plain dict of lists are set up"""
    cont = case.get('container')
    if not cont or case.get('malformed'):
        return []
    viol = []
    cols = dec_nan(case['ob'])['args']['orders']
    n = len(cols['start'])
    what = 'DataFrame with index kind %r' % cont.get('index') if case.get('frame') else 'dict with entries %s' % (cont.get('wrap') or {})
    facts = {'container': 'frame' if case.get('frame') else 'dict', 'index': cont.get('index'), 'orders': n}
    if FORMS.numeric_series_labels(cont):
        facts['series_numeric_labels'] = True
    if frame_zone_dropped(case):
        facts['frame_zone_dropped'] = True
    if 'error' in ir:
        plain = dict(case)
        plain['container'] = None
        ir0 = run_impl(plain)
        if 'error' not in ir0:
            viol.append(V('order_container', '%d orders given as %s (extra %s): set-up raises %s; the same orders as a plain %s are set up with %d variables' % (
                n, what, cont.get('extra'), ir.get('error_text', ir['error']), 'DataFrame' if case.get('frame') else 'dict of lists', len(ir0['problem']['c'])), **facts))
        return viol
    c = [float(Fraction(v)) for v in ir['problem']['c']]
    if len(c) != n:
        viol.append(V('order_count', '%d orders given as %s: the order book has %d execution variables' % (n, what, len(c)), variables=len(c), **facts))
        return viol
    lo = [float(Fraction(v)) for v in ir['problem']['l']]
    hi = [float(Fraction(v)) for v in ir['problem']['u']]
    if any(v != 0.0 for v in lo) or any(v != 1.0 for v in hi):
        viol.append(V('order_count', 'orders given as %s: bounds of the execution variables %s %s, expected [0,1]' % (what, lo, hi), **facts))
    tg = own_grid(case)
    F = facts_of(case, cols, tg)
    df = discount(case['ob']['args'].get('wacc', 0.0), F['Dt'], F['unit'])
    for o in range(n):
        exp = F['capa'][o] * F['price'][o] * sum(F['dt'][t] * df[t] for t in F['cover'][o])
        if abs(c[o] - exp) > 1e-9 * (1.0 + abs(exp)):
            viol.append(V('order_cost', 'orders given as %s: variable %d costs %.12g, order %d (by position) costs capa x price x discounted covered duration = %.12g' % (
                what, o, c[o], o, exp), order=o, **facts))
            break
    mp = {}
    for m in ir['problem']['mapping']:
        mp.setdefault(int(m['var']), []).append(int(m['step']))
    for o in range(n):
        if sorted(mp.get(o, [])) != list(F['cover'][o]):
            viol.append(V('order_delivery', 'orders given as %s: variable %d delivers in steps %s, order %d (by position) covers steps %s' % (
                what, o, sorted(mp.get(o, [])), o, list(F['cover'][o])), order=o, **facts))
            break
    return viol


# ------------------------------------------------------------------------------------------- read-out correspondence
def compare_readout(case, drv, rec=None):
    """model read-out (dispatchOut, dcf, orderRows on the MODEL's order-book problem) vs io.extract_output"""
    dis = []
    if case.get('portfolio') is None:
        return dis
    rec = rec or solve_portfolio(scenario_of(case), case)
    if isinstance(rec['res'], str):
        return dis
    name, node = case['ob']['name'], case['ob']['nodes'][0]
    lo, hi = pf.asset_offsets(rec)[name]
    T = int(rec['tg'].T)
    ob = [a for a in rec['portf'].assets if a.name == name][0]
    gj = grid_json(ob.timegrid.restricted, case['grid']['tz'])
    tg = own_grid(case)
    gj = grid_json(tg.restricted, case['grid']['tz'])
    m = drv.ask(request(case, {'grid': gj}, op='orderbook_readout', extra={'x': [fs(v) for v in rec['res'].x[lo:hi]], 'T': T}))
    if 'ok' not in m or 'problem' not in m['ok']:
        return ['orderbook_readout: model answered %s' % str(m)[:200]]
    m = m['ok']
    tol = 1e-9
    col = impl.disp_cols(rec['portf'])[(name, node)]
    for what, mv, iv in (('dispatch', m['dispatch'], rec['out']['dispatch'][col].values), ('dcf', m['dcf'], rec['out']['DCF'][name].values)):
        for t in range(T):
            if not pf.feq(Fraction(mv[t]), Fraction(float(iv[t])), tol):
                dis.append('orderbook_readout.%s step %d: %s (model) vs %s (impl)' % (what, t, float(Fraction(mv[t])), float(iv[t])))
                break
    rows = special_rows(rec, name)
    if len(rows) != len(m['orders']):
        dis.append('orderbook_readout.special: %d order rows (model) vs %d (impl)' % (len(m['orders']), len(rows)))
    else:
        for k, (a, b) in enumerate(zip(m['orders'], rows)):
            if (a[0], a[1], a[2]) != (b['asset'], b['kind'], b['name']):
                dis.append('orderbook_readout.special row %d: %s (model) vs %s (impl)' % (k, a[:3], [b['asset'], b['kind'], b['name']]))
                break
            if not pf.feq(Fraction(a[3]), Fraction(b['value']), tol) or not pf.feq(Fraction(a[4]), Fraction(b['costs']), tol):
                dis.append('orderbook_readout.special row %d (order %s): value/costs %s %s (model) vs %s %s (impl)' % (
                    k, a[2], float(Fraction(a[3])), float(Fraction(a[4])), b['value'], b['costs']))
                break
    return dis


# ------------------------------------------------------------------------------------------- self test
def run_case(case, drv):
    """one case in the shape `harness.core` expects of a property module's `run_case`"""
    r = {'evaluated': 1, 'nontrivial': False, 'disagreements': [], 'violations': [], 'features': [], 'observed': {}}
    ir = run_impl(case)
    try:
        req = request(case, ir)
    except Exception as e:
        # F-20b: the zone-less UTC wall time of a DataFrame column need not exist as local time; the code raises too
        if 'error' in ir and frame_zone_dropped(case):
            r['features'] += ['frame', 'frame_zone_dropped', 'error:' + ir['error']]
            r['violations'].append(V('order_dates', 'order book given as DataFrame with zone-aware dates raises %s (%s: %s)' % (
                ir['error'], type(e).__name__, e), frame_zone_dropped=True))
            return r
        raise
    mr = drv.ask(req)
    dis = []
    if 'ok' not in mr:
        dis.append('orderbook: driver rejected the request: %s' % str(mr)[:200])
    else:
        dis += compare(case, ir, mr['ok'])
    f = r['features']
    f.append('error:' + ir['error'] if 'error' in ir else 'built')
    f.append('exact' if is_exact(case, ir['grid']) else 'tolerant')
    f += ['kind:' + k for k in set(case.get('kinds', []))]
    f.append('tz' if case['grid']['tz'] else 'naive')
    f.append('freq:' + case['grid']['freq'])
    f.append('full_exec' if case['ob']['args'].get('full_exec') else 'partial_exec')
    if case.get('frame'):
        f.append('frame')
    if frame_zone_dropped(case):
        f.append('frame_zone_dropped')
    if case.get('container'):
        f += FORMS.features(case)
        f.append('orders:%s' % ('1' if len(case['ob']['args']['orders']['start']) == 1 else 'several'))
        r['violations'] += oracle_container(case, ir)
    if len(set(ir['grid']['dt'])) > 1:
        f.append('unequal_steps')
    # form of the numbers: what the generator drew and what the implementation sees
    form = case.get('form') or {}
    f += ['form:%s=%s' % (k, form[k]) for k in ('capa', 'price', 'dates') if k in form]
    if case.get('numkind'):
        f.append('num:%s/%s' % tuple(case['numkind']))
    dk = code_dtypes(case)
    f.append('dtype:%s/%s' % tuple(dk))
    fractional = case['ob']['args'].get('wacc', 0.0) != 0 or any(Fraction(v).denominator != 1 for v in ir['grid']['dt'])
    if dk == ['i', 'i']:
        f.append('int_typed')
        f.append('int_typed+%s' % ('fractional_duration' if fractional else 'whole_duration'))
        if fractional:
            f += ['int_typed+freq:%s/%s' % (case['grid']['freq'], case['grid']['unit'])]
            if case['ob']['args'].get('wacc', 0.0) != 0:
                f.append('int_typed+wacc')
    if case.get('portfolio') is not None and 'error' not in ir:
        f.append('portfolio')
        if case['portfolio']['storage'] is not None:
            f.append('storage')
        v, obs = oracle_full(case)
        r['violations'] += v
        r['observed'] = obs
        r['nontrivial'] = obs.get('executed', 0) > 0
        dis += compare_readout(case, drv)
    elif 'error' not in ir:
        r['nontrivial'] = any(len(cv) > 0 for cv in mr.get('ok', {}).get('cover', []))
    if FORMS.numeric_series_labels(case.get('container')):
        # dict entries that are Series with numeric labels other than 0..n-1: the code reads `orders[col][i]` BY LABEL.  Every
        # violation of such a case carries the fact; the model (orders by position) is then not the yardstick of the code, the
        # difference is reported by the violations (statement level) instead of as a broken tie
        for x in r['violations']:
            x['facts']['series_numeric_labels'] = True
        if r['violations'] and dis:
            f.append('container:series_numeric_labels:reported_as_violation')
            dis = []
    r['disagreements'] = [{'component': 'orderbook' if not d.startswith('orderbook_readout') else 'orderbook.readout', 'detail': d} for d in dis]
    return r


def selftest(n, seed, drv, portfolio_share=0.5, verbose=False):
    rnd = random.Random(seed)
    tot = {'cases': 0, 'disagreements': [], 'violations': [], 'violations_F20b': [], 'features': {}, 'nontrivial': 0, 'errors': []}
    for i in range(n):
        case = gen_case(random.Random(rnd.getrandbits(48)), with_portfolio=(rnd.random() < portfolio_share))
        try:
            r = run_case(case, drv)
        except Exception as e:
            import traceback
            tot['errors'].append((i, '%s: %s' % (type(e).__name__, e), traceback.format_exc()[-800:]))
            continue
        tot['cases'] += 1
        for x in r['features']:
            tot['features'][x] = tot['features'].get(x, 0) + 1
        if r['nontrivial']:
            tot['nontrivial'] += 1
        for d in r['disagreements']:
            tot['disagreements'].append((i, d['detail']))
            if verbose:
                print('DIS', i, d['detail'])
        for v in r['violations']:
            known = bool(v['facts'].get('frame_zone_dropped'))       # finding F-20b (notes/findings_orderbook.md)
            tot['violations_F20b' if known else 'violations'].append((i, v))
            if verbose:
                print('VIOL-F20b' if known else 'VIOL', i, v['oracle'], v['detail'])
    return tot


class ScratchDriver:
    """driver behind an arbitrary command (development: `lake env lean --run /tmp/.../Main.lean`)"""

    def __init__(self, cmd, cwd=None):
        import subprocess
        self.p = subprocess.Popen(cmd, cwd=cwd, stdin=subprocess.PIPE, stdout=subprocess.PIPE, text=True, bufsize=1)

    def ask(self, req):
        import json
        self.p.stdin.write(json.dumps(req) + '\n')
        self.p.stdin.flush()
        line = self.p.stdout.readline()
        if not line:
            raise RuntimeError('driver died')
        return json.loads(line)

    def ok(self, req):
        r = self.ask(req)
        if 'ok' not in r:
            raise RuntimeError('driver error: %s' % r.get('err'))
        return r['ok']

    def close(self):
        try:
            self.p.stdin.close()
            self.p.wait(timeout=5)
        except Exception:
            self.p.kill()


if __name__ == '__main__':
    import sys
    import json
    from ..lean import LEAN_DIR
    nn = int(sys.argv[1]) if len(sys.argv) > 1 else 100
    sd = int(sys.argv[2]) if len(sys.argv) > 2 else 1
    main = sys.argv[3] if len(sys.argv) > 3 else None
    if main:
        d = ScratchDriver(['lake', 'env', 'lean', '--run', main], cwd=LEAN_DIR)
    else:
        from ..lean import Driver
        d = Driver()
    t = selftest(nn, sd, d, verbose=True)
    d.close()
    print(json.dumps({k: (v if k == 'features' or isinstance(v, int) else len(v)) for k, v in t.items()}, indent=1, sort_keys=True))
    for e in t['errors'][:5]:
        print('ERR', e[0], e[1])
        print(e[2])
