"""C06 with start / shutdown ramp profiles: registered theorems of `EAO/Properties/C06Profile.lean` (proof package
`pkg-c06prof`, no new model, no driver op) and a small check of the theorem STATEMENTS against the real code.

* THEOREMS_C06_PROFILE   (lean_module, fully qualified theorem, one-line reading) — audited with `#print axioms` by the
                         property module that lists them (the integrator adds them to `harness/props/c06.py`)
* selftest(n, seed, drv) real code only (the driver argument is accepted and ignored):
    - `commit`: for small `Plant`s with profiles every on/off pattern is tried — it extends to 0/1 start / shutdown flags
      satisfying the rows of the real `op` that mention bool variables only, and the bounds of the bool variables, iff it
      satisfies the run-length specification with minimum runtime `min_runtime + S + Q`
      (`EAO.C06P.commit_rows_iff_spec_prof`); the extending flags are exact transition indicators at EVERY step
      (`EAO.C06P.flag_rows_iff`; the last-step exception was repaired in /repo, commit e7aae05)
    - `ramp`: `_convert_ramp` against the closed forms of `convert_ramp_coarse_int` / `convert_ramp_coarse_volume` /
      `convert_ramp_fine_first` / `_linear` / `_last` / `convert_ramp_identity`
"""
import datetime as dt
import itertools
import random

import numpy as np

import eaopack as eao
from ..impl import Quiet

NAME = 'chpprof'
M = 'EAO.Properties.C06Profile'

THEOREMS_C06_PROFILE = [
    # (a) flags and on/off patterns
    (M, 'EAO.C06P.resolved_wf',
     'whatever resolveCHPP returns: minimum runtime in steps = converted min_runtime + S + Q (lengths of the start and shutdown profile on the grid), downtime and initial state are the converted arguments, and with a profile the result is well formed (on, start and shutdown variables present, one variable per step)'),
    (M, 'EAO.C06P.wf_of_ok',
     'the decidable check commitOKP gives the well-formedness hypothesis CommitWFP'),
    (M, 'EAO.C06P.first_step_flags',
     'every feasible point (no 0/1 hypothesis): after being off start_0 = on_0 and shut_0 = 0, after running start_0 = 0 and shut_0 = 1 - on_0'),
    (M, 'EAO.C06P.flags_all_steps',
     'feasible 0/1 points, EVERY step (first and last included): the start flag is 1 exactly at off->on, the shutdown flag exactly at on->off'),
    (M, 'EAO.C06P.flags_exact',
     'the same spelled out for every step t < T'),
    (M, 'EAO.C06P.flag_rows_iff',
     'on a 0/1 point the start/shutdown definition rows, the exclusion rows and the flag bounds hold IFF at every step both flags are exact transition indicators'),
    (M, 'EAO.C06P.both_flags_at_last_step_now_rejected',
     'the former witness (Plant with a one-step start profile on two steps, on 11, start 11, shutdown 01; repaired in /repo, e7aae05) is rejected, and no feasible point has start and shutdown flag both 1 at any step'),
    (M, 'EAO.C06P.commit_rows_iff_spec_prof',
     'with shutdown variables, all T / R / D / profile lengths / initial states: a pattern extends to 0/1 start and shutdown flags satisfying the generated definition, exclusion, min-runtime and min-downtime rows and the bool bounds iff it satisfies MinUpDown with the runtime increased by S + Q'),
    (M, 'EAO.C06P.commit_rows_iff_automaton_prof',
     'the same against the automaton, under the guard in steps'),
    (M, 'EAO.C06P.feasible_pattern_respects_spec',
     'every feasible point of the whole generated problem with 0/1 bool values has a pattern respecting the increased minimum runtime, the minimum downtime and the initial state'),
    # (b) heat profile rows
    (M, 'EAO.C06P.heat_profile_rows',
     'reading of the two heat-profile rows of a step: heat_i >= sum slh_j start_{i-j} + sum qlh_j shut_{i+j+1}, and heat_i - m on_i + sum (m - suh_j) start_{i-j} + sum (m - quh_j) shut_{i+j+1} <= 0 with m = max_cap_i / conv_i'),
    (M, 'EAO.C06P.heat_start_profile_bounds',
     'k steps after a start (only that flag set, unit on) the heat lies within the k-th start heat bounds'),
    (M, 'EAO.C06P.heat_shutdown_profile_bounds',
     'k+1 steps before a shutdown the heat lies within the k-th shutdown heat bounds'),
    (M, 'EAO.C06P.heat_outside_ramps',
     'no flag in sight: 0 <= heat_i <= (max_cap_i / conv_i) on_i'),
    (M, 'EAO.C06P.heat_profile_needs_shutdown_heat',
     'heat-profile rows exist only with a heat node and a shutdown heat lower profile'),
    (M, 'EAO.C06P.start_heat_profile_ignored',
     'without shutdown heat lower profile (or heat node) the generated problem is literally independent of the start heat profile (observation P-1)'),
    # (c) _convert_ramp
    (M, 'EAO.C06P.convert_ramp_identity',
     'equal frequency strings, or equal lengths of ramp_freq and the grid step (ramp_freq None on a grid whose step is the main time unit): the profile is returned unchanged'),
    (M, 'EAO.C06P.ramp_freq_none_is_not_identity',
     'machine-checked: ramp_freq None on a half-hourly grid with main unit hour turns [2,4] into [2,2,3,4]'),
    (M, 'EAO.C06P.convert_ramp_coarse',
     'grid coarser than ramp_freq, any ratio ct >= 1: ceil(n/ct) entries, entry i = (whole given steps inside [i ct,(i+1) ct) + cut steps times covered share) / ct over the profile padded with its last value'),
    (M, 'EAO.C06P.convert_ramp_coarse_weights',
     'the cut shares lie in [0,1), the number of whole steps is >= 0 and all weights add up to ct: a weighted mean'),
    (M, 'EAO.C06P.convert_ramp_coarse_int',
     'grid step = m given steps: entry i is the plain average of the given values i m .. i m + m - 1 (tail padded with the last value)'),
    (M, 'EAO.C06P.convert_ramp_coarse_volume',
     'sum of the converted entries times m = sum of the given entries + (ceil(n/m) m - n) times the last value'),
    (M, 'EAO.C06P.convert_ramp_coarse_volume_preserved',
     'm divides n: the total volume is preserved'),
    (M, 'EAO.C06P.convert_ramp_fine',
     'grid finer by a whole factor m >= 2: n m entries, entry k = np.interp at k+1 through the nodes (j+1) m -> ramp_j'),
    (M, 'EAO.C06P.convert_ramp_fine_first',
     'the first m fine steps hold the first given value'),
    (M, 'EAO.C06P.convert_ramp_fine_linear',
     'd < m fine steps after the end of the j-th given step: ramp_j + d (ramp_{j+1} - ramp_j)/m'),
    (M, 'EAO.C06P.convert_ramp_fine_last',
     'the last fine step carries the last given value'),
    (M, 'EAO.C06P.convert_ramp_fine_volume_not_preserved',
     'machine-checked: [2,4] hourly (volume 6) becomes [2,2,3,4] on a half-hourly grid (volume 11/2)'),
    (M, 'EAO.C06P.profile_on_grid_identity',
     'mkProf without conversion: the profiles on the grid are the given bounds times step/unit'),
    (M, 'EAO.C06P.convert_ramp_monotone',
     '_convert_ramp is monotone in the profile (identity, interpolation and averaging branch, any ratio): entry-wise smaller in, entry-wise smaller out, same lengths'),
    (M, 'EAO.C06P.profiles_ordered_on_grid',
     'whatever resolveCHPP returns: start and shutdown profiles on the grid have lower <= upper entry by entry and equal lengths'),
    # (d) ramp rows with any number of flags
    (M, 'EAO.C06P.ramp_rows_general',
     'ramp rows of a step t >= 1 for every feasible point: v_t <= v_{t-1} + ramp on_t + (max_t - ramp) (number of start flags in the window), v_t >= v_{t-1} - ramp on_{t-1} - (max_{t-1} - ramp) (number of shutdown flags in the window)'),
    (M, 'EAO.C06P.ramp_first_lower_general',
     'first-step lower ramp row: v_0 >= (last or last - ramp) - (last - ramp) (sum of the shutdown flags of the first Q steps) (observation P-3)'),
]


# ------------------------------------------------------------------ real-code check of the statements
def spec(R, D, tar, tao, on):
    """`EAO.UC.SpecF` (EAO/Spec/UnitCommit.lean) on a list of booleans"""
    T = len(on)
    for s in range(1, T):
        if on[s] and not on[s - 1] and not all(on[s + k] for k in range(R) if s + k < T):
            return False
        if (not on[s]) and on[s - 1] and any(on[s + k] for k in range(D) if s + k < T):
            return False
    if tar == 0 and T > 0 and on[0] and not all(on[k] for k in range(min(R, T))):
        return False
    if tar > 0 and not all(on[t] for t in range(max(R - tar, 0)) if t < T):
        return False
    if tao == 0 and T > 0 and (not on[0]) and any(on[k] for k in range(min(D, T))):
        return False
    if tao > 0 and any(on[t] for t in range(max(D - tao, 0)) if t < T):
        return False
    return True


def gen_commit(rnd):
    T = rnd.randint(1, 5)
    S, Q = rnd.randint(0, 2), rnd.randint(0, 2)
    if S == 0 and Q == 0:
        S = 1
    mr, md = rnd.randint(0, 3), rnd.randint(0, 3)
    tar = rnd.choice([0, 0, 1, 2, 4])
    tao = 0 if tar > 0 else rnd.choice([0, 1, 2, 3])
    if md > 1 and (tar == 0) == (tao == 0):
        tao = 1 if tar == 0 else 0
    return dict(T=T, S=S, Q=Q, min_runtime=mr, min_downtime=md, tar=tar, tao=tao)


def check_commit(c):
    """disagreement strings for one small plant: all 2^T patterns"""
    T, S, Q = c['T'], c['S'], c['Q']
    kw = {}
    if S:
        kw.update(start_ramp_lower_bounds=[1.] * S, start_ramp_upper_bounds=[2.] * S)
    if Q:
        kw.update(shutdown_ramp_lower_bounds=[1.] * Q, shutdown_ramp_upper_bounds=[2.] * Q)
    tg = eao.assets.Timegrid(dt.datetime(2021, 1, 1), dt.datetime(2021, 1, 1, T), freq='h', main_time_unit='h')
    with Quiet():
        a = eao.assets.Plant(name='p', nodes=eao.assets.Node('n'), min_cap=3., max_cap=10.,
                             min_runtime=c['min_runtime'], min_downtime=c['min_downtime'],
                             time_already_running=c['tar'], time_already_off=c['tao'], **kw)
        op = a.setup_optim_problem({}, tg)
    A, b, ct = op.A.toarray(), op.b, op.cType
    o, st, sh = a.on_idx, a.start_idx, a.shutdown_idx
    rows = [i for i in range(A.shape[0]) if not np.any(A[i, :o] != 0)]
    R, D, tar, tao = c['min_runtime'] + S + Q, c['min_downtime'], c['tar'], c['tao']

    def feasible(x):
        if np.any(x[o:o + 3 * T] < op.l[o:o + 3 * T] - 1e-9) or np.any(x[o:o + 3 * T] > op.u[o:o + 3 * T] + 1e-9):
            return False
        for i in rows:
            v = A[i] @ x
            if (ct[i] == 'U' and v > b[i] + 1e-9) or (ct[i] == 'L' and v < b[i] - 1e-9) or \
                    (ct[i] in 'SN' and abs(v - b[i]) > 1e-9):
                return False
        return True

    out, n = [], 0
    for on in itertools.product([0, 1], repeat=T):
        found = []
        for fl in itertools.product([0, 1], repeat=2 * T):
            x = np.zeros(A.shape[1])
            x[o:o + T], x[st:st + T], x[sh:sh + T] = on, fl[:T], fl[T:]
            if feasible(x):
                found.append(fl)
        n += 1
        if bool(found) != spec(R, D, tar, tao, [bool(v) for v in on]):
            out.append('pattern %s of %s: rows %s, specification %s' % (on, c, bool(found), not bool(found)))
        # flags of every extension: exact at every step
        for fl in found:
            for t in range(T):
                s_exp = (tar == 0 and on[0] == 1) if t == 0 else (on[t - 1] == 0 and on[t] == 1)
                q_exp = (tar != 0 and on[0] == 0) if t == 0 else (on[t - 1] == 1 and on[t] == 0)
                exact = fl[t] == int(s_exp) and fl[T + t] == int(q_exp)
                if not exact:
                    out.append('flags %s of pattern %s of %s at step %d are not the transition indicators' % (fl, on, c, t))
    return n, out


def convert(ramp, grid_freq, ramp_freq, unit='h'):
    tg = eao.assets.Timegrid(dt.date(2021, 1, 1), dt.date(2021, 1, 3), freq=grid_freq, main_time_unit=unit)
    with Quiet():
        a = eao.assets.Plant(name='p', nodes=eao.assets.Node('n'), min_cap=1., max_cap=10.,
                             start_ramp_lower_bounds=ramp, start_ramp_upper_bounds=ramp, ramp_freq=ramp_freq)
        a.set_timegrid(tg)
        return [float(v) for v in a._convert_ramp(ramp, ramp_freq if ramp_freq is not None else tg.main_time_unit)]


COARSE = [('h', '15min', 4), ('h', '30min', 2), ('2h', 'h', 2), ('4h', 'h', 4), ('d', 'h', 24), ('h', '60min', 1), ('h', None, 1)]
FINE = [('15min', 'h', 4), ('30min', 'h', 2), ('h', '2h', 2), ('h', '4h', 4), ('h', 'd', 24), ('30min', None, 2)]


def check_ramp(rnd):
    out = []
    n = rnd.randint(1, 9)
    ramp = [rnd.randint(0, 40) / 8 for _ in range(n)]
    gf, rf, m = rnd.choice(COARSE)
    got = convert(ramp, gf, rf)
    padded = ramp + [ramp[-1]] * m
    N = (n + m - 1) // m
    exp = [sum(padded[i * m:(i + 1) * m]) / m for i in range(N)]
    if len(got) != len(exp) or any(abs(g - e) > 1e-12 for g, e in zip(got, exp)):
        out.append('coarse %s/%s %s: %s expected %s' % (gf, rf, ramp, got, exp))
    if abs(sum(got) * m - (sum(ramp) + (N * m - n) * ramp[-1])) > 1e-9:
        out.append('coarse volume %s/%s %s' % (gf, rf, ramp))
    gf, rf, m = rnd.choice(FINE)
    ramp = ramp[:6]
    n = len(ramp)
    got = convert(ramp, gf, rf)
    exp = []
    for k in range(n * m):
        x = k + 1
        j, d = x // m - 1, x % m
        exp.append(ramp[0] if x <= m else (ramp[j] + d * ((ramp[j + 1] - ramp[j]) / m) if j + 1 < n else ramp[n - 1]))
    if len(got) != len(exp) or any(abs(g - e) > 1e-12 for g, e in zip(got, exp)):
        out.append('fine %s/%s %s: %s expected %s' % (gf, rf, ramp, got, exp))
    return out


def selftest(n=200, seed=1, drv=None):
    """n plants (all patterns each) and n profiles; returns counts and the disagreements (expected: none)"""
    rnd = random.Random(seed)
    tot = {'cases': 0, 'patterns': 0, 'ramp_cases': 0, 'disagreements': [], 'errors': []}
    for i in range(n):
        sub = random.Random(rnd.getrandbits(48))
        c = gen_commit(sub)
        try:
            k, out = check_commit(c)
            tot['cases'] += 1
            tot['patterns'] += k
            tot['disagreements'] += out
            tot['disagreements'] += check_ramp(sub)
            tot['ramp_cases'] += 2
        except Exception as e:                                   # pragma: no cover
            tot['errors'].append((i, c, '%s: %s' % (type(e).__name__, e)))
    return tot


if __name__ == '__main__':
    import sys
    r = selftest(int(sys.argv[1]) if len(sys.argv) > 1 else 200, int(sys.argv[2]) if len(sys.argv) > 2 else 1)
    print({k: (v if not isinstance(v, list) else len(v)) for k, v in r.items()})
    for d in r['disagreements'][:10] + r['errors'][:10]:
        print(d)
