"""C18 on LIVE problem objects: the re-optimisation a user does who HOLDS the assembled problem.

The statement of C18 compares two optimisations: the original one (value V, reported nodal prices) and the re-optimisation with an
extra injection d at a (node, step).  The other streams of the check obtain the second problem from a deep copy of the freshly
assembled problem or from a re-built portfolio.  A user who holds the OptimProblem does neither: he optimises, changes the
right-hand side of the nodal row - `op.b[row] -= d` in place, or `op.b = new array` - and optimises THE SAME OBJECT again (or a
deep copy / a pickle round trip of it taken after the first solve, which carries along whatever the object keeps from earlier
calls); in a sensitivity study he also changes other data between two solves (a cost, a bound, the right-hand side or a
coefficient of an asset's row), reads the prices of the new solve and perturbs again.

A case is a small LP portfolio plus a SCRIPT drawn from the seed (positions as fractions, resolved after the set-up):

  inject   b[nodal row of (t, n)] lowered by d (item assignment, in-place subtraction, or a new array bound to op.b), solve with a
           drawn solver, judge the statement against the BASE (value and price table of the last solve of the problem without the
           injection); then restore (in place or by a new array; with or without a solve), or keep the injected problem as the new base
  edit     a cost, a lower / upper bound, the right-hand side of a non-nodal row, or a coefficient of a non-nodal row changed
           (in place or by replacing the array / matrix), solve: new base (value, prices read by io.extract_output from the held
           object and the new result); an edit that leaves no optimum (infeasible, unbounded) is taken back the same way
  holder   the next calls are made on a deepcopy / a pickle round trip of the object as it stands

Oracles (all on the real code):
  nodal_price_live            the property's own statement: value returned by the re-optimisation of the HELD object <= V + price*d;
                              the same for the value of a freshly constructed OptimProblem carrying the same data (on = 'fresh')
  nodal_price_reoptimisation  the re-optimisation of the held object returns the optimum of the problem as it stands: equal to the
                              value of a freshly constructed OptimProblem with the same data and the same solver (without this
                              "the re-optimised value" of the statement is not what the user gets)
  nodal_price_gap             exact Lagrangian gap (driver op lagrangian, rationals) of the price table reported for a solve of the held
                              object, against the data the object holds at that time (theorem EAO.C18.price_supergradient)
"""
import copy
import pickle
import random
import warnings

import numpy as np
import scipy.sparse as sp

from .. import gen, pf, impl
from ..lean import fs
from fractions import Fraction

KINDS = ['simple', 'contract', 'transport', 'ext_transport', 'storage', 'storage2', 'multi', 'orderbook', 'scaled', 'structured']
HOWS = ['item', 'isub', 'replace', 'item', 'isub', 'replace', 'slice']
SOLVERS = [None, None, None, 'SCIPY', 'CLARABEL']
HOLDERS = ['deepcopy', 'deepcopy', 'pickle', 'copy_copy']
EDIT_KINDS = ['cost', 'cost', 'lower', 'upper', 'rhs', 'rhs', 'coef']
DS = [0.125, 0.25, 0.25, 0.5, 1.0]


# ------------------------------------------------------------------ generation
def gen_script(rnd):
    """a call sequence on the held object: where the holder changes (if at all), injections in pairs of both signs at one
    (node, step) and single ones, other edits in between"""
    script = []
    n_blocks = rnd.randint(2, 4)
    holder_at = rnd.choice([None, 0, 0, 1, 1, 2])
    for k in range(n_blocks):
        if holder_at == k:
            script.append({'op': 'holder', 'kind': rnd.choice(HOLDERS)})
        if k > 0 and rnd.random() < 0.55:
            script.append({'op': 'edit', 'kind': rnd.choice(EDIT_KINDS), 'u': rnd.random(), 'v': rnd.random(), 'sgn': rnd.choice([-1, 1]),
                           'how': rnd.choice(HOWS[:6]), 'solver': rnd.choice(SOLVERS)})
        u, d = rnd.random(), rnd.choice([1, -1]) * rnd.choice(DS)
        form = rnd.choice(['pair', 'pair', 'pair', 'single', 'keep'])
        if form == 'pair':
            # both signs at one (node, step), the right-hand side restored in between
            script.append({'op': 'inject', 'u': u, 'd': d, 'how': rnd.choice(HOWS), 'solver': rnd.choice(SOLVERS),
                           'then': rnd.choice(['restore', 'restore', 'restore_solve']), 'how_back': rnd.choice(HOWS)})
            script.append({'op': 'inject', 'u': u, 'd': -d, 'how': rnd.choice(HOWS), 'solver': rnd.choice(SOLVERS),
                           'then': rnd.choice(['restore', 'restore', 'restore_solve']), 'how_back': rnd.choice(HOWS)})
        elif form == 'single':
            script.append({'op': 'inject', 'u': u, 'd': d, 'how': rnd.choice(HOWS), 'solver': rnd.choice(SOLVERS),
                           'then': rnd.choice(['restore', 'restore_solve']), 'how_back': rnd.choice(HOWS)})
        else:
            # the injected problem becomes the base: its own prices are judged by the injections that follow
            script.append({'op': 'inject', 'u': u, 'd': d, 'how': rnd.choice(HOWS), 'solver': rnd.choice(SOLVERS), 'then': 'keep', 'how_back': 'item'})
            u2, d2 = rnd.random(), rnd.choice([1, -1]) * rnd.choice(DS)
            for dd in (d2, -d2):
                script.append({'op': 'inject', 'u': u2, 'd': dd, 'how': rnd.choice(HOWS), 'solver': rnd.choice(SOLVERS),
                               'then': 'restore', 'how_back': rnd.choice(HOWS)})
    return script


def gen_case(rnd, tier='quick'):
    r = random.Random(rnd.getrandbits(48))
    s = gen.gen_portfolio(r, tmin=2, tmax=7 if tier == 'quick' else 12, allow_mip=False, tz_prob=0.05, kinds=KINDS, nodes_max=3, max_assets=4)
    return {'scn': s, 'first_solver': r.choice(SOLVERS), 'script': gen_script(r)}


# ------------------------------------------------------------------ the held object
def set_vec(obj, name, j, v, how):
    """obj.<name>[j] = v the way `how` says: item assignment, in-place subtraction of the difference, assignment to a slice of
    length one, or a new array bound to the attribute.  In place only where the attribute is a writeable float array (else a
    new array: an in-place edit of an integer array would truncate).  Returns how it was done"""
    arr = getattr(obj, name)
    inplace_ok = isinstance(arr, np.ndarray) and arr.dtype.kind == 'f' and arr.flags.writeable
    if how == 'replace' or not inplace_ok:
        new = np.array(arr, dtype=float)
        new[j] = v
        setattr(obj, name, new)
        return 'replace'
    if how == 'isub':
        arr[j] -= (arr[j] - v)
        if arr[j] != v:          # rounding of the subtraction: the data are what the script says
            arr[j] = v
        return 'isub'
    if how == 'slice':
        arr[j:j + 1] = [v]
        return 'slice'
    arr[j] = v
    return 'item'


def fresh_problem(live):
    """a newly constructed OptimProblem carrying the data the held object has now (copies of everything; nothing else of the object)"""
    import eaopack as eao
    A = None if live.A is None else sp.lil_matrix(live.A, copy=True)
    return eao.optimization.OptimProblem(c=np.array(live.c, dtype=float), l=np.array(live.l, dtype=float), u=np.array(live.u, dtype=float),
                                         A=A, b=None if live.b is None else np.array(live.b, dtype=float),
                                         cType=''.join(live.cType) if live.cType is not None else None,
                                         mapping=live.mapping.copy(), map_nodal_restr=[(t, n) for (t, n) in live.map_nodal_restr])


def solve(op, solver):
    """Results, or a string where there is no optimum to report"""
    try:
        return impl.solve(op, solver=solver)
    except Exception as e:
        if type(e).__name__ != 'SolverError':
            raise
        try:
            return impl.solve(op, solver='SCIPY')
        except Exception:
            return 'solver error'


def solve_pair(live, solver):
    """the held object and a fresh problem with the same data, same solver.  Where exactly one of the two reports an optimum the
    pair is repeated with HiGHS (a borderline status of an interior-point run is no finding)"""
    got = solve(live, solver)
    ref = solve(fresh_problem(live), solver)
    if isinstance(got, str) != isinstance(ref, str) and solver != 'SCIPY':
        got = solve(live, 'SCIPY')
        ref = solve(fresh_problem(live), 'SCIPY')
    return got, ref


def change_holder(live, kind):
    if kind == 'pickle':
        try:
            return pickle.loads(pickle.dumps(live)), 'pickle'
        except Exception:
            return copy.deepcopy(live), 'deepcopy'
    if kind == 'copy_copy':
        # a shallow copy whose arrays and matrix are then copied one by one (what a cautious user writes instead of deepcopy)
        cp = copy.copy(live)
        cp.c, cp.l, cp.u = np.array(live.c), np.array(live.l), np.array(live.u)
        cp.b = None if live.b is None else np.array(live.b)
        cp.A = None if live.A is None else live.A.copy()
        cp.mapping = live.mapping.copy()
        return cp, 'copy_copy'
    return copy.deepcopy(live), 'deepcopy'


def nodal_rows(op):
    rows = [i for i, k in enumerate(op.cType) if k == 'N']
    return rows[len(rows) - len(op.map_nodal_restr):]


def _mag(v):
    return max(0.5, 2.0 ** round(float(np.log2(abs(v)))) if v else 0.5)


def apply_edit(live, st):
    """applies the edit of script step `st` to the held object; returns (description, undo) or (None, None) where there is nothing
    to edit.  Every edit keeps the problem well formed (l <= u, shapes)"""
    kind, u, v, sgn, how = st['kind'], st['u'], st['v'], st['sgn'], st['how']
    n = len(live.c)
    step = [0.125, 0.25, 0.5, 1.0][int(v * 4) % 4]
    if kind == 'cost':
        j = int(u * n)
        old = float(live.c[j])
        new = -old if (old and v > 0.85) else old + sgn * step * _mag(old)
        done = set_vec(live, 'c', j, new, how)
        return {'kind': kind, 'var': j, 'old': old, 'new': new, 'how': done}, (lambda: set_vec(live, 'c', j, old, how))
    if kind in ('lower', 'upper'):
        cand = [j for j in range(n) if np.isfinite(live.l[j]) and np.isfinite(live.u[j])]
        if not cand:
            return None, None
        j = cand[int(u * len(cand))]
        lo, hi = float(live.l[j]), float(live.u[j])
        name = 'l' if kind == 'lower' else 'u'
        old = lo if kind == 'lower' else hi
        if hi > lo and v < 0.7:
            new = lo + [0.25, 0.5, 0.75][int(v * 10) % 3] * (hi - lo)        # tightened
        else:
            new = (lo - step * _mag(lo)) if kind == 'lower' else (hi + step * _mag(hi))   # widened
        done = set_vec(live, name, j, new, how)
        return {'kind': kind, 'var': j, 'old': old, 'new': new, 'how': done}, (lambda: set_vec(live, name, j, old, how))
    m = live.A.shape[0] if live.A is not None else 0
    own = set(nodal_rows(live))
    cand = [i for i in range(m) if i not in own]
    if not cand:
        return None, None
    i = cand[int(u * len(cand))]
    if kind == 'rhs':
        old = float(live.b[i])
        new = old + sgn * step * _mag(old)
        done = set_vec(live, 'b', i, new, how)
        return {'kind': kind, 'row': i, 'row_kind': live.cType[i], 'old': old, 'new': new, 'how': done}, (lambda: set_vec(live, 'b', i, old, how))
    # coef: a coefficient of an asset's row (an efficiency, a factor) scaled
    row = sp.csr_matrix(live.A)[i]
    if not row.nnz:
        return None, None
    j = int(row.indices[int(v * row.nnz) % row.nnz])
    old = float(row[0, j])
    new = old * [0.5, 0.75, 1.25, 1.5][int(u * 97) % 4]

    def put(val):
        with warnings.catch_warnings():
            warnings.simplefilter('ignore')
            if how != 'replace' and (sp.isspmatrix_lil(live.A) or sp.isspmatrix_csr(live.A) or sp.isspmatrix_csc(live.A)):
                live.A[i, j] = val
                return 'in-place:' + type(live.A).__name__
            A2 = sp.lil_matrix(live.A, copy=True)
            A2[i, j] = val
            live.A = A2
            return 'replace'
    done = put(new)
    return {'kind': kind, 'row': i, 'row_kind': live.cType[i], 'var': j, 'old': old, 'new': new, 'how': done}, (lambda: put(old))


# ------------------------------------------------------------------ run
def read_base(rec, live, res, drv, multipliers, r, where, solver):
    """value and price table of a solve of the held object, as the user reads them (io.extract_output with the held object and the
    result), plus the exact gap of that table against the data the object holds now.  None where no table can be read"""
    import eaopack as eao
    if isinstance(res, str) or res.duals is None or res.duals.get('N') is None:
        return None
    with impl.Quiet():
        out = eao.io.extract_output(rec['portf'], live, res, rec['prices'])
    pr = out['prices']
    prices = {}
    for (t, n) in live.map_nodal_restr:
        col = 'nodal price: ' + str(n)
        if col not in pr.columns:
            r['violations'].append({'oracle': 'nodal_price_table', 'detail': 'no price column for node %s (%s)' % (n, where), 'facts': {'what': 'missing_column', 'stream': 'live'}})
            return None
        prices[(int(t), str(n))] = float(pr[col].values[int(t)])
    V = float(res.value)
    tol = 2e-6 * max(1.0, abs(V), float(np.abs(live.c).max()) * float(np.abs(res.x).max() if len(res.x) else 1))
    y = multipliers(live, res, prices)
    m = drv.ok({'op': 'lagrangian', 'problem': impl.problem_json(live), 'y': [fs(v) for v in y]})
    if not m['signok']:
        r['disagreements'].append({'component': 'lagrangian', 'detail': 'multiplier vector not sign-correct (%s)' % where})
    gap = float(Fraction(m['ub']) - Fraction(V))
    if gap > tol:
        r['violations'].append({'oracle': 'nodal_price_gap',
                                'detail': '%s: the nodal prices read from this solve of the held object leave an exact Lagrangian gap of %.6g against the data the object holds '
                                          '(value %.8g, tolerance %.2g): they are not marginal values of the optimum' % (where, gap, V, tol),
                                'facts': {'what': 'gap_live', 'stream': 'live'}})
    return {'V': V, 'prices': prices, 'tol': tol}


def run_case(case, drv, multipliers):
    r = {'evaluated': 1, 'nontrivial': False, 'features': ['stream:live'], 'disagreements': [], 'violations': []}
    feats = r['features']
    scn = case['scn']
    for a in scn['assets']:
        feats.append('asset:' + a['type'])
    try:
        rec = pf.setup_mono(scn)
    except Exception as e:
        feats.append('setup-error:' + impl.err_class(e))
        return r
    live = rec['op']
    if pf.is_mip(live):
        feats.append('skip:mip')
        return r
    if len(live.c) == 0 or live.A is None or not len(live.map_nodal_restr):
        feats.append('skip:no-nodal-row')
        return r
    nN, nrec = live.cType.count('N'), len(live.map_nodal_restr)
    if nN != nrec or len(live.cType) - len(live.cType.rstrip('N')) != nN:
        feats.append('nodal-record-mismatch')      # reported by the main stream (tie `nodal record`)
        return r
    stmt, other = [], []          # violations of the statement first
    holder = 'same object'
    hist = []                     # what was done to the held object so far (for the report)
    base = read_base(rec, live, solve(live, case.get('first_solver')), drv, multipliers, r, 'first solve', case.get('first_solver'))
    if base is None:
        feats.append('unsolved')
        return r
    solved_inj = 0
    n_solves = 1                  # calls of optimize() on the held object so far
    for k, st in enumerate(case['script']):
        if st['op'] == 'holder':
            live, done = change_holder(live, st['kind'])
            holder = done + ' of the object taken after %d solve(s)' % n_solves
            feats.append('holder:' + done)
            hist.append({'step': k, 'holder': done})
            continue
        solver = st.get('solver')
        if st['op'] == 'edit':
            desc, undo = apply_edit(live, st)
            if desc is None:
                continue
            desc['step'] = k
            got, ref = solve_pair(live, solver)
            n_solves += 1
            r['evaluated'] += 1
            feats.append('edit:%s:%s' % (desc['kind'], desc['how'].split(':')[0]))
            if isinstance(got, str) and isinstance(ref, str):
                undo()
                feats.append('edit-without-optimum')
                hist.append(dict(desc, kind=desc['kind'] + ' (no optimum, taken back)'))
                continue
            hist.append(desc)
            if isinstance(got, str) != isinstance(ref, str):
                other.append(reopt_violation(holder, hist, got, ref, base['tol'], solver))
                break
            if abs(float(got.value) - float(ref.value)) > max(base['tol'], 2e-6 * abs(float(ref.value))):
                other.append(reopt_violation(holder, hist, got, ref, base['tol'], solver))
            nb = read_base(rec, live, got, drv, multipliers, r, 'step %d on the %s after %s' % (k, holder, short(desc)), solver)
            if nb is None:
                break
            base = nb
            continue
        # inject
        rows = nodal_rows(live)
        kk = min(len(rows) - 1, int(st['u'] * len(rows)))
        t, n = live.map_nodal_restr[kk]
        t, n = int(t), str(n)
        row, d = rows[kk], float(st['d'])
        price, V, tol = base['prices'][(t, n)], base['V'], base['tol']
        old = float(live.b[row])
        done = set_vec(live, 'b', row, old - d, st['how'])      # injection d at the node: the assets together take d more out
        got, ref = solve_pair(live, solver)
        n_solves += 1
        r['evaluated'] += 1
        feats.append('inject:' + done)
        desc = {'step': k, 'kind': 'inject', 'node': n, 'time_step': t, 'row': row, 'd': d, 'old': old, 'new': old - d, 'how': done}
        if isinstance(got, str) and isinstance(ref, str):
            feats.append('inject-infeasible')
        elif isinstance(got, str) != isinstance(ref, str):
            other.append(reopt_violation(holder, hist + [desc], got, ref, tol, solver))
        else:
            solved_inj += 1
            gv, rv = float(got.value), float(ref.value)
            for on, val in (('held', gv), ('fresh', rv)):
                if val > V + price * d + tol:
                    stmt.append({'oracle': 'nodal_price_live',
                                 'detail': '%s, step %d of the call sequence: right-hand side of the nodal row %d (node %s, step %d) changed from %g to %g (%s) = injection %+g; '
                                           'optimize() of %s returns value %.10g which exceeds V + price*d = %.10g + %.8g*%g = %.10g by %.4g (tolerance %.2g); '
                                           'value of the held object %.10g, of a freshly constructed OptimProblem with the same data %.10g; before: %s' % (
                                               holder, k, row, n, t, old, old - d, done, d, 'the held object' if on == 'held' else 'a freshly constructed OptimProblem with the same data',
                                               val, V, price, d, V + price * d, val - (V + price * d), tol, gv, rv, '; '.join(short(h) for h in hist) or 'first solve only'),
                                 'facts': {'what': 'supergradient_live', 'on': on, 'sign': 'pos' if d > 0 else 'neg', 'how': done, 'holder': holder.split(' ')[0],
                                           'edited_before': sorted(set(h['kind'] for h in hist if h.get('kind') not in (None, 'inject')))}})
                    break
            if abs(gv - rv) > max(tol, 2e-6 * abs(rv)):
                other.append(reopt_violation(holder, hist + [desc], got, ref, tol, solver))
        if st['then'] == 'keep' and not isinstance(got, str) and not isinstance(ref, str):
            hist.append(desc)
            nb = read_base(rec, live, got, drv, multipliers, r, 'step %d on the %s after %s' % (k, holder, short(desc)), solver)
            if nb is None:
                break
            base = nb
            continue
        back = set_vec(live, 'b', row, old, st['how_back'])
        hist.append({'step': k, 'kind': 'inject+restore', 'node': n, 'time_step': t, 'd': d, 'how': done + '/' + back, 'solved': st['then'] == 'restore_solve'})
        if st['then'] == 'restore_solve':
            res = solve(live, solver)
            n_solves += 1
            r['evaluated'] += 1
            # the statement with d = 0: the problem is the base problem again
            if not isinstance(res, str) and abs(float(res.value) - V) > tol:
                other.append({'oracle': 'nodal_price_reoptimisation',
                              'detail': '%s, step %d: right-hand side of nodal row %d restored to %g (%s) after an injection %+g: optimize() returns %.10g, the value of this problem before was %.10g; before: %s' % (
                                  holder, k, row, old, back, d, float(res.value), V, '; '.join(short(h) for h in hist[:-1]) or 'first solve only'),
                              'facts': {'what': 'restore', 'stream': 'live'}})
            nb = read_base(rec, live, res, drv, multipliers, r, 'step %d on the %s after restoring the right-hand side' % (k, holder), solver)
            if nb is None:
                break
            base = nb
    r['violations'] = stmt + r['violations'] + other
    vals = list(base['prices'].values())
    r['nontrivial'] = len(set(round(v, 6) for v in vals)) >= 2 and solved_inj > 0
    feats.append('solved')
    return r


def short(h):
    if 'holder' in h:
        return 'step %d: %s' % (h['step'], h['holder'])
    if h.get('kind') == 'inject':
        return 'step %d: injection %+g at (%s, %d) kept (%s)' % (h['step'], h['d'], h['node'], h['time_step'], h['how'])
    if h.get('kind') == 'inject+restore':
        return 'step %d: injection %+g at (%s, %d) solved, restored%s (%s)' % (h['step'], h['d'], h['node'], h['time_step'], ' and solved' if h.get('solved') else '', h['how'])
    where = ('var %d' % h['var']) if 'row' not in h else ('row %d (%s)%s' % (h['row'], h.get('row_kind'), (' var %d' % h['var']) if 'var' in h else ''))
    return 'step %s: %s of %s %g -> %g (%s)' % (h.get('step'), h.get('kind'), where, h.get('old'), h.get('new'), h.get('how'))


def reopt_violation(holder, hist, got, ref, tol, solver):
    sv = lambda x: ('no optimum (%s)' % x) if isinstance(x, str) else ('%.10g' % float(x.value))
    return {'oracle': 'nodal_price_reoptimisation',
            'detail': '%s: after %s the re-optimisation of the held object gives %s, a freshly constructed OptimProblem carrying the same data gives %s (solver %s, tolerance %.2g): '
                      'the held object is not optimised as it stands' % (holder, '; '.join(short(h) for h in hist), sv(got), sv(ref), solver, tol),
            'facts': {'what': 'held_vs_fresh', 'stream': 'live', 'last': hist[-1].get('kind') if hist else None, 'how': hist[-1].get('how') if hist else None}}
