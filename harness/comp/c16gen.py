"""Further generated streams of property C16 (scaled and structured assets); cases are the plain JSON cases of comp/scaled.py
(kind 'scaled' | 'structured') and run through its correspondence and oracles unchanged.

  stream `freeobl`  scaled assets with a FREE scale (min_scale < max_scale) over base assets that carry an OBLIGATION - a contract
                    that must take (min_cap > 0) or must deliver (max_cap < 0), a minimum take (min_take > 0) or a minimum delivery
                    (max_take < 0) over a period, a storage that has to end fuller than it starts (or emptier, or has an inflow it
                    cannot keep), a transport / multi-commodity contract with a forced flow, the same inside a structured asset - so
                    that size is not for free even when capacity costs nothing: a SMALLER size may be strictly better.  The cost
                    settings are the degenerate ones: fix_costs exactly 0 (float or int), tiny, negative (a premium per size),
                    fix_costs 0 together with an own window / wacc, min_scale 0.  Oracles (comp/scaled.py): every scanned fixed scale
                    of the allowed range - both end points included - against the base with all capacities * s/norm, and the free
                    optimum against the best of the scan and against the base rescaled to the reported scale.

  stream `tzwin`    structured assets (and scaled assets) whose own window and whose wrapped assets' own windows are given as
                    zone-AWARE dates written in DIFFERENT zones (UTC stamps, the local zone of the grid, zones further east / west,
                    half-hour offsets) on zone-aware grids (with and without a daylight-saving switch inside), the wrapped assets'
                    boundaries drawn CLOSE to the wrapper's (within a few steps, on and between grid points) so that the order of two
                    boundaries as points in time and the order of their wall-clock readings differ.  The flat reference portfolio gets
                    the windows intersected by hand BY INSTANT (comp/scaled._intersect_window).

  stream `wrapargs` scaled assets whose WRAPPER is given the keyword arguments it inherits from Asset next to its scale parameters
                    (ScaledAsset.__init__ accepts start, end, wacc; not freq / profile) together with fixed costs that are there, on
                    horizons on which such an argument could show (three weeks to nine months, steps of half a day to a week): a
                    wacc on the wrapper only / the base only / both (same, different) / every asset of the portfolio / nobody, own
                    windows of wrapper and base, scale fixed or free.  The reference of the oracles (comp/scaled.py) is computed from
                    the scenario alone: plain portfolio with the rescaled base (which keeps its own wacc) less s * fix_costs *
                    duration, the duration from the instants of the grid (comp/scaled.window_duration); the cost vectors for price
                    samples (Portfolio.create_cost_samples) are valued against the same reference.
"""
import copy
import math
import random

import pandas as pd

from . import scaled as SC   # (first: puts the package under test on the path)
from .. import gen, scen   # noqa: E402

# ------------------------------------------------------------------ stream `freeobl`
OBLIGATIONS = ['must_take', 'must_take', 'must_give', 'min_take', 'min_take', 'max_take_neg', 'fill', 'fill', 'drain', 'inflow',
               'must_flow', 'multi', 'structured', 'structured_fill']


def _up8(x):
    """rounded up to a multiple of 1/8 (inputs stay small dyadic numbers)"""
    return math.ceil(float(x) * 8 - 1e-9) / 8.0


def _duration(tg):
    return float(sum(tg.dt))


def _cover(g):
    """start / end of a take period covering the horizon (naive local dates), its length in main time units"""
    T = g['T_nominal']
    s, e = gen.P(g, 0), gen.P(g, T)
    if not (gen.ok_local(s, g) and gen.ok_local(e, g)):
        return None
    unit = pd.Timedelta(1, g.get('unit', 'h'))
    return s, e, float((e - s) / unit)


def _band(rnd, g, prices, T, lo_rng, width_rng, sign=1.0):
    """(min_cap, max_cap) of a contract forced to one side: sign +1: 0 < min_cap <= max_cap, sign -1: min_cap <= max_cap < 0;
    scalars, price keys (a profile per step) or an interval dict on one side"""
    lo = gen.q8(rnd, *lo_rng)
    hi = lo + gen.q8(rnd, *width_rng)
    form = rnd.choice(['scalar', 'scalar', 'scalar', 'key', 'dict'])
    if form == 'scalar':
        a, b = lo, hi
    elif form == 'key':
        k1, k2 = 'cap%d' % len(prices), 'cap%d' % (len(prices) + 1)
        prices[k1] = [gen.q8(rnd, lo_rng[0], lo) for _ in range(T)]
        prices[k2] = [hi + gen.q8(rnd, 0, 1) for _ in range(T)]
        a, b = k1, k2
    else:
        a, b = lo, gen.interval_dict(rnd, g, hi, hi + 2)
    if sign > 0:
        return a, b
    return _neg(b, prices), _neg(a, prices)


def _neg(v, prices):
    if isinstance(v, str):
        k = v + 'n'
        prices[k] = [-float(x) for x in prices[v]]
        return k
    if isinstance(v, dict):
        d = copy.deepcopy(v)
        d['values'] = [-float(x) for x in d['values']]
        return d
    return -float(v)


def _costs(rnd, g, prices, T, args, lo=-4, hi=20):
    """price and extra costs of a contract: anywhere relative to the market, so that the obligation is dear, cheap or mixed"""
    if rnd.random() < 0.9:
        args['price'] = gen.price_key(rnd, prices, T, lo, hi)
    if rnd.random() < 0.3:
        args['extra_costs'] = gen.q8(rnd, 0.125, 2)


def gen_obligation(rnd, g, tg, prices, T, kind, name, node_names):
    """specification of a base asset that cannot idle"""
    node = rnd.choice(node_names)
    two = rnd.sample(node_names, 2) if len(node_names) >= 2 else None
    D = _duration(tg)
    if kind in ('must_flow', 'multi') and not two:
        kind = rnd.choice(['must_take', 'must_give'])
    if kind in ('min_take', 'max_take_neg') and _cover(g) is None:
        kind = 'must_take'
    if kind in ('must_take', 'must_give'):
        args = {}
        args['min_cap'], args['max_cap'] = _band(rnd, g, prices, T, (0.25, 3), (0, 3), 1.0 if kind == 'must_take' else -1.0)
        _costs(rnd, g, prices, T, args)
        return {'type': 'SimpleContract', 'name': name, 'nodes': [node], 'args': args}
    if kind in ('min_take', 'max_take_neg'):
        # a volume that has to be taken (delivered) over the horizon: between a share of and all the contract can do
        s, e, L = _cover(g)
        cap = gen.q8(rnd, 1, 5)
        share = rnd.choice([0.25, 0.5, 0.75, 1.0])
        vol = cap * share * L
        args = {}
        if kind == 'min_take':
            args['min_cap'], args['max_cap'] = rnd.choice([0.0, 0.0, -1.0]), cap
            args['min_take'] = {'start': [gen.dtv(s)], 'end': [gen.dtv(e)], 'values': [vol]}
            if rnd.random() < 0.3:
                args['max_take'] = {'start': [gen.dtv(s)], 'end': [gen.dtv(e)], 'values': [vol + gen.q8(rnd, 0, 4)]}
        else:
            args['min_cap'], args['max_cap'] = -cap, rnd.choice([0.0, 0.0, 1.0])
            args['max_take'] = {'start': [gen.dtv(s)], 'end': [gen.dtv(e)], 'values': [-vol]}
        _costs(rnd, g, prices, T, args)
        return {'type': 'Contract', 'name': name, 'nodes': [node], 'args': args}
    if kind in ('fill', 'drain', 'inflow'):
        size = gen.q8(rnd, 2, 8)
        a, b = sorted([gen.q8(rnd, 0, size), gen.q8(rnd, 0, size)])
        if a == b:
            a, b = 0.0, size
        eff = rnd.choice([1.0, 1.0, 0.5, 0.75, 0.875])
        need = (b - a) / max(D, 1e-9)
        args = {'size': size}
        if kind == 'fill':      # must end fuller than it starts: has to buy (b - a)/eff, whatever the prices
            args.update({'start_level': a, 'end_level': b, 'cap_in': _up8(need / eff * rnd.choice([1.0, 1.5, 2.0, 4.0])), 'cap_out': gen.q8(rnd, 0, 4)})
        elif kind == 'drain':   # must end emptier
            args.update({'start_level': b, 'end_level': a, 'cap_out': _up8(need * rnd.choice([1.0, 1.5, 2.0, 4.0])), 'cap_in': gen.q8(rnd, 0, 4)})
        else:                   # an inflow the storage cannot keep: it has to be released, whatever the prices
            lvl = gen.q8(rnd, 0, size)
            infl = gen.q8(rnd, 0.25, 2)
            args.update({'start_level': lvl, 'end_level': lvl, 'inflow': infl, 'cap_out': _up8(infl * rnd.choice([1.0, 1.5, 3.0])), 'cap_in': gen.q8(rnd, 0, 2)})
        if eff != 1.0:
            args['eff_in'] = eff
        if rnd.random() < 0.4:
            args['cost_in'] = gen.q8(rnd, 0, 2)
        if rnd.random() < 0.4:
            args['cost_out'] = gen.q8(rnd, 0, 2)
        if rnd.random() < 0.3:
            args['cost_store'] = gen.q8(rnd, 0, 0.5)
        nodes = [node]
        if two and rnd.random() < 0.3:
            nodes = two
        return {'type': 'Storage', 'name': name, 'nodes': nodes, 'args': args}
    if kind == 'must_flow':
        lo = gen.q8(rnd, 0.25, 3)
        args = {'min_cap': lo, 'max_cap': lo + gen.q8(rnd, 0, 3)}
        if rnd.random() < 0.7:
            args['efficiency'] = rnd.choice([0.5, 0.75, 0.875, 0.25])
        if rnd.random() < 0.6:
            args['costs_const'] = gen.q8(rnd, 0.125, 2)
        t = 'Transport'
        if rnd.random() < 0.3:
            t = 'ExtendedTransport'
        return {'type': t, 'name': name, 'nodes': two, 'args': args}
    if kind == 'multi':
        args = {}
        args['min_cap'], args['max_cap'] = _band(rnd, g, prices, T, (0.25, 3), (0, 3), rnd.choice([1.0, -1.0]))
        _costs(rnd, g, prices, T, args)
        args['factors_commodities'] = [rnd.choice([1.0, 0.5, -1.0, 2.0, 0.25, -0.5]) for _ in two]
        return {'type': 'MultiCommodityContract', 'name': name, 'nodes': two, 'args': args}
    # the obligation sits at an internal node of a wrapped sub-portfolio, behind a line wide enough to carry it
    ni = name + '_i1'
    ik = 'fill' if kind == 'structured_fill' else rnd.choice(['must_take', 'must_give', 'min_take'])
    ob = gen_obligation(rnd, g, tg, prices, T, ik, name + '_o', [ni])
    line = {'type': 'Transport', 'name': name + '_tr', 'nodes': [ni, node] if ik != 'must_give' else [node, ni],
            'args': {'min_cap': 0.0, 'max_cap': 64.0}}
    if rnd.random() < 0.5:
        line['args']['efficiency'] = rnd.choice([0.5, 0.75, 0.875])
    if rnd.random() < 0.4:
        line['args']['costs_const'] = gen.q8(rnd, 0, 1)
    inner = [line, ob]
    if ik == 'fill':
        # the storage is fed from outside through the line only
        line['nodes'] = [node, ni]
    if rnd.random() < 0.3:
        inner.append(gen.gen_simple_contract(rnd, g, prices, T, name + '_d', node))
    return {'type': 'StructuredAsset', 'name': name, 'nodes': [node], 'inner': inner, 'args': {}, 'inner_nodes': [ni]}


def gen_freeobl_case(rnd, tmax=8):
    g = gen.gen_grid(rnd, tmin=2, tmax=tmax, tz_prob=0.1)
    tg = scen.make_grid(g)
    T = tg.T
    prices = {}
    nn = rnd.randint(1, 2)
    node_names = ['N%d' % i for i in range(1, nn + 1)]
    # a market at every node, wide enough to absorb the obligation at the largest size
    assets = SC._markets(rnd, g, prices, T, node_names, prob=1.0, cap=2048.0)
    kind = rnd.choice(OBLIGATIONS)
    base = gen_obligation(rnd, g, tg, prices, T, kind, 'sca_b', node_names)
    extra_nodes = list(base.get('inner_nodes', []))
    if base['type'] != 'StructuredAsset':
        if rnd.random() < 0.2:
            gen.put_window(base['args'], gen.window(rnd, g, kinds=['inside', 'start_only', 'end_only', 'straddle_start', 'straddle_end', 'covering']))
        if rnd.random() < 0.1:
            base['args']['wacc'] = rnd.choice([0.05, 0.5])
    lo = rnd.choice([0.0, 0.0, 0.25, 0.5, 1.0, 2.0])
    hi = lo + rnd.choice([0.5, 1.0, 1.0, 2.0, 3.0])
    r = rnd.random()
    if r < 0.55:
        fc = 0.0                                     # capacity costs nothing
    elif r < 0.65:
        fc = 0                                       # (as an int)
    elif r < 0.75:
        fc = rnd.choice([1.0 / 1024, 1.0 / 64])      # next to nothing
    elif r < 0.85:
        fc = -gen.q8(rnd, 0.125, 1)                  # a premium per size: costs of the scale with the other sign
    else:
        fc = gen.q8(rnd, 0.125, 4)
    sargs = {'min_scale': lo, 'max_scale': hi, 'norm_scale': rnd.choice([1.0, 2.0, 0.5, 4.0, 3.0]), 'fix_costs': fc}
    if rnd.random() < 0.25:
        gen.put_window(sargs, gen.window(rnd, g, kinds=['inside', 'start_only', 'end_only', 'straddle_start', 'straddle_end', 'covering', 'offgrid']))
    sc = {'type': 'ScaledAsset', 'name': rnd.choice(['sca', 'sca', 'sca_b']), 'base': base, 'args': sargs}
    assets.insert(rnd.randint(0, len(assets)), sc)
    if rnd.random() < 0.3:
        assets.append(gen.gen_simple_contract(rnd, g, prices, T, 'extra', rnd.choice(node_names)))
    s = {'grid': g, 'nodes': node_names + extra_nodes, 'prices': prices, 'assets': assets}
    return {'kind': 'scaled', 'scn': s, 'target': sc['name'], 'base_kind': 'obl:' + kind, 'build': SC.draw_build(rnd),
            'scan': rnd.choice([5, 6, 7]), 'stream': 'freeobl'}


# ------------------------------------------------------------------ stream `tzwin`
ZONES = ['UTC', 'UTC', 'Europe/Berlin', 'CET', 'US/Eastern', 'US/Pacific', 'Asia/Tokyo', 'Asia/Kolkata', 'Australia/Sydney',
         'Atlantic/Azores', 'America/Sao_Paulo']
TZ_GRIDS = [g for g in gen.GRIDS if g[2] <= pd.Timedelta(hours=6)] + [g for g in gen.GRIDS if g[0] in ('h', '30min', '2h')] + [gen.GRIDS[7]]


def gen_tz_grid(rnd, tmin=3, tmax=9):
    """a zone-aware grid (gen.gen_grid with the zone always given, more zones)"""
    freq, unit, step = rnd.choice(TZ_GRIDS)
    T = rnd.randint(tmin, tmax)
    tz = rnd.choice(['CET', 'Europe/Berlin', 'Europe/Berlin', 'US/Eastern', 'UTC', 'Asia/Tokyo', 'Australia/Sydney', 'America/Sao_Paulo'])
    start = pd.Timestamp(rnd.choice(['2021-01-01', '2021-06-01', '2021-07-15'])) + rnd.choice([0, 0, 6, 11, 24, 30]) * gen.H
    if rnd.random() < 0.25 and step <= pd.Timedelta(hours=4):
        start = pd.Timestamp(rnd.choice(['2021-03-27 20:00', '2021-10-30 20:00', '2021-03-13 21:00', '2021-11-06 21:00']))
    if freq == 'd':
        start = start.normalize()
    end = start + T * step
    for _ in range(6):
        try:
            pd.Timestamp(start).tz_localize(tz)
            pd.Timestamp(end).tz_localize(tz)
            break
        except Exception:
            start, end = start + step, end + step
    g = {'start': gen.iso(start), 'end': gen.iso(end), 'freq': freq, 'unit': unit, 'tz': tz, 'T_nominal': T, 'step_s': int(step.total_seconds())}
    gen.fix_grid(g)
    return g


class _Instants:
    """points in time relative to the grid: index i (outside 0..T extrapolated by the nominal step) plus a fraction of a step"""

    def __init__(self, g):
        tg = scen.make_grid(g)
        self.pts = list(tg.timepoints) + [tg.end]
        self.T = len(self.pts) - 1
        self.step = pd.Timedelta(seconds=g['step_s'])

    def at(self, i, frac=0.0):
        if i < 0:
            t = self.pts[0] + i * self.step
        elif i > self.T:
            t = self.pts[-1] + (i - self.T) * self.step
        else:
            t = self.pts[int(i)]
        return t + frac * self.step


def aware(inst, zone):
    """the instant written as a zone-aware date of `zone` ({'$ts': wall clock, 'tz': zone}); a wall-clock reading that does not
    name the instant uniquely in that zone (daylight-saving switch) is written in UTC instead"""
    wall = inst.tz_convert(zone).tz_localize(None)
    try:
        if pd.Timestamp(gen.iso(wall), tz=zone) == inst:
            return {'$ts': gen.iso(wall), 'tz': zone}
    except Exception:
        pass
    return {'$ts': gen.iso(inst.tz_convert('UTC').tz_localize(None)), 'tz': 'UTC'}


def _zone(rnd, g, prefer):
    r = rnd.random()
    if r < prefer:
        return g['tz']
    if r < prefer + 0.25:
        return 'UTC'
    return rnd.choice(ZONES)


def _wrapper_window(rnd, ins):
    """(kind, a, b): which sides the wrapper's window has and at which grid indexes (mostly inside the horizon)"""
    T = ins.T
    a = rnd.randint(0, max(0, T - 2))
    b = rnd.randint(min(T, a + 2), T)
    r = rnd.random()
    if r < 0.1:
        a, b = -2, T + 3
    return rnd.choice(['both', 'both', 'both', 'start', 'end']), a, b


def _put_aware(rnd, g, ins, args, sides, a, b, zone_pref, near=None):
    """writes start / end (the sides given) into args as zone-aware dates; `near` = (a0, b0): boundaries within a few steps of
    those indexes, on or between grid points"""
    def idx(i0):
        return i0 + rnd.choice([-3, -2, -1, -1, 0, 0, 1, 1, 2, 3]), rnd.choice([0.0, 0.0, 0.0, 0.5, 0.25, -0.5])
    if near is not None:
        (a, fa), (b, fb) = idx(near[0]), idx(near[1])
    else:
        fa = fb = 0.0
        if rnd.random() < 0.15:
            fa = 0.5
    if 'start' in sides:
        args['start'] = aware(ins.at(a, fa), _zone(rnd, g, zone_pref))
    if 'end' in sides:
        args['end'] = aware(ins.at(b, fb), _zone(rnd, g, zone_pref))


def _strip_window(args):
    args.pop('start', None)
    args.pop('end', None)


def _sides(rnd, kind):
    """sides of a wrapped asset's own window, mostly the sides the wrapper has (only then two dates are compared)"""
    both = {'both': ['start', 'end'], 'start': ['start'], 'end': ['end']}[kind]
    r = rnd.random()
    if r < 0.6:
        return both
    if r < 0.8:
        return ['start', 'end']
    return [rnd.choice(['start', 'end'])]


def gen_tzwin_case(rnd, tmax=9):
    g = gen_tz_grid(rnd, tmax=tmax)
    ins = _Instants(g)
    one_zone = rnd.random() < 0.12   # control: everything written in one zone
    if rnd.random() < 0.65:
        case = SC.gen_structured_case(rnd, tmax, g=g)
        spec = [s for s in case['scn']['assets'] if s['name'] == case['target']][0]
        kind, a, b = _wrapper_window(rnd, ins)
        _strip_window(spec['args'])
        wz = 1.0 if one_zone else rnd.choice([0.0, 0.6, 1.0])
        _put_aware(rnd, g, ins, spec['args'], {'both': ['start', 'end'], 'start': ['start'], 'end': ['end']}[kind], a, b, wz)
        n_own = 0
        for x in spec['inner']:
            _strip_window(x['args'])
            if x['type'] == 'OrderBook':   # (its constructor takes no window)
                continue
            if rnd.random() < 0.7 or n_own == 0:
                n_own += 1
                _put_aware(rnd, g, ins, x['args'], _sides(rnd, kind), a, b, 1.0 if one_zone else 0.15, near=(a, b))
    else:
        case = SC.gen_scaled_case(rnd, tmax, g=g, kinds=['simple', 'contract', 'storage', 'storage2', 'transport', 'ext_transport', 'multi', 'plant_lp', 'structured'])
        spec = [s for s in case['scn']['assets'] if s['name'] == case['target']][0]
        kind, a, b = _wrapper_window(rnd, ins)
        _strip_window(spec['args'])
        wz = 1.0 if one_zone else rnd.choice([0.0, 0.6, 1.0])
        _put_aware(rnd, g, ins, spec['args'], {'both': ['start', 'end'], 'start': ['start'], 'end': ['end']}[kind], a, b, wz)
        base = spec['base']
        if base['type'] == 'StructuredAsset':
            # the window reaches the wrapped assets of the base through both wrappers
            for x in base['inner']:
                _strip_window(x['args'])
                if rnd.random() < 0.6:
                    _put_aware(rnd, g, ins, x['args'], _sides(rnd, kind), a, b, 1.0 if one_zone else 0.15, near=(a, b))
            if rnd.random() < 0.4:
                _put_aware(rnd, g, ins, base['args'], _sides(rnd, kind), a, b, 1.0 if one_zone else 0.3, near=(a, b))
        elif base['type'] != 'OrderBook':
            _strip_window(base['args'])
            _put_aware(rnd, g, ins, base['args'], _sides(rnd, kind), a, b, 1.0 if one_zone else 0.15, near=(a, b))
    # (to_json / load_from_json is not part of this stream: the objects carry the dates as they were given)
    case['build'] = rnd.choice(['shared', 'shared', 'fresh', 'copies'])
    case['stream'] = 'tzwin'
    case['zones'] = 'one' if one_zone else 'mixed'
    return case


# ------------------------------------------------------------------ stream `wrapargs`
# keyword arguments the WRAPPER itself accepts next to its scale parameters - ScaledAsset(name, base_asset, start, end, wacc,
# min_scale, max_scale, norm_scale, fix_costs); freq / profile of Asset are not accepted by it - on horizons on which they could
# show: weeks to months in steps of half a day to a week.
LONG_GRIDS = [('d', 'd', pd.Timedelta(days=1)), ('d', 'd', pd.Timedelta(days=1)), ('d', 'h', pd.Timedelta(days=1)),
              ('7d', 'd', pd.Timedelta(days=7)), ('7d', 'd', pd.Timedelta(days=7)), ('2d', 'd', pd.Timedelta(days=2)),
              ('12h', 'd', pd.Timedelta(hours=12)), ('12h', 'h', pd.Timedelta(hours=12)), ('3d', 'd', pd.Timedelta(days=3))]
WACCS = [0.03, 0.05, 0.08, 0.1, 0.1, 0.15, 0.25, 0.5]
WRAP_BASES = ['simple', 'simple', 'contract', 'storage', 'storage', 'storage2', 'transport', 'ext_transport', 'multi', 'plant_lp',
              'structured', 'structured']


def gen_long_grid(rnd, max_steps=72):
    """a naive grid over three weeks to nine months (at most `max_steps` steps)"""
    freq, unit, step = rnd.choice(LONG_GRIDS)
    days = rnd.choice([21, 28, 30, 45, 60, 61, 90, 91, 120, 150, 181, 243, 270])
    T = max(3, min(max_steps, int(pd.Timedelta(days=days) / step)))
    start = pd.Timestamp(rnd.choice(['2021-01-01', '2021-02-15', '2021-06-01', '2021-10-01', '2024-02-01']))
    if rnd.random() < 0.2 and freq != 'd':
        start = start + rnd.choice([6, 12, 18]) * gen.H
    end = start + T * step
    g = {'start': gen.iso(start), 'end': gen.iso(end), 'freq': freq, 'unit': unit, 'tz': None, 'T_nominal': T, 'step_s': int(step.total_seconds())}
    gen.fix_grid(g)
    return g


def _put_wacc(spec, w):
    """the wacc on an asset; on a structured asset: on every asset it wraps"""
    if spec['type'] == 'StructuredAsset':
        for x in spec['inner']:
            _put_wacc(x, w)
    elif spec['type'] == 'ScaledAsset':
        spec['args']['wacc'] = w
        _put_wacc(spec['base'], w)
    elif spec['type'] != 'OrderBook':
        spec['args']['wacc'] = w


def gen_wrapargs_case(rnd):
    g = gen_long_grid(rnd)
    tg = scen.make_grid(g)
    T = tg.T
    prices = {}
    nn = rnd.randint(1, 2)
    node_names = ['N%d' % i for i in range(1, nn + 1)]
    assets = SC._markets(rnd, g, prices, T, node_names)
    kind = rnd.choice(WRAP_BASES)
    while True:
        # (bases of the relaxed statement: no on/off variables - a plant with a minimum load behind a line is known finding F-16c)
        pr = copy.deepcopy(prices)
        base = SC.gen_base(rnd, g, pr, T, kind, 'sca_b', node_names)
        if not any(x['type'] == 'Plant' for x in base.get('inner', [])):
            prices = pr
            break
    extra_nodes = list(base.get('inner_nodes', []))
    if base['type'] != 'StructuredAsset' and rnd.random() < 0.3:
        gen.put_window(base['args'], gen.window(rnd, g, kinds=['inside', 'start_only', 'end_only', 'straddle_start', 'straddle_end', 'covering', 'offgrid']))
    # the scale: held fixed (the statement at one scale) or free
    if rnd.random() < 0.4:
        lo = hi = rnd.choice([0.5, 1.0, 1.5, 2.0, 3.0, 0.25])
    else:
        lo = rnd.choice([0.0, 0.0, 0.5, 1.0])
        hi = lo + rnd.choice([0.5, 1.0, 2.0, 3.0])
    # fixed costs that are there: per norm scale and main time unit, either sign, float or int
    r = rnd.random()
    if r < 0.75:
        fc = gen.q8(rnd, 0.25, 6)
    elif r < 0.85:
        fc = rnd.randint(1, 5)
    elif r < 0.95:
        fc = -gen.q8(rnd, 0.25, 3)
    else:
        fc = 0.0
    if g['unit'] == 'h':
        fc = fc / 8.0 if isinstance(fc, float) else fc
    sargs = {'min_scale': lo, 'max_scale': hi, 'norm_scale': rnd.choice([1.0, 1.0, 2.0, 0.5, 4.0]), 'fix_costs': fc}
    if rnd.random() < 0.4:
        gen.put_window(sargs, gen.window(rnd, g, kinds=['inside', 'inside', 'start_only', 'end_only', 'straddle_start', 'straddle_end', 'covering', 'equal', 'offgrid']))
    sc = {'type': 'ScaledAsset', 'name': rnd.choice(['sca', 'sca', 'sca_b']), 'base': base, 'args': sargs}
    # who carries a wacc: the wrapper only / the base only / both (the same, or two different ones) / everything in the portfolio /
    # nobody; given as float, or as int 0 on the wrapper
    mode = rnd.choice(['wrapper', 'wrapper', 'wrapper', 'base', 'both', 'both', 'both-different', 'portfolio', 'portfolio', 'neither'])
    w = rnd.choice(WACCS)
    if mode in ('base', 'both', 'both-different', 'portfolio'):
        _put_wacc(base, w)
    if mode in ('wrapper', 'both', 'portfolio'):
        sargs['wacc'] = w
    elif mode == 'both-different':
        sargs['wacc'] = rnd.choice([x for x in WACCS if x != w])
    elif mode == 'base' and rnd.random() < 0.5:
        sargs['wacc'] = rnd.choice([0, 0.0])
    if mode == 'portfolio':
        for a in assets:
            _put_wacc(a, w)
    assets.insert(rnd.randint(0, len(assets)), sc)
    if rnd.random() < 0.25:
        x = gen.gen_simple_contract(rnd, g, prices, T, 'extra', rnd.choice(node_names))
        if mode == 'portfolio':
            _put_wacc(x, w)
        assets.append(x)
    s = {'grid': g, 'nodes': node_names + extra_nodes, 'prices': prices, 'assets': assets}
    return {'kind': 'scaled', 'scn': s, 'target': sc['name'], 'base_kind': kind, 'build': SC.draw_build(rnd), 'scan': rnd.choice([3, 3, 4]),
            'stream': 'wrapargs', 'wacc_on': mode, 'duration': 'instants', 'cost_samples': True}


def gen_case(rnd, stream):
    if stream == 'freeobl':
        return gen_freeobl_case(rnd)
    if stream == 'tzwin':
        return gen_tzwin_case(rnd)
    if stream == 'wrapargs':
        return gen_wrapargs_case(rnd)
    raise ValueError(stream)


def features(case, result):
    """features of a case of these streams for the evidence histogram"""
    out = ['stream:' + str(case.get('stream'))]
    st = result.get('observed') or {}
    if case.get('stream') == 'freeobl':
        spec = [s for s in case['scn']['assets'] if s['name'] == case['target']][0]
        fc = spec['args'].get('fix_costs', 0.0)
        out.append('freeobl:fix_costs=%s' % ('zero' if fc == 0 else 'negative' if fc < 0 else 'positive'))
        if st.get('free_ref'):
            out.append('freeobl:best-at-%s%s' % (st.get('best_scale'), '' if st.get('ref_spread') else ':flat'))
    if case.get('stream') == 'wrapargs':
        spec = [s for s in case['scn']['assets'] if s['name'] == case['target']][0]
        a = spec['args']
        out.append('wrapargs:wacc-on-%s' % case.get('wacc_on'))
        out.append('wrapargs:%s-scale:%s' % ('fixed' if a['min_scale'] == a['max_scale'] else 'free', 'own-window' if ('start' in a or 'end' in a) else 'whole-horizon'))
        if st.get('fixed'):
            days = (pd.Timestamp(case['scn']['grid']['end']) - pd.Timestamp(case['scn']['grid']['start'])) / pd.Timedelta(days=1)
            out.append('wrapargs:compared:horizon-%s' % ('weeks' if days < 50 else 'months'))
        if st.get('cost_samples'):
            out.append('wrapargs:cost-samples-valued')
        if st.get('cost_sample_errors'):
            out.append('wrapargs:cost-sample-error:%s' % st['cost_sample_errors'][0])
        if 'duration_package' in st:
            out.append('wrapargs:duration-by-instants-differs-from-package-grid')
    if case.get('stream') == 'tzwin':
        out.append('tzwin:%s:zones-%s' % (case['kind'], case.get('zones')))
        dates = []

        def walk(a):
            for k in ('start', 'end'):
                v = a.get('args', {}).get(k)
                if isinstance(v, dict) and '$ts' in v:
                    dates.append(v.get('tz'))
            if 'base' in a:
                walk(a['base'])
            for x in a.get('inner', []):
                walk(x)
        for a in case['scn']['assets']:
            walk(a)
        if len(set(dates)) > 1:
            out.append('tzwin:dates-of-%d-zones' % min(len(set(dates)), 3))
    return out
