"""C10 purity of set-up: HISTORY ORACLE on the real code (no model involved in the oracle itself).

A case is a plain-JSON value
  {'base': scenario (harness.scen format: nodes, prices, assets; parameter forms varied by `vary_forms`),
   'grids': [grid specs]          (index = grid id; variants of base['grid']: shifted, shortened, other frequency,
                                    other zone, other main time unit),
   'prices': [{'T', 'form', 'data': {key: [floats]}, 'index_grid'?}]   (index = price id; forms: dict of arrays,
                                    dict of lists, dict of Series with RangeIndex / with DatetimeIndex ('dict_series_time'),
                                    DataFrame with RangeIndex / DatetimeIndex),
   'history': [call, ...],
   'stream'?: 'freq' | 'data' | 'ramp' | 'layout' | 'pdata' | ...  (which generator made the case; informative only)}
Generators: gen_case (general), gen_state_case (slot logic), gen_nested_case (slot logic over wrappers nested in wrappers - scaled over
structured / linked, scaled and structured inside structured, to depth 4 - and linked assets), gen_splitfail_case (split set-ups that raise
in one of their intervals, then set-ups without grid argument), gen_freq_case (assets with an own frequency equal to the step of one
of the grids, in any spelling, over finer / coarser / equal grids), gen_data_case (plant / CHP parameters keyed into the price data,
repeated set-ups of the same portfolio on the same grid object with several data sets), gen_ramp_case (plants / CHPs with start /
shutdown ramp profiles, ramp_freq None or set, minimum run / down times, over grids that differ in step AND main time unit),
gen_layout_case (assets whose VARIABLE LAYOUT depends on the grid or the data of the call - plants / CHPs / CHPs with minimum-load costs
whose only reason for on / start variables is a duration that is some steps on one grid and rounded to one step on a coarser one, or a
start cost / start fuel / idle consumption keyed into the data that is zero in some data sets; contracts with one or two variables per
step depending on extra costs in the data or on capacities that change sign over the horizon - set up on 2-4 grids of one horizon with
other steps / shorter horizons), gen_pdata_case (the user's price data in every container, mostly WITH A TIME INDEX over the data
horizon, the same container object handed to set-ups directly and to the doors that cast data to a grid by time - io.optimize,
Timegrid.prices_to_grid + set-up, split set-up - on other horizons).
A call is {'op': ..., ...} with op one of
  asset_setup {asset, grid, reuse, prices}      asset.setup_optim_problem(prices, tg)
  set_timegrid {asset, grid, reuse}             asset.set_timegrid(tg)
  asset_noarg {asset, prices}                   asset.setup_optim_problem(prices)      (grid set before)
  pf_setup {grid, reuse, prices, skip?, fix?, noarg?}   portfolio.setup_optim_problem(...)
  pf_split {grid, reuse, prices, interval}      portfolio.setup_split_optim_problem(...)
  pf_cast {grid, reuse, prices}                 portfolio.setup_optim_problem(tg.prices_to_grid(prices), tg)   (what io.optimize does first)
  cost_samples {grid, reuse, prices: [pid..]}   portfolio.create_cost_samples([...], tg)
  io_optimize {grid, reuse, prices, interval?}  eaopack.io.optimize(portf, tg, data[, split_interval_size])
  optimize {soft}                               last_op.optimize([make_soft_problem=True]) (then plain)
  extract                                       io.extract_output(portf, last_op, last_res, last_prices)
  dcf {asset} / fill_level {asset}              asset.dcf(last_op, last_res) / storage.fill_level(...)
  make_slp {k, prices: [pid..]}                 make_slp(deepcopy(last_op), portf, tg, start_future, samples)
  to_json {target}                              serialization.to_json(portfolio | asset | grid)
`reuse`: use the Timegrid OBJECT already used for this grid id in the history (else a new, equal object).
Price containers are built once per history and the same OBJECT is passed to every call naming the price id.

The property (= the oracle): the result of the n-th set-up call equals, exactly (c, l, u, rows, mapping, nodal list;
`pf.cmp_problem` with tol 0), the result of the same call on a FRESH object tree built from the same spec with a
fresh grid object and fresh price containers; and the history run raises iff the fresh run raises.  For read-out
calls (extract / dcf / fill_level / make_slp) on an op whose assets still sit on the grid of that op the tables are
compared with those of a fresh tree fed with the same result vector.  In-place changes of user data (parameter
containers inside the assets, price containers, fix_time_window dicts) are reported as facts
{'kind': 'user_data_changed', ...}; they are attached to a violation, they are not violations by themselves - with one exception,
the oracle `parameter_changed`: a CONSTRUCTOR PARAMETER of an asset (names from inspect.signature of the class and its bases) that
holds another value after a set-up call (or set_timegrid) than after construction, beyond the accepted normalisation of its form
(scalar -> one-element list, index / array -> list; level 'form'), is a violation ("does not alter user-supplied parameters":
e.g. a default that is resolved from the grid of the call and written back to the object).
Oracle `prices_changed_for_later_calls` ("does not alter ... price data in a way that changes or breaks later calls"): whenever a call
left a PRICE CONTAINER in another state than the one it was created in, a copy of the used container and a pristine container (built
anew from the case, i.e. a deep copy taken before the first call) are both handed to the later calls a user can make with them - on
every grid of the case Timegrid.prices_to_grid (first step of io.optimize and of the split set-up) and the direct set-up of a FRESH
object tree - and these must give the same (frame / problem / raise or not).
"""
import copy
import datetime as dt
import inspect
import math
import random
import types
from fractions import Fraction

import numpy as np
import pandas as pd

import eaopack as eao
from eaopack.portfolio import StructuredAsset, Portfolio

from .. import gen, scen, impl, pf
from ..impl import Quiet, err_class

ID = 'C10'
NAN_S, PINF_S, NINF_S = 2.0 ** 30 + 0.125, 2.0 ** 31, -2.0 ** 31      # sentinels: Fraction() cannot hold nan/inf

SETUP_OPS = ('asset_setup', 'asset_noarg', 'pf_setup', 'pf_split', 'cost_samples', 'io_optimize', 'pf_cast')
READ_OPS = ('extract', 'dcf', 'fill_level', 'make_slp')


# ===================================================================== generation
def _tick(step_s):
    return ('%dmin' % (step_s // 60)) if step_s % 3600 else ('%dh' % (step_s // 3600))


def _T(g):
    try:
        return int(scen.make_grid(g).T)
    except Exception:
        return None


def grid_variants(rnd, g0, n):
    """variants of the base grid; every variant is a legal Timegrid spec with T >= 1"""
    out = []
    step = pd.Timedelta(seconds=g0['step_s'])
    s0, e0 = pd.Timestamp(g0['start']), pd.Timestamp(g0['end'])
    T0 = g0['T_nominal']
    tries = 0
    while len(out) < n and tries < 40:
        tries += 1
        g = {k: g0[k] for k in ('start', 'end', 'freq', 'unit', 'tz', 'step_s')}
        kind = rnd.choice(['shift', 'shift', 'shorter', 'tz', 'tz', 'freq', 'freq', 'unit', 'same', 'longer'])
        if kind == 'shift':
            k = rnd.choice([-3, -2, -1, 1, 2, 3, T0])
            g['start'], g['end'] = gen.iso(s0 + k * step), gen.iso(e0 + k * step)
        elif kind == 'shorter' and T0 >= 3:
            a = rnd.randint(0, T0 - 2)
            b = rnd.randint(a + 1, T0)
            g['start'], g['end'] = gen.iso(s0 + a * step), gen.iso(s0 + b * step)
        elif kind == 'longer':
            g['start'], g['end'] = gen.iso(s0 - rnd.randint(0, 2) * step), gen.iso(e0 + rnd.randint(1, 3) * step)
        elif kind == 'tz':
            g['tz'] = rnd.choice([z for z in (None, 'CET', 'UTC', 'US/Eastern') if z != g0['tz']])
        elif kind == 'freq' and g0['freq'] != 'd':
            cands = [s for s in (900, 1800, 3600, 7200, 14400) if s != g0['step_s'] and (T0 * g0['step_s']) % s == 0
                     and (T0 * g0['step_s']) // s <= 24]
            if not cands:
                continue
            g['step_s'] = rnd.choice(cands)
            g['freq'] = _tick(g['step_s'])
            if g['freq'] == '1h':
                g['freq'] = 'h'
        elif kind == 'unit':
            g['unit'] = rnd.choice([u for u in ('h', 'd', 'min') if u != g0['unit']])
        elif kind == 'same':
            pass
        else:
            continue
        if rnd.random() < 0.15:
            g['tz'] = rnd.choice([None, 'CET', 'UTC'])
        try:
            gen.fix_grid(g)
        except Exception:
            continue
        if g['T_nominal'] < 1 or _T(g) in (None, 0):
            continue
        g['kind'] = kind
        out.append(g)
    return out


def _is_interval_dict(v):
    return isinstance(v, dict) and 'start' in v and 'values' in v and isinstance(v['start'], list)


def vary_forms(rnd, scn):
    """re-encode interval / take dicts and order books in the other accepted forms (semantics unchanged)"""
    for a in scen.all_asset_specs(scn):
        args = a.get('args', {})
        for k, v in list(args.items()):
            if _is_interval_dict(v):
                is_take = k in ('min_take', 'max_take')
                n = len(v['start'])
                forms = ['list', 'list', 'idx', 'npdt', 'npts', 'arrvals']
                if n == 1:
                    forms += ['scalar', 'scalar']
                f = rnd.choice(forms)
                if f == 'scalar':
                    v['start'] = v['start'][0]
                    if 'end' in v:
                        v['end'] = v['end'][0]
                    v['values'] = v['values'][0]
                elif f in ('idx', 'npdt', 'npts'):
                    tag = '$' + f
                    v['start'] = {tag: [x['$dt'] for x in v['start']]}
                    if 'end' in v:
                        v['end'] = {tag: [x['$dt'] for x in v['end']]}
                    if rnd.random() < 0.5:
                        v['values'] = {'$arr': v['values']}
                elif f == 'arrvals':
                    v['values'] = {'$arr': v['values']}
                if is_take and f == 'idx':
                    pass
            elif k == 'orders' and isinstance(v, dict):
                f = rnd.choice(['dict', 'dict', 'np', 'df'])
                if f == 'np':
                    v['start'] = {'$npdt': [x['$dt'] for x in v['start']]}
                    v['end'] = {'$npdt': [x['$dt'] for x in v['end']]}
                    v['capa'] = {'$arr': v['capa']}
                    v['price'] = {'$arr': v['price']}
                elif f == 'df':
                    args[k] = {'$df': v}
        if a['type'] != 'OrderBook' and rnd.random() < 0.35:
            args['wacc'] = rnd.choice([0.0, 0.05, 0.1, 0.5])
    return scn


def predecode(v):
    """own encodings -> objects; the rest is left to scen.dec"""
    if isinstance(v, dict):
        if '$npdt' in v:
            return np.array([np.datetime64(pd.Timestamp(x)) for x in v['$npdt']], dtype='datetime64[ns]')
        if '$npts' in v:
            arr = np.empty(len(v['$npts']), dtype=object)
            for i, x in enumerate(v['$npts']):
                arr[i] = pd.Timestamp(x)
            return arr
        if '$idx' in v and v['$idx'] and isinstance(v['$idx'][0], str):
            return pd.DatetimeIndex([pd.Timestamp(x) for x in v['$idx']])
        if '$df' in v:
            d = scen.dec(predecode(v['$df']))
            return pd.DataFrame({k: (list(x) if not isinstance(x, np.ndarray) else x) for k, x in d.items()})
        if any(k.startswith('$') for k in v):
            return v
        return {k: predecode(x) for k, x in v.items()}
    if isinstance(v, list):
        return [predecode(x) for x in v]
    return v


def predecode_spec(spec):
    s = dict(spec)
    s['args'] = predecode(copy.deepcopy(spec.get('args', {})))
    if 'base' in spec:
        s['base'] = predecode_spec(spec['base'])
    if 'inner' in spec:
        s['inner'] = [predecode_spec(x) for x in spec['inner']]
    return s


def spec_names(scn, nested=True):
    out = []

    def rec(a, top):
        out.append((a['name'], a['type'], top))
        if nested:
            if 'base' in a:
                rec(a['base'], False)
            for b in a.get('inner', []):
                rec(b, False)
    for a in scn['assets']:
        rec(a, True)
    return out


def gen_case(rnd, tmax=10, hist_len=None):
    base = gen.gen_portfolio(rnd, tmax=tmax, tz_prob=0.25, allow_mip=rnd.random() < 0.5, max_assets=rnd.choice([1, 2, 3, 4]),
                             allow_freq=rnd.random() < 0.5, allow_periodic=rnd.random() < 0.5)
    vary_forms(rnd, base)
    g0 = {k: v for k, v in base['grid'].items()}
    grids = [g0] + grid_variants(rnd, g0, rnd.randint(1, 3))
    return finish_case(rnd, base, grids, hist_len)


# cut points of the operation table of `finish_case` (cumulative probabilities, in the order of the branches there)
CUTS = (0.2, 0.28, 0.36, 0.58, 0.68, 0.72, 0.78, 0.86, 0.90, 0.94, 0.97)
# the same table with the weight on repeated set-ups of the whole portfolio (plain, split, cost samples, io.optimize)
CUTS_PF = (0.08, 0.12, 0.16, 0.56, 0.66, 0.72, 0.82, 0.90, 0.93, 0.96, 0.98)


def finish_case(rnd, base, grids, hist_len=None, n_price_sets=(1, 2), reuse_p=0.6, cuts=CUTS, end_cut=0.75, mismatch_p=0.07, prefer=None):
    """price containers for every grid and a random history over `base` and `grids` (see the module text for the calls);
    `prefer`: asset names that calls on single assets name in 7 of 10 cases (None: all names alike)"""
    Ts = [_T(g) for g in grids]
    keys = list(base['prices'].keys())
    prices = [{'T': Ts[0], 'form': 'dict', 'data': {k: list(v) for k, v in base['prices'].items()}}]
    forms = ['dict', 'dict', 'dict_series', 'df_range', 'df_range', 'df_time', 'dict_list']
    for gid, T in enumerate(Ts):
        for _ in range(rnd.randint(*n_price_sets)):
            p = {'T': T, 'form': rnd.choice(forms), 'data': {k: [rnd.choice(base['prices'][k]) for _ in range(T)] for k in keys}}
            if rnd.random() < 0.3 and keys:
                # strictly increasing series: interpolation / re-indexing errors become visible
                k = rnd.choice([x for x in keys if x.startswith('p')] or keys)
                if k.startswith('p'):
                    p['data'][k] = [float(i + 1) for i in range(T)]
            if p['form'] == 'df_time':
                p['index_grid'] = gid
            prices.append(p)
    names = spec_names(base)
    top = [n for n, t, tp in names if tp]
    n_calls = hist_len or rnd.randint(2, 8)
    hist = []

    def pick_prices(gid, mismatch=mismatch_p):
        ok = [i for i, p in enumerate(prices) if p['T'] == Ts[gid]]
        if rnd.random() < mismatch or not ok:
            return rnd.randrange(len(prices))
        return rnd.choice(ok)

    def pick_name():
        if prefer and rnd.random() < 0.7:
            return rnd.choice(prefer)
        return rnd.choice(names)[0]

    T_of_interval = lambda gid: _tick(max(1, Ts[gid] // rnd.choice([2, 3])) * grids[gid]['step_s'])
    have_op = False
    have_res = False
    for i in range(n_calls):
        gid = rnd.randrange(len(grids))
        reuse = rnd.random() < reuse_p
        r = rnd.random()
        last = (i == n_calls - 1)
        if last and r > end_cut:
            r = rnd.random() * end_cut      # a history ends with a set-up call
        if r < cuts[0]:
            c = {'op': 'asset_setup', 'asset': pick_name(), 'grid': gid, 'reuse': reuse, 'prices': pick_prices(gid)}
        elif r < cuts[1]:
            hist.append({'op': 'set_timegrid', 'asset': pick_name(), 'grid': gid, 'reuse': reuse})
            c = {'op': 'asset_noarg', 'asset': hist[-1]['asset'], 'prices': pick_prices(gid, 0)}
        elif r < cuts[2]:
            c = {'op': 'asset_noarg', 'asset': pick_name(), 'prices': pick_prices(gid, 0.0)}
        elif r < cuts[3]:
            c = {'op': 'pf_setup', 'grid': gid, 'reuse': reuse, 'prices': pick_prices(gid)}
            if rnd.random() < 0.2:
                c['skip'] = rnd.sample(base['nodes'], 1)
            if rnd.random() < 0.3:
                c['fix'] = {'form': rnd.choice(['mask_list', 'mask_np', 'date']), 'k': rnd.randint(1, max(1, Ts[gid] - 1))}
            if rnd.random() < 0.1:
                c['noarg'] = True
        elif r < cuts[4]:
            c = {'op': 'pf_split', 'grid': gid, 'reuse': reuse, 'prices': pick_prices(gid), 'interval': T_of_interval(gid)}
        elif r < cuts[5]:
            ok = [j for j, p in enumerate(prices) if p['T'] == Ts[gid] and p['form'] in ('dict', 'dict_series', 'df_range')]
            c = {'op': 'cost_samples', 'grid': gid, 'reuse': reuse, 'prices': [rnd.choice(ok) for _ in range(2)] if ok else [0]}
        elif r < cuts[6]:
            c = {'op': 'io_optimize', 'grid': gid, 'reuse': reuse, 'prices': pick_prices(gid, 0)}
            if rnd.random() < 0.5:
                c['interval'] = T_of_interval(gid)
        elif r < cuts[7]:
            c = {'op': 'optimize', 'soft': rnd.random() < 0.5}
        elif r < cuts[8]:
            c = {'op': 'extract'}
        elif r < cuts[9]:
            st = [n for n, t, tp in names if t == 'Storage']
            c = {'op': 'fill_level', 'asset': rnd.choice(st)} if st and rnd.random() < 0.6 else {'op': 'dcf', 'asset': rnd.choice(names)[0]}
        elif r < cuts[10]:
            ok = [j for j, p in enumerate(prices) if p['form'] in ('dict', 'dict_series', 'df_range')]
            c = {'op': 'make_slp', 'k': rnd.randint(1, 3), 'prices': [rnd.choice(ok)] if ok else [0]}
        else:
            c = {'op': 'to_json', 'target': rnd.choice(['portfolio', 'grid', rnd.choice(names)[0]])}
        hist.append(c)
        if c['op'] in ('pf_setup', 'pf_split') and rnd.random() < 0.5 and not last:
            hist.append({'op': 'optimize', 'soft': rnd.random() < 0.3})
            if rnd.random() < 0.6:
                hist.append({'op': rnd.choice(['extract', 'extract', 'dcf', 'fill_level']), 'asset': rnd.choice(names)[0]})
    return {'base': base, 'grids': grids, 'prices': prices, 'history': hist}


# ----- stream "freq": assets with an own frequency over grids of the same / a finer / a coarser step
# step length in seconds -> accepted spellings of that frequency
SPELL = {900: ['15min', '900s'], 1800: ['30min', '1800s'], 3600: ['h', '1h', '60min', '3600s'], 7200: ['2h', '120min'],
         10800: ['3h', '180min'], 14400: ['4h', '240min'], 21600: ['6h', '360min'], 28800: ['8h', '480min'],
         43200: ['12h', '720min'], 86400: ['d', '1d', '24h']}
FREQ_TYPES = ('SimpleContract', 'Contract', 'Transport', 'Storage', 'MultiCommodityContract', 'ExtendedTransport')
PLANT_TYPES = ('Plant', 'CHPAsset', 'CHPAsset_with_min_load_costs')
FREQ_GRIDS = [g for g in gen.GRIDS if g[0] != '15min']
UNITS = ('h', 'd', 'min')


def freq_grid_variants(rnd, g0, n, tmax=32, unit_p=0.0, kinds=None):
    """grids over (about) the horizon of g0 whose step is a divisor / a multiple of g0's step or the same step, the frequency written
    in any accepted spelling; some also shifted or shortened by whole steps of g0; with probability `unit_p` the MAIN TIME UNIT of the
    variant is another one than that of g0 (0: never, the random stream is then the one without this option); `kinds`: the table the kind of a
    variant is drawn from (None: finer 3 of 6, coarser, respelled, same 1 of 6 each)"""
    out = []
    step0 = g0['step_s']
    s0, e0 = pd.Timestamp(g0['start']), pd.Timestamp(g0['end'])
    T0 = g0['T_nominal']
    tot = T0 * step0
    tries = 0
    while len(out) < n and tries < 40:
        tries += 1
        g = {k: g0[k] for k in ('start', 'end', 'freq', 'unit', 'tz', 'step_s')}
        kind = rnd.choice(kinds or ['finer', 'finer', 'finer', 'coarser', 'respell', 'same'])
        if kind == 'finer':
            cands = [s for s in SPELL if s < step0 and step0 % s == 0 and tot // s <= tmax]
        elif kind == 'coarser':
            cands = [s for s in SPELL if s > step0 and s % step0 == 0 and tot % s == 0]
        else:
            cands = [step0]
        if not cands:
            continue
        g['step_s'] = rnd.choice(cands)
        if kind != 'same':
            sp = [f for f in SPELL[g['step_s']] if not (kind == 'respell' and f == g0['freq'])]
            g['freq'] = rnd.choice(sp)
        if unit_p and rnd.random() < unit_p:
            g['unit'] = rnd.choice([u for u in UNITS if u != g0['unit']])
        r = rnd.random()
        st0 = pd.Timedelta(seconds=step0)
        if r < 0.2:
            k = rnd.choice([-2, -1, 1, 2])
            g['start'], g['end'] = gen.iso(s0 + k * st0), gen.iso(e0 + k * st0)
        elif r < 0.35 and T0 >= 3:
            a = rnd.randint(0, T0 - 2)
            g['start'], g['end'] = gen.iso(s0 + a * st0), gen.iso(s0 + rnd.randint(a + 1, T0) * st0)
        try:
            gen.fix_grid(g)
        except Exception:
            continue
        if g['T_nominal'] < 1 or _T(g) in (None, 0) or _T(g) > tmax:
            continue
        g['kind'] = kind
        out.append(g)
    return out


def vary_freq(rnd, base, grids):
    """own frequencies: every asset that accepts `freq` gets, with probability 1/2, the step of one of the grids of the case (the step
    of the base grid twice as likely) in one of its spellings; the plant classes (which accept only the grid's own frequency string)
    rarely the frequency string of one of the grids"""
    steps = [grids[0]['step_s']] + [g['step_s'] for g in grids]
    for a in scen.all_asset_specs(base):
        args = a.get('args', {})
        if a['type'] in FREQ_TYPES and not any(k in args for k in ('block_size', 'max_store_duration', 'periodicity')):
            r = rnd.random()
            if r < 0.5:
                args['freq'] = rnd.choice(SPELL[rnd.choice(steps)])
            elif r < 0.6:
                args.pop('freq', None)
        elif a['type'] in PLANT_TYPES and rnd.random() < 0.15:
            args['freq'] = rnd.choice(grids)['freq']
    return base


def gen_freq_case(rnd):
    """histories over assets WITH AN OWN FREQUENCY equal to the step of one of the grids of the case (spelled like the grid or
    differently: 'h' / '60min' / '3600s', 'd' / '1d' / '24h'), the grids being finer / coarser / equal variants of one horizon"""
    kinds = ['simple', 'simple', 'contract', 'transport', 'ext_transport', 'storage', 'storage2', 'multi', 'scaled', 'structured',
             'orderbook', 'plant']
    base = gen.gen_portfolio(rnd, kinds=kinds, tmax=6, tz_prob=0.15, allow_mip=rnd.random() < 0.3, max_assets=rnd.choice([1, 2, 3]),
                             allow_freq=rnd.random() < 0.5, allow_periodic=False, grids=FREQ_GRIDS, allow_blocks=False)
    vary_forms(rnd, base)
    g0 = {k: v for k, v in base['grid'].items()}
    grids = [g0] + freq_grid_variants(rnd, g0, rnd.randint(1, 3))
    vary_freq(rnd, base, grids)
    case = finish_case(rnd, base, grids, mismatch_p=0.03)
    case['stream'] = 'freq'
    return case


# ----- stream "data": parameters given as KEYS into the price data, the same portfolio and grid OBJECT set up with several data sets
# parameter -> (values of the series, may the parameter be added when the generator left it out: 'fuel' = only with a fuel node)
KEY_PARAMS = {
    'fuel_efficiency': ([0.25, 0.4, 0.5, 0.8, 1.0], 'fuel'),
    'consumption_if_on': ([0.125, 0.25, 0.5, 1.0], 'fuel-mip'),
    'start_fuel': ([0.5, 1.0, 1.5, 2.0], 'fuel-mip'),
    'conversion_factor_power_heat': ([0.25, 0.5, 1.0, 2.0], 'chp'),
    'max_share_heat': ([0.25, 0.5, 1.0, 2.0], 'chp'),
    'start_costs': ([0.5, 1.0, 2.5, 4.0], 'mip'),
    'running_costs': ([0.125, 0.5, 1.0], 'mip'),
    'min_load_threshhold': ([0.5, 1.0, 2.0, 3.0], None),
    'min_load_costs': ([0.5, 1.0, 2.0, 3.0], None),
}


def vary_data_keys(rnd, base, allow_mip):
    """parameters of the plant classes that `make_vector` accepts as scalar, interval dict or KEY into the prices: scalars are
    re-expressed as a key (the series goes into base['prices'], so every price set of the case carries its own values) or as an
    interval dict; left-out parameters are added in these forms; plants / CHPs without fuel node get one (a free outer node) in 7 of 10 cases"""
    g = base['grid']
    T = len(next(iter(base['prices'].values()))) if base['prices'] else _T(g)
    inner_nodes = {n for a in base['assets'] for n in a.get('inner_nodes', [])}
    for a in scen.all_asset_specs(base):
        if a['type'] not in PLANT_TYPES:
            continue
        args = a['args']
        chp = a['type'] != 'Plant'
        fuel = len(a['nodes']) == (3 if chp else 2)
        if not fuel and rnd.random() < 0.7:
            # a fuel node (last of the asset's nodes) out of the outer nodes of the portfolio the asset does not use yet
            free = [n for n in base['nodes'] if n not in a['nodes'] and n not in inner_nodes]
            if free:
                a['nodes'] = list(a['nodes']) + [rnd.choice(free)]
                fuel = True
        for par, (vals, cond) in KEY_PARAMS.items():
            have = par in args and isinstance(args[par], (int, float))
            if not have:
                ok = {'fuel': fuel, 'fuel-mip': fuel and allow_mip, 'chp': chp, 'mip': allow_mip, None: False}[cond]
                if par in args or not ok or rnd.random() >= 0.5:
                    continue
            r = rnd.random()
            if r < 0.6:
                key = '%s_%s' % (par, a['name'])
                base['prices'][key] = [rnd.choice(vals) for _ in range(T)]
                args[par] = key
            elif r < 0.75:
                args[par] = gen.interval_dict(rnd, g, min(vals), max(vals))
            elif not have:
                args[par] = rnd.choice(vals)
    return base


def gen_data_case(rnd):
    """histories of repeated set-ups of the SAME portfolio on the SAME grid object (1-2 grids, reuse probability 0.9) with 2-3 data
    sets per grid, over portfolios around plants / CHPs with fuel and heat nodes whose efficiencies, conversion factors, fuel and
    cost parameters are keys into the data"""
    kinds = ['plant', 'plant', 'plant', 'chp', 'chp', 'chp', 'simple', 'contract', 'transport', 'storage', 'multi', 'structured']
    allow_mip = rnd.random() < 0.4
    # 3 of 4 cases: portfolios are drawn until one holds a plant / CHP with a parameter keyed into the data (at most 5 draws)
    for _ in range(rnd.choice([1, 5, 5, 5])):
        base = gen.gen_portfolio(rnd, kinds=kinds, tmax=8, tz_prob=0.15, allow_mip=allow_mip, max_assets=rnd.choice([1, 2, 3]),
                                 nodes_max=3, allow_freq=rnd.random() < 0.2, allow_periodic=False, allow_blocks=False)
        vary_data_keys(rnd, base, allow_mip)
        if any(a['type'] in PLANT_TYPES and any(isinstance(a['args'].get(k), str) for k in KEY_PARAMS) for a in base['assets']):
            break
    vary_forms(rnd, base)
    g0 = {k: v for k, v in base['grid'].items()}
    grids = [g0] + grid_variants(rnd, g0, rnd.randint(0, 1))
    case = finish_case(rnd, base, grids, hist_len=rnd.randint(3, 9), n_price_sets=(2, 3), reuse_p=0.9, cuts=CUTS_PF, end_cut=0.82, mismatch_p=0.03)
    case['stream'] = 'data'
    return case


# ----- stream "ramp": plants / CHPs with start and shutdown ramp PROFILES over grids that differ in step AND main time unit
# (everything a plant is given as a duration - profiles without ramp_freq, minimum run / down times, times already run - is read in the
# main time unit of the grid of the CALL; a default resolved from the grid during one set-up must not stick to the object)
CUTS_RAMP = (0.30, 0.36, 0.42, 0.70, 0.78, 0.81, 0.86, 0.91, 0.94, 0.96, 0.98)
PROFILE_ARGS = tuple('%s_ramp_%s_bounds%s' % (a, b, c) for a in ('start', 'shutdown') for b in ('lower', 'upper') for c in ('', '_heat'))


def vary_ramp_profiles(rnd, base, p=0.8):
    """plants / CHPs of the scenario get, with probability `p`, start and / or shutdown ramp profiles (power, for CHPs in 4 of 10 cases
    also heat; lists or arrays; `ramp_freq` left at None in 2 of 3 cases, else a frequency around the step of the base grid) from the
    profile generator of the CHP component (harness/comp/chp.py `gen_profiles`), and minimum run / down times and a ramp if they have none"""
    from . import chp as CHP          # (imported here: the CHP component is not needed by the other streams)
    g = base['grid']
    T = g['T_nominal']
    for a in scen.all_asset_specs(base):
        if a['type'] not in PLANT_TYPES:
            continue
        args = a['args']
        if rnd.random() < p:
            CHP.gen_profiles(rnd, {'kind': 'portfolio'}, args, a['type'] != 'Plant', g['freq'], g['unit'], T)
        if 'min_runtime' not in args and rnd.random() < 0.5:
            args['min_runtime'] = float(rnd.randint(1, 4))
        if 'min_downtime' not in args and rnd.random() < 0.3:
            args['min_downtime'] = float(rnd.randint(1, 3))
            if args['min_downtime'] > 1 and not ('time_already_running' in args or 'time_already_off' in args):
                args[rnd.choice(['time_already_running', 'time_already_off'])] = float(rnd.randint(1, 3))
        if 'ramp' not in args and rnd.random() < 0.3:
            args['ramp'] = gen.q8(rnd, 1, 4)
    return base


def gen_ramp_case(rnd):
    """histories over portfolios around plants / CHPs WITH START / SHUTDOWN RAMP PROFILES (ramp_freq None or set), minimum run / down
    times and ramps, on 2-4 grids of one horizon that differ in step (finer / coarser / same, any spelling) and - 6 of 10 variants -
    in the MAIN TIME UNIT (h / d / min); calls on single assets name a plant in 7 of 10 cases"""
    kinds = ['plant', 'plant', 'plant', 'chp', 'chp', 'chp', 'simple', 'contract', 'storage', 'transport', 'structured']
    allow_mip = rnd.random() < 0.7
    for _ in range(5):
        base = gen.gen_portfolio(rnd, kinds=kinds, tmax=8, tz_prob=0.1, allow_mip=allow_mip, max_assets=rnd.choice([1, 2, 3]), nodes_max=3,
                                 allow_freq=False, allow_periodic=False, allow_blocks=False, grids=FREQ_GRIDS)
        if any(a['type'] in PLANT_TYPES for a in scen.all_asset_specs(base)):
            break
    vary_ramp_profiles(rnd, base)
    vary_forms(rnd, base)
    g0 = {k: v for k, v in base['grid'].items()}
    grids = [g0] + freq_grid_variants(rnd, g0, rnd.randint(1, 3), tmax=16, unit_p=0.6)
    plants = [a['name'] for a in scen.all_asset_specs(base) if a['type'] in PLANT_TYPES]
    case = finish_case(rnd, base, grids, cuts=CUTS_RAMP, mismatch_p=0.03, prefer=plants)
    case['stream'] = 'ramp'
    return case


# ----- stream "layout": assets whose VARIABLE LAYOUT depends on the grid / the data of the call, set up on grids of other steps and horizons
# (whatever a set-up notes on the object about the variables it created - positions, counts, which optional ones exist - must not be
# read by a later set-up that creates other variables)
UNIT_S = {'h': 3600, 'd': 86400, 'min': 60}
CUTS_LAYOUT = (0.40, 0.44, 0.48, 0.80, 0.86, 0.89, 0.93, 0.96, 0.97, 0.98, 0.99)
SWITCH_PARAMS = {'start_costs': [0.5, 1.0, 2.5, 4.0], 'start_fuel': [0.5, 1.0, 2.0], 'consumption_if_on': [0.125, 0.25, 0.5, 1.0]}
CONTRACT_TYPES = ('SimpleContract', 'Contract', 'MultiCommodityContract')


def vary_layout(rnd, base, grids=()):
    """makes the variable layout of the assets of the scenario depend on the GRID and the DATA of the call (in place); returns the names
    of the assets touched.
    Plants / CHPs (4 of 5): the reasons for on / start variables that hold on every grid are removed with probability 3/4 each (minimum
    capacity; start costs, start fuel, idle consumption - these are else, 3 of 10, re-expressed as a SWITCH KEY into the data: a series
    that `finish_layout` sets to zero in some data sets); minimum run time and / or minimum down time are set (in the main time unit of
    the base grid) to a duration that is SEVERAL STEPS on the finest of the `grids` of the case and AT MOST ONE STEP (no variable needed)
    on the coarsest - the step of one of the coarser grids, 3 of 4 - or to 2-4 steps of the base grid; a CHP becomes, 1 of 2, a CHP with minimum-load costs (threshold and costs as scalar or key).
    Contracts: extra costs (the reason for two variables per step) as switch key (given ones 1 of 2, else added 3 of 10); a positive
    maximum capacity, 1 of 4, as interval data that is zero in the first part of the horizon (one variable per step on a horizon inside it)"""
    g = base['grid']
    T = len(next(iter(base['prices'].values()))) if base['prices'] else _T(g)
    per = g['step_s'] / UNIT_S[g['unit']]          # one step of the base grid in main time units
    steps = sorted({x['step_s'] for x in grids} | {g['step_s']})

    def duration():
        if len(steps) > 1 and rnd.random() < 0.75:
            return rnd.choice(steps[1:]) / UNIT_S[g['unit']]
        return rnd.choice([2, 2, 2, 3, 4]) * per
    touched = []
    sw = base.setdefault('switch_keys', [])

    def as_switch(a, par, vals):
        key = '%s_%s' % (par, a['name'])
        base['prices'][key] = [rnd.choice(vals) for _ in range(T)]
        a['args'][par] = key
        sw.append(key)

    for a in scen.all_asset_specs(base):
        args = a.get('args', {})
        if a['type'] in PLANT_TYPES:
            if rnd.random() >= 0.8:
                continue
            chp = a['type'] != 'Plant'
            fuel = len(a['nodes']) == (3 if chp else 2)
            if 'min_cap' in args and rnd.random() < 0.85:
                args.pop('min_cap')
            for par, vals in SWITCH_PARAMS.items():
                if par != 'start_costs' and not fuel:
                    args.pop(par, None)
                    continue
                r = rnd.random()
                if par in args:
                    if r < 0.6:
                        args.pop(par)
                    elif r < 0.9 and isinstance(args[par], (int, float)):
                        as_switch(a, par, vals)
                elif r < 0.15:
                    as_switch(a, par, vals)
            for k in ('min_runtime', 'min_downtime', 'time_already_running', 'time_already_off'):
                args.pop(k, None)
            which = rnd.choice(['run', 'run', 'down', 'both'])
            if which in ('run', 'both'):
                args['min_runtime'] = duration()
            if which in ('down', 'both'):
                args['min_downtime'] = duration()
            if 'min_downtime' in args or rnd.random() < 0.3:
                args[rnd.choice(['time_already_running', 'time_already_off'])] = rnd.randint(1, 3) * per
            if a['type'] == 'CHPAsset' and rnd.random() < 0.5:
                a['type'] = 'CHPAsset_with_min_load_costs'
                args['min_load_threshhold'] = gen.q8(rnd, 0.5, 3)
                args['min_load_costs'] = gen.q8(rnd, 0.5, 3)
            if a['type'] == 'CHPAsset_with_min_load_costs' and rnd.random() < 0.3:
                par = rnd.choice(['min_load_threshhold', 'min_load_costs'])
                key = '%s_%s' % (par, a['name'])
                base['prices'][key] = [rnd.choice([0.5, 1.0, 2.0, 3.0]) for _ in range(T)]
                args[par] = key
            touched.append(a['name'])
        elif a['type'] in CONTRACT_TYPES:
            r = rnd.random()
            ec = args.get('extra_costs')
            if (isinstance(ec, (int, float)) and ec != 0 and r < 0.5) or (ec is None and r < 0.3):
                as_switch(a, 'extra_costs', [0.125, 0.5, 1.0, 2.0])
                touched.append(a['name'])
            mc = args.get('max_cap')
            if isinstance(mc, (int, float)) and mc > 0 and isinstance(args.get('min_cap'), (int, float)) and args['min_cap'] <= 0 \
                    and g['T_nominal'] >= 2 and rnd.random() < 0.25:
                cut = gen.P(g, rnd.randint(1, g['T_nominal'] - 1))
                lo, hi = gen.P(g, -2), gen.P(g, g['T_nominal'] + 3)
                if all(gen.ok_local(x, g) for x in (lo, cut, hi)):
                    args['max_cap'] = {'start': [gen.dtv(lo), gen.dtv(cut)], 'end': [gen.dtv(cut), gen.dtv(hi)], 'values': [0.0, float(mc)]}
                    touched.append(a['name'])
    return touched


def finish_layout(rnd, case):
    """the SWITCH KEYS of the scenario (see `vary_layout`) are all zero in 4 of 10 of the data sets of the case (never in the first one)"""
    for p in case['prices'][1:]:
        if p['form'] == 'dict_list' and case['base'].get('switch_keys'):
            p['form'] = 'dict_series'        # (parameters keyed into the data do not accept lists)
        for key in case['base'].get('switch_keys', []):
            if key in p['data'] and rnd.random() < 0.4:
                p['data'][key] = [0.0] * len(p['data'][key])
    return case


def gen_layout_case(rnd):
    """histories over portfolios around assets whose VARIABLE LAYOUT depends on the grid and on the data of the call (`vary_layout`:
    plants, CHPs, CHPs with minimum-load costs, contracts; storages with their MIP options beside them) on 2-4 grids of one horizon,
    at least one of them with another step (half of the variants 2-4 times the step, 1 of 6 a fraction of it; some shortened / shifted,
    15 of 100 in another main time unit), 1-2 data sets per grid (switch keys zero in some); calls on single assets name a touched asset in 7 of 10 cases"""
    kinds = ['plant', 'plant', 'chp', 'chp', 'chp', 'simple', 'contract', 'storage', 'multi', 'structured', 'transport']
    grids0 = [g for g in gen.GRIDS if g[0] in ('h', '30min', '2h')]
    base = None
    for _ in range(8):          # (drawn until the portfolio holds a CHP - accepted always - or a plant - accepted 4 of 10)
        T0 = rnd.choice([4, 6, 8, 8])        # (steps of the base grid: grids of 2 / 4 times the step exist over the same horizon)
        base = gen.gen_portfolio(rnd, kinds=kinds, tmin=T0, tmax=T0, tz_prob=0.1, allow_mip=True, max_assets=rnd.choice([1, 2, 3]), nodes_max=3,
                                 allow_freq=False, allow_periodic=False, allow_blocks=False, grids=grids0)
        types = {a['type'] for a in scen.all_asset_specs(base)}
        if types & set(PLANT_TYPES[1:]) or ('Plant' in types and rnd.random() < 0.4) or rnd.random() < 0.05:
            break
    g0 = {k: v for k, v in base['grid'].items()}
    grids = [g0]
    for _ in range(4):
        grids = [g0] + freq_grid_variants(rnd, g0, rnd.randint(1, 3), tmax=16, unit_p=0.15, kinds=['coarser', 'coarser', 'coarser', 'finer', 'same', 'respell'])
        if any(g['step_s'] != g0['step_s'] for g in grids):
            break
    touched = vary_layout(rnd, base, grids)
    vary_forms(rnd, base)
    case = finish_case(rnd, base, grids, hist_len=rnd.randint(3, 7), cuts=CUTS_LAYOUT, mismatch_p=0.03, prefer=touched or None)
    finish_layout(rnd, case)
    case['stream'] = 'layout'
    return case


# ----- stream "pdata": the user's PRICE DATA in every container, the same container object through every door, on other horizons
TIME_FORMS = ('dict_series_time', 'df_time')
PDATA_FORMS = ['dict', 'dict_list', 'dict_series', 'dict_series_time', 'dict_series_time', 'dict_series_time', 'df_time', 'df_time', 'df_range']
CAST_DOORS = ('pf_cast', 'io_optimize', 'pf_split')            # data are cast to the grid by time (Timegrid.prices_to_grid) first
DIRECT_DOORS = ('pf_setup', 'cost_samples', 'asset_setup')     # the container itself reaches the set-up of the assets


def gen_pdata_case(rnd):
    """the user holds DATA FOR A PERIOD (grid 0) in one container - dict of arrays / lists / Series with RangeIndex, dict of Series WITH
    DatetimeIndex, DataFrame with DatetimeIndex / RangeIndex - and uses THE SAME OBJECT for 3-7 calls on the period and on other horizons
    (1-3 variants: shifted by some steps, a part of the period, longer, an equal grid, other step / main time unit): handed directly to
    a set-up (portfolio, cost samples, single asset; needs the length of the grid) and through the doors that cast data to the grid by
    time (Timegrid.prices_to_grid + set-up, eaopack.io.optimize with and without intervals, split set-up); a second data set in 4 of 10
    cases; 6 of 10 histories start with a direct handover on the period.  The fresh side of the history oracle builds the container anew
    for every call: "a later call with the used container equals the call with a pristine copy"."""
    kinds = ['simple', 'simple', 'contract', 'storage', 'storage', 'transport', 'plant', 'chp', 'multi', 'scaled', 'structured']
    base = gen.gen_portfolio(rnd, kinds=kinds, tmin=3, tmax=8, tz_prob=0.15, allow_mip=rnd.random() < 0.3, max_assets=rnd.choice([1, 2, 3]),
                             allow_freq=rnd.random() < 0.2, allow_periodic=False, allow_blocks=False)
    vary_forms(rnd, base)
    g0 = {k: v for k, v in base['grid'].items()}
    grids = [g0] + [g for g in grid_variants(rnd, g0, rnd.randint(2, 4)) if g['kind'] != 'tz'][:3]
    Ts = [_T(g) for g in grids]
    keys = list(base['prices'].keys())

    def data_set(T):
        d = {k: [rnd.choice(base['prices'][k]) for _ in range(T)] for k in keys}
        ps = [k for k in keys if k.startswith('p')]
        if ps and rnd.random() < 0.5:
            d[rnd.choice(ps)] = [float(i + 1) for i in range(T)]      # strictly increasing: data assigned to the wrong time show
        return d
    prices = []
    for _ in range(1 if rnd.random() < 0.6 else 2):
        prices.append({'T': Ts[0], 'form': rnd.choice(PDATA_FORMS), 'data': data_set(Ts[0]), 'index_grid': 0})
    for gid in range(1, len(grids)):
        if Ts[gid] != Ts[0] and rnd.random() < 0.4:
            prices.append({'T': Ts[gid], 'form': rnd.choice(PDATA_FORMS), 'data': data_set(Ts[gid]), 'index_grid': gid})
    names = spec_names(base)
    hist = []
    n_calls = rnd.randint(3, 7)
    while len(hist) < n_calls:
        first = not hist
        pid = 0 if (first or rnd.random() < 0.7) else rnd.randrange(len(prices))
        p = prices[pid]
        fit = [g for g, t in enumerate(Ts) if t == p['T']]
        if first and rnd.random() < 0.6:
            door = rnd.choice(['pf_setup', 'pf_setup', 'pf_setup', 'cost_samples', 'asset_setup'])
        elif p['form'] in TIME_FORMS:
            door = rnd.choice(DIRECT_DOORS[:2] + CAST_DOORS + CAST_DOORS)
        else:
            door = rnd.choice(DIRECT_DOORS + CAST_DOORS)
        if door in DIRECT_DOORS or p['form'] not in TIME_FORMS:
            # the length must fit (3 of 100: any grid)
            gid = rnd.choice(fit) if rnd.random() >= 0.03 else rnd.randrange(len(grids))
        else:
            gid = rnd.randrange(len(grids))
        c = {'op': door, 'grid': gid, 'reuse': rnd.random() < 0.6, 'prices': pid}
        if door == 'cost_samples':
            c['prices'] = [pid] * rnd.randint(1, 2)
        elif door == 'asset_setup':
            c['asset'] = rnd.choice(names)[0]
        elif door == 'pf_split' or (door == 'io_optimize' and rnd.random() < 0.4):
            c['interval'] = _tick(max(1, Ts[gid] // rnd.choice([2, 3])) * grids[gid]['step_s'])
        hist.append(c)
        if door in ('pf_setup', 'pf_cast', 'pf_split') and rnd.random() < 0.3 and len(hist) < n_calls:
            hist.append({'op': 'optimize', 'soft': False})
            if rnd.random() < 0.6:
                hist.append({'op': rnd.choice(['extract', 'dcf']), 'asset': rnd.choice(names)[0]})
    return {'base': base, 'grids': grids, 'prices': prices, 'history': hist, 'stream': 'pdata'}


# ----- stream "splitfail": split set-ups that RAISE in one of their intervals (data that is fine at first and invalid from some step on),
# followed by set-ups WITHOUT grid argument: "the grid set before" must not be the temporary grid of the interval that failed
CAP_TYPES = ('SimpleContract', 'Contract')


def poisonable(base):
    """(asset name, parameter, key, value that makes the set-up raise) for every parameter of the scenario that is a KEY into the data and
    whose series can be made invalid: a maximum capacity far below every minimum capacity (contracts: ill-posed; plants: negative),
    a fuel efficiency / power-heat conversion factor of zero"""
    out = []
    for a in scen.all_asset_specs(base):
        args = a.get('args', {})
        if isinstance(args.get('max_cap'), str) and a['type'] in CAP_TYPES + PLANT_TYPES:
            out.append((a['name'], 'max_cap', args['max_cap'], -50.0))
        if a['type'] in PLANT_TYPES:
            for k in ('fuel_efficiency', 'conversion_factor_power_heat'):
                if isinstance(args.get(k), str):
                    out.append((a['name'], k, args[k], 0.0))
    return out


def gen_splitfail_case(rnd):
    """a random prefix of 0-4 calls, then - in half of the cases after a set-up of the portfolio on the same grid - a split set-up
    (1 of 5: io.optimize with intervals) on a data set that is valid up to some step and INVALID from there on (a capacity / efficiency
    given as key into the data: maximum below minimum capacity, efficiency zero; 1 of 8: a data set of the wrong length instead), so that
    the set-up raises in the first or - 3 of 4 - in a later interval; then 1-3 set-ups WITHOUT grid argument (portfolio, top-level assets)
    with valid data, some optimised and read out, and sometimes one more set-up with grid"""
    kinds = ['simple', 'simple', 'contract', 'contract', 'storage', 'transport', 'plant', 'chp', 'scaled', 'structured', 'multi']
    base = gen.gen_portfolio(rnd, kinds=kinds, tmin=4, tmax=12, tz_prob=0.1, allow_mip=rnd.random() < 0.2, max_assets=rnd.choice([1, 2, 3]),
                             allow_freq=False, allow_periodic=False, allow_blocks=False)
    g0 = {k: v for k, v in base['grid'].items()}
    T0 = _T(g0)
    if rnd.random() < 0.5:
        vary_data_keys(rnd, base, False)
    if not poisonable(base) or rnd.random() < 0.3:
        # a scalar maximum capacity of a contract re-expressed as a key (constant series)
        cs = [a for a in scen.all_asset_specs(base) if a['type'] in CAP_TYPES and isinstance(a['args'].get('max_cap'), (int, float))]
        if cs:
            a = rnd.choice(cs)
            key = 'capz_%s' % a['name']
            base['prices'][key] = [float(a['args']['max_cap'])] * T0
            a['args']['max_cap'] = key
    vary_forms(rnd, base)
    grids = [g0] + grid_variants(rnd, g0, rnd.randint(0, 2))
    case = finish_case(rnd, base, grids, hist_len=rnd.randint(1, 4), mismatch_p=0.03)
    if rnd.random() < 0.25:
        case['history'] = []
    case['stream'] = 'splitfail'
    prices, Ts = case['prices'], [_T(g) for g in grids]
    gid = rnd.choice([i for i, t in enumerate(Ts) if t >= 2] or [0])
    T = Ts[gid]
    good = [i for i, p in enumerate(prices) if p['T'] == T]
    m = max(1, T // rnd.choice([2, 3, 4]))                 # steps per interval
    iv = _tick(m * grids[gid]['step_s'])
    pz = poisonable(base)
    if pz and rnd.random() < 0.875:
        name, par, key, badv = rnd.choice(pz)
        s0 = rnd.randint(m, T - 1) if (T > m and rnd.random() < 0.75) else rnd.randint(0, max(0, min(m, T) - 1))
        bad = copy.deepcopy(prices[rnd.choice(good)])
        bad['data'][key] = [v if t < s0 else badv for t, v in enumerate(bad['data'][key])]
        bad['poison'] = {'asset': name, 'parameter': par, 'key': key, 'from_step': s0}
        prices.append(bad)
        bad_pid = len(prices) - 1
    else:
        other = [i for i, p in enumerate(prices) if p['T'] != T]
        if not other:
            prices.append({'T': T + 1, 'form': 'dict', 'data': {k: list(v) + [v[-1]] for k, v in prices[good[0]]['data'].items()}})
            other = [len(prices) - 1]
        bad_pid = rnd.choice(other)
    names = spec_names(base)
    top = [n for n, t, tp in names if tp]
    reuse = lambda: rnd.random() < 0.6
    tail = []
    if rnd.random() < 0.5:
        tail.append({'op': rnd.choice(['pf_setup', 'pf_setup', 'pf_split']), 'grid': gid, 'reuse': reuse(), 'prices': rnd.choice(good), 'interval': iv})
        if tail[-1]['op'] == 'pf_setup':
            tail[-1].pop('interval')
    if rnd.random() < 0.2:
        tail.append({'op': 'io_optimize', 'grid': gid, 'reuse': reuse(), 'prices': bad_pid, 'interval': iv})
    else:
        tail.append({'op': 'pf_split', 'grid': gid, 'reuse': reuse(), 'prices': bad_pid, 'interval': iv})
    for _ in range(rnd.randint(1, 3)):
        if rnd.random() < 0.5:
            tail.append({'op': 'pf_setup', 'grid': gid, 'reuse': True, 'prices': rnd.choice(good), 'noarg': True})
            if rnd.random() < 0.4:
                tail.append({'op': 'optimize', 'soft': False})
                tail.append({'op': rnd.choice(['extract', 'dcf']), 'asset': rnd.choice(top)})
        else:
            tail.append({'op': 'asset_noarg', 'asset': rnd.choice(top), 'prices': rnd.choice(good)})
    if rnd.random() < 0.3:
        g2 = rnd.randrange(len(grids))
        ok2 = [i for i, p in enumerate(prices) if p['T'] == Ts[g2] and 'poison' not in p] or [0]
        tail.append({'op': rnd.choice(['pf_setup', 'pf_split']), 'grid': g2, 'reuse': reuse(), 'prices': rnd.choice(ok2),
                     'interval': _tick(max(1, Ts[g2] // 2) * grids[g2]['step_s'])})
        if tail[-1]['op'] == 'pf_setup':
            tail[-1].pop('interval')
    case['history'] = case['history'] + tail
    return case


# ===================================================================== canonical forms
def _san(a):
    a = np.array(a, dtype=float, copy=True).ravel()
    a[np.isnan(a)] = NAN_S
    a[a == np.inf] = PINF_S
    a[a == -np.inf] = NINF_S
    return a


def pj(op):
    """impl.problem_json of an OptimProblem, with nan/inf replaced by sentinels"""
    A = op.A
    if A is not None:
        import scipy.sparse as sp
        A = sp.csr_matrix(A, copy=True)
        A.data = _san(A.data)
    ns = types.SimpleNamespace(c=_san(op.c), l=_san(op.l), u=_san(op.u), A=A, b=None if op.b is None else _san(op.b),
                               cType=op.cType, mapping=op.mapping, map_nodal_restr=getattr(op, 'map_nodal_restr', None))
    return impl.problem_json(ns)


def canon_result(kind, val):
    if kind == 'problem':
        return pj(val)
    if kind == 'split':
        return {'ops': [pj(o) for o in val.ops], 'mapping': impl.mapping_rows(val.mapping),
                'nodal': None if val.map_nodal_restr is None else [[int(t), str(n)] for t, n in val.map_nodal_restr]}
    if kind == 'costs':
        return [[impl.fs(x) for x in _san(v)] for v in val]
    if kind == 'array':
        return [impl.fs(x) for x in _san(val)]
    if kind == 'tables':
        out = {}
        for k, df in val.items():
            if df is None:
                out[k] = None
                continue
            d = {'index': [str(x) for x in df.index]}
            for c in df.columns:
                col = df[c].values
                try:
                    d[str(c)] = [impl.fs(x) for x in _san(col)]
                except (TypeError, ValueError):
                    d[str(c)] = [str(x) for x in col]
            out[k] = d
        return out
    return None


def diff_result(kind, fresh, hist):
    """list of difference strings; first argument is the fresh-object result"""
    if kind == 'problem':
        ds = pf.cmp_problem('problem', fresh, hist, 0)
    elif kind == 'split':
        ds = []
        if len(fresh['ops']) != len(hist['ops']):
            ds.append('split: %d interval problems (fresh) vs %d (history)' % (len(fresh['ops']), len(hist['ops'])))
        else:
            for i, (a, b) in enumerate(zip(fresh['ops'], hist['ops'])):
                ds += pf.cmp_problem('interval%d' % i, a, b, 0)
            d = pf.cmp_mapping('split', fresh['mapping'], hist['mapping'], 0)
            if d:
                ds.append(d)
            if fresh['nodal'] != hist['nodal']:
                ds.append('split.nodal differs')
    elif kind in ('costs', 'array', 'tables'):
        ds = []
        if fresh != hist:
            ds.append('%s differ: %s (fresh) vs %s (history)' % (kind, _first_diff(fresh, hist), ''))
    else:
        ds = []
    return [d.replace('(model)', '(fresh)').replace('(impl)', '(history)') for d in ds]


def _first_diff(a, b, path=''):
    if type(a) != type(b):
        return '%s: %r vs %r' % (path, a, b)
    if isinstance(a, dict):
        for k in sorted(set(a) | set(b)):
            if k not in a or k not in b:
                return '%s: key %r only on one side' % (path, k)
            d = _first_diff(a[k], b[k], path + '/' + str(k))
            if d:
                return d
        return None
    if isinstance(a, list):
        if len(a) != len(b):
            return '%s: length %d vs %d' % (path, len(a), len(b))
        for i, (x, y) in enumerate(zip(a, b)):
            d = _first_diff(x, y, path + '[%d]' % i)
            if d:
                return d
        return None
    if a != b:
        try:
            return '%s: %s vs %s' % (path, float(Fraction(a)), float(Fraction(b)))
        except Exception:
            return '%s: %r vs %r' % (path, a, b)
    return None


# ----- user data snapshots
def canon_user(v, norm):
    """canonical form of a user value.  norm=False: container kinds and scalar/list distinction kept;
    norm=True: after the normalisation the property allows (scalar -> [scalar], index/array -> list)"""
    if isinstance(v, dict):
        return {'$dict': {str(k): canon_user(x, norm) for k, x in v.items()}}
    if isinstance(v, pd.DataFrame):
        return {'$df': {'index': canon_user(v.index, True), 'cols': {str(c): canon_user(v[c].values, True) for c in v.columns}}}
    if isinstance(v, pd.Series):
        return {'$series': {'index': canon_user(v.index, True), 'values': canon_user(v.values, True)}}
    if isinstance(v, (pd.Index, np.ndarray, list, tuple)):
        items = [canon_user(x, norm) for x in list(v)]
        return items if norm else {'$' + type(v).__name__: items}
    if isinstance(v, (pd.Timestamp, dt.datetime, dt.date, np.datetime64)):
        ts = pd.Timestamp(v)
        return 't:%s|%s' % (ts.isoformat(), ts.tz)
    if isinstance(v, (bool, np.bool_)):
        return bool(v)
    if isinstance(v, (int, float, np.integer, np.floating)):
        f = float(v)
        return 'nan' if math.isnan(f) else f
    if v is None or isinstance(v, str):
        return v
    return 'obj:' + type(v).__name__


def canon_interval_norm(c):
    """the allowed normalisation of {start, end, values}: scalars become one-element lists"""
    if isinstance(c, dict) and '$dict' in c:
        d = c['$dict']
        if 'start' in d and 'values' in d:
            return {'$dict': {k: (x if isinstance(x, list) else [x]) for k, x in d.items()}}
        return {'$dict': {k: canon_interval_norm(x) for k, x in d.items()}}
    return c


SKIP_ATTRS = ('nodes', 'timegrid', 'portfolio', 'base_asset', 'asset1', 'asset2')


# ===================================================================== a world = one object tree + pools
class World:
    def __init__(self, case):
        self.case = case
        scn = case['base']
        self.nodes = scen.make_nodes(scn['nodes'])
        specs = [predecode_spec(s) for s in scn['assets']]
        self.assets = [scen.build_asset(s, self.nodes) for s in specs]
        self.portf = Portfolio(self.assets)
        self.byname = {}
        self.children = {}
        for a in self.assets:
            self._walk(a)
        self.grids = {}
        self.pcont = {}
        self.fixes = {}
        self.born = {}
        self.split_started = None      # number of interval set-ups the last split set-up began (None: the last call was no split)
        self.split_entered = False     # did the last call reach Portfolio.setup_split_optim_problem at all (io.optimize may raise before)

    def _walk(self, a):
        self.byname[a.name] = a
        kids = []
        if hasattr(a, 'base_asset'):
            kids.append(a.base_asset)
        if isinstance(a, StructuredAsset):
            kids += list(a.portfolio.assets)
        self.children[a.name] = [k.name for k in kids]
        for k in kids:
            self._walk(k)

    def under(self, name):
        out = [name]
        for k in self.children.get(name, []):
            out += self.under(k)
        return out

    def grid(self, gid, reuse=True):
        if reuse and gid in self.grids:
            return self.grids[gid]
        g = scen.make_grid(self.case['grids'][gid])
        self.grids[gid] = g
        return g

    def prices(self, pid):
        if pid in self.pcont:
            return self.pcont[pid]
        p = self.case['prices'][pid]
        f = p['form']
        data = p['data']
        if f == 'dict':
            c = {k: np.asarray(v, dtype=float) for k, v in data.items()}
        elif f == 'dict_list':
            c = {k: [float(x) for x in v] for k, v in data.items()}
        elif f == 'dict_series':
            c = {k: pd.Series(np.asarray(v, dtype=float)) for k, v in data.items()}
        elif f == 'dict_series_time':
            tg = scen.make_grid(self.case['grids'][p['index_grid']])
            c = {k: pd.Series(np.asarray(v, dtype=float), index=tg.timepoints) for k, v in data.items()}
        elif f == 'df_range':
            c = pd.DataFrame({k: np.asarray(v, dtype=float) for k, v in data.items()})
        elif f == 'df_time':
            tg = scen.make_grid(self.case['grids'][p['index_grid']])
            c = pd.DataFrame({k: np.asarray(v, dtype=float) for k, v in data.items()}, index=tg.timepoints)
        else:
            raise ValueError(f)
        self.pcont[pid] = c
        self.born['prices #%d (%s)' % (pid, f)] = canon_user(c, False)      # state at creation, before any call saw it
        return c

    def user_data(self):
        """label -> live object, for everything the user handed over"""
        out = {}
        for name, a in self.byname.items():
            for k, v in a.__dict__.items():
                if k in SKIP_ATTRS or callable(v):
                    continue
                out['asset %s.%s' % (name, k)] = v
        for pid, c in self.pcont.items():
            out['prices #%d (%s)' % (pid, self.case['prices'][pid]['form'])] = c
        for key, d in self.fixes.items():
            out['fix_time_window %s' % (key,)] = d
        return out


class Snap:
    def __init__(self):
        self.base = {}
        self.reported = set()

    def update(self, world, after_call):
        """returns facts about labels whose value changed with respect to the first sighting"""
        facts = []
        for label, obj in world.user_data().items():
            strict = canon_user(obj, False)
            if label not in self.base:
                # attributes that appear on an asset after construction are computed by set-up, not user data
                if label.startswith('asset ') and after_call >= 0:
                    continue
                self.base[label] = world.born.get(label, strict)
                if strict == self.base[label]:
                    continue
            if strict == self.base[label]:
                continue
            before = self.base[label]
            level = 'form' if canon_interval_norm(_loosen(before)) == canon_interval_norm(_loosen(strict)) else 'semantic'
            sig = (label, repr(strict))
            if sig in self.reported:
                continue
            self.reported.add(sig)
            facts.append({'kind': 'user_data_changed', 'what': label, 'after_call': after_call, 'level': level,
                          'detail': _first_diff(_loosen(before), _loosen(strict)) or 'container kind changed',
                          'before': _short(before), 'after': _short(strict)})
        return facts


def _loosen(c):
    """drop container kinds ($list / $ndarray / $DatetimeIndex) from a strict canonical form"""
    if isinstance(c, dict):
        if len(c) == 1:
            k = next(iter(c))
            if k.startswith('$') and k not in ('$dict', '$df', '$series'):
                return [_loosen(x) for x in c[k]]
        return {k: _loosen(x) for k, x in c.items()}
    if isinstance(c, list):
        return [_loosen(x) for x in c]
    return c


def _short(c):
    s = repr(c)
    return s if len(s) < 300 else s[:300] + '...'


# ===================================================================== executing calls
class Ctx:
    """what the harness remembers of a run (history world only)"""

    def __init__(self, world):
        self.tracked = {n: None for n in world.byname}     # asset name -> grid id last set (None: never, '?': unknown)
        self.tracked['__pf__'] = None
        self.failed_split = set()   # names (top-level assets, '__pf__') whose grid was last set by the `finally:` of a split set-up that raised
        self.last = None            # dict(kind, op, call_index, gid, pid, portfolio_level, ok_compared)
        self.res = None


def _fix_dict(world, call, fresh_case_world_factory):
    """fix_time_window dict for a pf_setup call: x from the bounds of a fresh set-up without fixing"""
    key = (call['grid'], call['prices'], call['fix']['form'], call['fix']['k'], tuple(call.get('skip', [])))
    if key in world.fixes:
        return world.fixes[key]
    w = fresh_case_world_factory()
    with Quiet():
        op = w.portf.setup_optim_problem(w.prices(call['prices']), w.grid(call['grid']))
    lo = np.where(np.isfinite(op.l), op.l, -1.0)
    hi = np.where(np.isfinite(op.u), op.u, 1.0)
    x = np.clip(0.5 * np.ones(len(op.l)), lo, hi)
    tg = w.grid(call['grid'])
    k = min(call['fix']['k'], tg.T)
    f = call['fix']['form']
    if f == 'mask_list':
        I = [True] * k + [False] * (tg.T - k)
    elif f == 'mask_np':
        I = np.array([True] * k + [False] * (tg.T - k))
    else:
        I = tg.timepoints[k - 1].tz_localize(None).to_pydatetime() if tg.tz is not None else tg.timepoints[k - 1].to_pydatetime()
    d = {'I': I, 'x': x}
    world.fixes[key] = d
    return d


def run_setup_call(world, call, expected_gid=None, capture_io=True):
    """executes a set-up-like call on `world`; returns (kind, value).  Raises what the code raises."""
    op_ = call['op']
    portf = world.portf
    if op_ == 'asset_setup':
        a = world.byname[call['asset']]
        return 'problem_or_costs', a.setup_optim_problem(world.prices(call['prices']), world.grid(call['grid'], call.get('reuse', True)))
    if op_ == 'asset_noarg':
        a = world.byname[call['asset']]
        if expected_gid is None:
            return 'problem_or_costs', a.setup_optim_problem(world.prices(call['prices']))
        # fresh side: the documented meaning of "grid set before"
        return 'problem_or_costs', a.setup_optim_problem(world.prices(call['prices']), world.grid(expected_gid))
    if op_ == 'pf_setup':
        kw = {}
        if call.get('skip'):
            kw['skip_nodes'] = list(call['skip'])
        if call.get('fix') is not None:
            kw['fix_time_window'] = call['_fixdict']
        if call.get('noarg') and expected_gid is None:
            return 'problem', portf.setup_optim_problem(world.prices(call['prices']), **kw)
        gid = expected_gid if call.get('noarg') else call['grid']
        return 'problem', portf.setup_optim_problem(world.prices(call['prices']), world.grid(gid, call.get('reuse', True)), **kw)
    if op_ == 'pf_split':
        # (the set-ups of the intervals are counted: where a split set-up raised is a feature of the case)
        world.split_started = 0
        world.split_entered = True
        orig_su = portf.setup_optim_problem

        def counted(*a, _o=orig_su, **kw):
            world.split_started += 1
            return _o(*a, **kw)
        portf.__dict__['setup_optim_problem'] = counted
        try:
            return 'split', portf.setup_split_optim_problem(world.prices(call['prices']), world.grid(call['grid'], call.get('reuse', True)),
                                                            interval_size=call['interval'])
        finally:
            portf.__dict__.pop('setup_optim_problem', None)
    if op_ == 'pf_cast':
        tg = world.grid(call['grid'], call.get('reuse', True))
        return 'problem', portf.setup_optim_problem(tg.prices_to_grid(world.prices(call['prices'])), tg)
    if op_ == 'cost_samples':
        return 'costs', portf.create_cost_samples([world.prices(p) for p in call['prices']], world.grid(call['grid'], call.get('reuse', True)))
    if op_ == 'io_optimize':
        caught = {}
        names = ('setup_optim_problem', 'setup_split_optim_problem')
        for nm in names:
            orig = getattr(portf, nm)

            def wrapped(*a, _o=orig, _n=nm, **kw):
                if _n == 'setup_optim_problem' and call.get('interval'):
                    world.split_started += 1
                if _n == 'setup_split_optim_problem':
                    world.split_entered = True
                r = _o(*a, **kw)
                if _n not in caught and not kw.get('costs_only', False):
                    caught[_n] = r
                return r
            portf.__dict__[nm] = wrapped
        world.split_started = 0 if call.get('interval') else None
        try:
            try:
                eao.io.optimize(portf, world.grid(call['grid'], call.get('reuse', True)), world.prices(call['prices']),
                                split_interval_size=call.get('interval'))
            except Exception:
                # an exception AFTER the set-up part (solver, read-out) is not the set-up's; one inside it is
                # (with intervals: the set-up part is done when the split set-up returned, not when its first interval did)
                if ('setup_split_optim_problem' if call.get('interval') else 'setup_optim_problem') not in caught:
                    raise
        finally:
            for nm in names:
                portf.__dict__.pop(nm, None)
        if 'setup_split_optim_problem' in caught:
            return 'split', caught['setup_split_optim_problem']
        return 'problem', caught['setup_optim_problem']
    raise ValueError(op_)


def _kind_of(kind, val):
    if kind == 'problem_or_costs':
        return 'problem' if hasattr(val, 'mapping') else 'array'
    return kind


def run_read_call(world, call, op, res, prices, tg):
    o = call['op']
    if o == 'extract':
        out = eao.io.extract_output(world.portf, op, res, prices)
        return 'tables', {k: out.get(k) for k in ('dispatch', 'DCF', 'internal_variables', 'special')}
    if o == 'dcf':
        return 'array', world.byname[call['asset']].dcf(op, res)
    if o == 'fill_level':
        return 'array', world.byname[call['asset']].fill_level(op, res)
    if o == 'make_slp':
        k = min(call['k'], tg.T - 1)
        sf = tg.timepoints[max(1, k)] if tg.T > 1 else tg.timepoints[0]
        samples = [world.prices(p) for p in call['prices']]
        return 'problem', eao.stoch_lin_prog.make_slp(copy.deepcopy(op), world.portf, tg, sf, samples)
    raise ValueError(o)


def _op_prices(world, L, tg):
    """the prices the op of record `L` was built from: the container itself, after a `pf_cast` the container cast to the grid"""
    c = world.prices(L['pid'])
    if L['call'].get('op') == 'pf_cast' and tg is not None:
        return tg.prices_to_grid(c)
    return c


def layout_of(op):
    """asset name -> frozenset of the variable names the asset has in the problem (None: no mapping to read)"""
    mp = getattr(op, 'mapping', None)
    if mp is None or len(mp) == 0 or 'asset' not in mp.columns or 'var_name' not in mp.columns:
        return {}
    out = {}
    for nm, vn in zip(mp['asset'].values, mp['var_name'].values):
        out.setdefault(str(nm), set()).add(str(vn))
    return {k: frozenset(v) for k, v in out.items()}


def _frame_diff(a, b):
    """first difference of two frames (pristine, used) as text, None if equal (columns, index, values; nan = nan)"""
    if list(map(str, a.columns)) != list(map(str, b.columns)):
        return 'columns %s vs %s' % (list(a.columns)[:6], list(b.columns)[:6])
    if len(a.index) != len(b.index) or not a.index.equals(b.index):
        return 'index differs (%d vs %d rows)' % (len(a.index), len(b.index))
    for c in a.columns:
        x, y = np.asarray(a[c].values, dtype=float), np.asarray(b[c].values, dtype=float)
        if not np.array_equal(x, y, equal_nan=True):
            j = int(np.argmax(~((x == y) | (np.isnan(x) & np.isnan(y)))))
            return 'column %s, row %d: %s vs %s' % (c, j, x[j], y[j])
    return None


def probe_prices(case, H, pid):
    """oracle prices_changed_for_later_calls: the price container #pid of the history world is no longer in the state it was created in.
    A copy of it (so that the probes do not disturb the history) and a PRISTINE container (built anew from the case) are handed to the
    later calls a user can make with the data, on every grid of the case: Timegrid.prices_to_grid, and the direct set-up of a fresh
    object tree.  Returns (list of difference texts '(pristine) vs (used)', number of probes evaluated)."""
    out, n = [], 0
    for gid in range(len(case['grids'])):
        try:
            P, U = World(case), World(case)
            pristine = P.prices(pid)
            used = copy.deepcopy(H.pcont[pid])
            tgP, tgU = P.grid(gid), U.grid(gid)
        except Exception:
            continue
        # door 1: cast to the grid
        res = []
        for tg, c in ((tgP, pristine), (tgU, used)):
            try:
                res.append(('ok', tg.prices_to_grid(c)))
            except Exception as e:
                res.append(('raises', e))
        n += 1
        d = None
        if res[0][0] != res[1][0]:
            e = (res[1] if res[1][0] == 'raises' else res[0])[1]
            d = 'raises with the %s container only: %s: %s' % ('used' if res[1][0] == 'raises' else 'PRISTINE', type(e).__name__, str(e)[:160])
        elif res[0][0] == 'ok':
            d = _frame_diff(res[0][1], res[1][1])
        if d:
            out.append('Timegrid.prices_to_grid on grid %d: %s' % (gid, d))
            continue
        # door 2: handed directly to the set-up of a fresh object tree
        res = []
        for W, tg, c in ((P, tgP, pristine), (U, tgU, copy.deepcopy(H.pcont[pid]))):
            try:
                res.append(('ok', W.portf.setup_optim_problem(c, tg)))
            except Exception as e:
                res.append(('raises', e))
        n += 1
        if res[0][0] != res[1][0]:
            e = (res[1] if res[1][0] == 'raises' else res[0])[1]
            out.append('set-up of a fresh portfolio on grid %d raises with the %s container only: %s: %s' % (
                gid, 'used' if res[1][0] == 'raises' else 'PRISTINE', type(e).__name__, str(e)[:160]))
        elif res[0][0] == 'ok':
            try:
                ds = diff_result('problem', canon_result('problem', res[0][1]), canon_result('problem', res[1][1]))
            except Exception:
                ds = []
            if ds:
                out.append('set-up of a fresh portfolio on grid %d: %s' % (gid, '; '.join(ds[:2]).replace('(fresh)', '(pristine data)').replace('(history)', '(used data)')))
    return out, n


def ctor_params(obj):
    """names of the constructor parameters of the object's class and of its base classes (what the user can hand over)"""
    out = set()
    for cls in type(obj).__mro__:
        init = cls.__dict__.get('__init__')
        if init is None or cls is object:
            continue
        try:
            out |= {n for n, q in inspect.signature(init).parameters.items() if n != 'self' and q.kind not in (q.VAR_POSITIONAL, q.VAR_KEYWORD)}
        except (TypeError, ValueError):
            pass
    return out


def _param_change(world, ctor, fact):
    """(asset name, parameter) if the fact says that a CONSTRUCTOR PARAMETER of an asset changed its value beyond the accepted
    normalisation of its form (scalar -> one-element list, index / array -> list: level 'form'), else None"""
    if fact.get('kind') != 'user_data_changed' or fact.get('level') != 'semantic' or not fact['what'].startswith('asset '):
        return None
    for name in world.byname:
        pre = 'asset %s.' % name
        if fact['what'].startswith(pre) and fact['what'][len(pre):] in ctor[name]:
            return name, fact['what'][len(pre):]
    return None


def execute(case, compare=True, stop_at_first=False):
    """runs the history; returns dict(violations, facts, features, n_compared, error?).
    stop_at_first: True = stop after the first call with a violation, a string = after the first violation of that kind"""
    out = {'violations': [], 'facts': [], 'features': [], 'n_compared': 0, 'n_calls': len(case['history'])}
    feats = out['features']
    with Quiet():
        try:
            H = World(case)
        except Exception as e:
            feats.append('build-error:' + err_class(e))
            return out
    fresh_world = lambda: World(case)
    ctx = Ctx(H)
    snap = Snap()
    snap.update(H, -1)
    ctor = {n: ctor_params(a) for n, a in H.byname.items()}
    layouts = {}          # asset name -> variable names it had in the last problem it was part of
    for i, call0 in enumerate(case['history']):
        call = dict(call0)
        o = call['op']
        feats.append('op:' + o)
        if 'asset' in call and call['asset'] not in H.byname:
            continue
        for key in ('grid',):
            if key in call and call[key] >= len(case['grids']):
                call[key] = 0
        viol = None
        with Quiet():
            # ---------------------------------------------------------- set-up-like calls
            if o in SETUP_OPS:
                exp_gid = None
                comparable = compare
                if o == 'asset_noarg':
                    exp_gid = ctx.tracked.get(call['asset'])
                    obj_ = H.byname[call['asset']]
                    while exp_gid is None and hasattr(obj_, 'base_asset'):
                        # a scaled asset that never saw a grid itself works on the grid of its base asset (which may be a scaled asset again)
                        obj_ = obj_.base_asset
                        exp_gid = ctx.tracked.get(obj_.name)
                    if exp_gid == '?':
                        comparable = False
                        exp_gid = None
                if o == 'pf_setup' and call.get('noarg'):
                    exp_gid = ctx.tracked['__pf__']
                    if exp_gid == '?':
                        comparable = False
                        exp_gid = None
                # "the grid set before" after a split set-up that RAISED: for the portfolio and its top-level assets the grid of that call
                # (repo eb7f7dd); for WRAPPED assets the grid of that call or the one the object sat on before it
                # (a tuple of candidate grid ids, the grid of the failed call last); never the temporary grid of an interval
                after_failed = (o == 'asset_noarg' and call['asset'] in ctx.failed_split) or (o == 'pf_setup' and call.get('noarg') and '__pf__' in ctx.failed_split)
                if after_failed:
                    feats.append('noarg-after-failed-split:top-level')
                cands = list(exp_gid) if isinstance(exp_gid, tuple) else [exp_gid]
                if isinstance(exp_gid, tuple):
                    feats.append('noarg-after-failed-split')
                    if not comparable:
                        exp_gid = None
                if o == 'pf_setup' and call.get('fix') is not None:
                    try:
                        call['_fixdict'] = _fix_dict(H, call, fresh_world)
                        snap.update(H, i - 1)
                    except Exception:
                        call.pop('fix')
                # history side
                h_err, h_kind, h_val = None, None, None
                H.split_started = None
                H.split_entered = False
                try:
                    h_kind, h_val = run_setup_call(H, call)
                    h_kind = _kind_of(h_kind, h_val)
                except Exception as e:
                    h_err = e
                split_like = o == 'pf_split' or (o == 'io_optimize' and call.get('interval'))
                if h_err is None and h_kind == 'problem':
                    # the situation the stream `layout` aims at: the same object has other variables than in its set-up before
                    for nm, lay in layout_of(h_val).items():
                        old = layouts.get(nm)
                        if old is not None and old != lay and nm in H.byname:
                            feats.append('layout-changed:%s:%s' % (type(H.byname[nm]).__name__,
                                                                   'fewer-kinds-of-variables' if lay < old else 'more-kinds-of-variables' if lay > old else 'other-variables'))
                        layouts[nm] = lay
                if split_like and h_err is not None and H.split_started is not None:
                    feats.append('split-raises:' + ('before-the-intervals' if H.split_started == 0 else 'in-interval-1' if H.split_started == 1 else 'in-a-later-interval'))
                # fresh side
                if comparable:
                    for cand in cands:
                        viol = None
                        F = fresh_world()
                        fcall = dict(call)
                        fcall['reuse'] = False
                        if 'fix' in call:
                            fcall['_fixdict'] = copy.deepcopy(call['_fixdict'])
                        f_err, f_kind, f_val = None, None, None
                        try:
                            f_kind, f_val = run_setup_call(F, fcall, expected_gid=cand)
                            f_kind = _kind_of(f_kind, f_val)
                        except Exception as e:
                            f_err = e
                        cfeat = None
                        if h_err is not None and f_err is None:
                            viol = ('history_raises', '%s: %s' % (type(h_err).__name__, str(h_err)[:200]))
                        elif h_err is None and f_err is not None:
                            viol = ('fresh_raises_only', '%s: %s' % (type(f_err).__name__, str(f_err)[:200]))
                        elif h_err is not None:
                            cfeat = 'both-raise:' + err_class(h_err)
                            if err_class(h_err) != err_class(f_err):
                                out['facts'].append({'kind': 'error_class_differs', 'call': i, 'history': err_class(h_err), 'fresh': err_class(f_err)})
                        else:
                            if h_kind != f_kind:
                                viol = ('result_differs', 'kind %s (fresh) vs %s (history)' % (f_kind, h_kind))
                            else:
                                try:
                                    ds = diff_result(h_kind, canon_result(f_kind, f_val), canon_result(h_kind, h_val))
                                except Exception as e:
                                    ds = []
                                    feats.append('canon-error:' + type(e).__name__)
                                if ds:
                                    viol = ('result_differs', '; '.join(ds[:3]))
                                else:
                                    cfeat = 'equal:' + h_kind
                        if viol is None:
                            exp_gid = cand
                            if cfeat:
                                feats.append(cfeat)
                            break
                    else:
                        # no candidate fits: reported against the grid of the failed call (the last candidate)
                        exp_gid = cands[-1]
                    out['n_compared'] += 1
                    if len(cands) > 1:
                        feats.append('noarg-after-failed-split:compared')
                        if viol is not None:
                            viol = (viol[0], viol[1] + ' [after a split set-up that raised; compared with a fresh tree on each of the grids %s]' % (cands,))
                elif isinstance(exp_gid, tuple):
                    exp_gid = None
                # tracking
                gid_now = call.get('grid') if not (o == 'asset_noarg' or call.get('noarg')) else exp_gid
                if o in ('asset_setup', 'asset_noarg'):
                    touched = H.under(call['asset'])
                else:
                    touched = list(H.byname) + ['__pf__']
                top_level = {a.name for a in H.assets} | {'__pf__'}
                for n in touched:
                    if split_like and h_err is not None and gid_now is not None and n in top_level and H.split_entered \
                            and not (isinstance(h_err, AssertionError) and 'granular frequency' in str(h_err)):
                        # a split set-up that raised in or before one of its intervals: the portfolio and its top-level assets are put back
                        # on the grid of the call (`finally:` in setup_split_optim_problem, repo eb7f7dd; former finding F-10h)
                        ctx.tracked[n] = gid_now
                        ctx.failed_split.add(n)
                        continue
                    ctx.failed_split.discard(n)
                    if split_like and h_err is not None and gid_now is not None:
                        # wrapped assets after a split set-up that raised: see above
                        prev = ctx.tracked[n]
                        if prev is None or prev == '?':
                            ctx.tracked[n] = '?'
                        else:
                            cs = [c for c in (prev if isinstance(prev, tuple) else (prev,)) if c != gid_now] + [gid_now]
                            ctx.tracked[n] = cs[0] if len(cs) == 1 else tuple(cs)
                    else:
                        ctx.tracked[n] = '?' if (h_err is not None or gid_now is None) else gid_now
                if h_err is None and h_kind in ('problem', 'split') and o != 'asset_setup' and o != 'asset_noarg':
                    gid_l = gid_now
                    ctx.last = {'kind': h_kind, 'op': h_val, 'call': dict(call), 'index': i, 'gid': gid_l,
                                'pid': call['prices'] if not isinstance(call['prices'], list) else None,
                                'ok': viol is None, 'exp_gid': exp_gid}
                    ctx.res = None
                elif h_err is None and h_kind == 'problem':
                    ctx.last = {'kind': 'asset_problem', 'op': h_val, 'call': dict(call), 'index': i, 'gid': gid_now,
                                'pid': call['prices'], 'ok': viol is None, 'asset': call['asset'], 'exp_gid': exp_gid}
                    ctx.res = None
            # ---------------------------------------------------------- perturbations
            elif o == 'set_timegrid':
                try:
                    H.byname[call['asset']].set_timegrid(H.grid(call['grid'], call.get('reuse', True)))
                    ctx.tracked[call['asset']] = call['grid']
                    ctx.failed_split.discard(call['asset'])
                except Exception as e:
                    feats.append('set_timegrid-error:' + err_class(e))
                    ctx.tracked[call['asset']] = '?'
            elif o == 'optimize':
                if ctx.last is not None:
                    op = ctx.last['op']
                    try:
                        nv = len(op.c)
                        mip = pf.is_mip(op) if ctx.last['kind'] != 'split' else any(pf.is_mip(x) for x in op.ops)
                        res = None
                        if call.get('soft') or (mip and nv > 80):
                            res = op.optimize(make_soft_problem=True)
                        if not (mip and nv > 80):
                            res = op.optimize()
                        ctx.res = res
                        feats.append('optimized' if not isinstance(res, str) else 'unsolved')
                    except Exception as e:
                        feats.append('optimize-error:' + err_class(e))
            elif o == 'to_json':
                try:
                    t = call['target']
                    obj = H.portf if t == 'portfolio' else (next(iter(H.grids.values())) if t == 'grid' and H.grids else H.byname.get(t, H.portf))
                    eao.serialization.to_json(obj)
                except Exception as e:
                    feats.append('to_json-error:' + err_class(e))
            elif o in READ_OPS:
                L = ctx.last
                if L is None or ctx.res is None or isinstance(ctx.res, str) or L['kind'] == 'asset_problem':
                    continue
                if o in ('dcf', 'fill_level'):
                    a = H.byname[call['asset']]
                    if a.name not in [x.name for x in H.assets]:
                        continue
                    if o == 'fill_level' and not isinstance(a, eao.assets.Storage):
                        continue
                if o == 'make_slp' and (L['kind'] != 'problem' or pf.is_mip(L['op'])):
                    continue
                # still on the grid of that op?
                need = list(H.byname) + ['__pf__'] if o in ('extract', 'make_slp') else [call['asset']]
                on_grid = all(ctx.tracked[n] == L['gid'] for n in need)
                h_err, h_kind, h_val = None, None, None
                tgH = H.grids.get(L['gid'])
                try:
                    h_kind, h_val = run_read_call(H, call, L['op'], ctx.res, _op_prices(H, L, tgH), tgH)
                except Exception as e:
                    h_err = e
                if o == 'make_slp':
                    for n in list(H.byname) + ['__pf__']:
                        ctx.tracked[n] = '?' if h_err is not None else L['gid']
                if compare and on_grid and L['ok']:
                    F = fresh_world()
                    fc = dict(L['call'])
                    fc['reuse'] = False
                    if 'fix' in fc:
                        fc['_fixdict'] = copy.deepcopy(fc['_fixdict'])
                    f_err, f_kind, f_val = None, None, None
                    try:
                        _, fop = run_setup_call(F, fc, expected_gid=L.get('exp_gid'))
                        f_kind, f_val = run_read_call(F, call, fop, ctx.res, _op_prices(F, L, F.grid(L['gid'])), F.grid(L['gid']))
                    except Exception as e:
                        f_err = e
                    out['n_compared'] += 1
                    if h_err is not None and f_err is None:
                        viol = ('history_raises', '%s: %s' % (type(h_err).__name__, str(h_err)[:200]))
                    elif h_err is None and f_err is not None:
                        viol = ('fresh_raises_only', '%s: %s' % (type(f_err).__name__, str(f_err)[:200]))
                    elif h_err is None:
                        try:
                            ds = diff_result(h_kind, canon_result(f_kind, f_val), canon_result(h_kind, h_val))
                        except Exception as e:
                            ds = []
                            feats.append('canon-error:' + type(e).__name__)
                        if ds:
                            viol = ('result_differs', '; '.join(ds[:3]))
                        else:
                            feats.append('equal-readout:' + o)
                    else:
                        feats.append('both-raise-readout:' + err_class(h_err))
        new_facts = snap.update(H, i)
        out['facts'] += new_facts
        viols = [viol + (None,)] if viol is not None else []
        if compare:
            # oracle prices_changed_for_later_calls: a price container that a call left in another state than it was created in is handed
            # (as a copy) to the later calls a user can make with it, next to a pristine container
            for f in new_facts:
                if f.get('kind') == 'user_data_changed' and f['what'].startswith('prices #'):
                    pid_ = int(f['what'].split('#')[1].split(' ')[0])
                    with Quiet():
                        ds, n_pr = probe_prices(case, H, pid_)
                    out['n_compared'] += n_pr
                    feats.append('prices-container-changed:%s:%s' % (case['prices'][pid_]['form'], 'later-calls-differ' if ds else 'later-calls-equal'))
                    if ds:
                        viols.append(('prices_reuse', 'price data %s left changed by the call; later calls with it differ from those with a pristine copy: %s [the change: %s]' % (
                            f['what'], '; '.join(ds[:2]), str(f['detail'])[:240]), ('prices', pid_)))
                        break
        if o in SETUP_OPS or o == 'set_timegrid':
            # oracle parameter_changed: a set-up "does not alter user-supplied parameters": the constructor parameters of every asset
            # hold after the call what they held after construction (up to the accepted normalisation of the form)
            for f in new_facts:
                pc = _param_change(H, ctor, f)
                if pc is not None:
                    viols.append(('parameter_changed', 'parameter %s of asset %s (%s) changed by the call: %s -> %s' % (
                        pc[1], pc[0], type(H.byname[pc[0]]).__name__, f['before'], f['after']), pc))
                    break
        for vk, vdetail, pc in viols:
            changed = [f for f in out['facts'] if f['kind'] == 'user_data_changed']
            pform = None
            if vk == 'prices_reuse':
                pform, pc = case['prices'][pc[1]]['form'], None
            who = pc[0] if pc is not None else call.get('asset')
            out['violations'].append({'oracle': 'parameter_changed' if pc is not None else 'prices_changed_for_later_calls' if vk == 'prices_reuse' else 'history_' + vk,
                                      'detail': 'call %d (%s): %s' % (i, _call_str(call0), vdetail),
                                      'facts': {'kind': vk, 'call': i, 'op': o, 'history_ops': [c['op'] for c in case['history'][:i + 1]],
                                                'user_data_changed': changed[:5], 'shared_grid_object': bool(call.get('reuse')),
                                                'asset_type': type(H.byname[who]).__name__ if who is not None else None,
                                                'parameter': pc[1] if pc is not None else None,
                                                'nested': ('asset' in call and call['asset'] not in [a.name for a in H.assets]),
                                                'after_failed_split': bool(o in SETUP_OPS and after_failed),
                                                'prices_form': pform or (case['prices'][call['prices']]['form'] if isinstance(call.get('prices'), int)
                                                                         and call['prices'] < len(case['prices']) else None),
                                                'prices_changed_before': any(f['what'].startswith('prices') for f in changed)}})
        if viols and (stop_at_first is True or any(v[0] == stop_at_first for v in viols)):
            break
    return out


def _call_str(c):
    return ' '.join('%s=%s' % (k, v) for k, v in c.items() if not k.startswith('_'))


# ===================================================================== shrinking
def _fails(case, kind):
    try:
        # (a changed parameter shows on the history side alone: no fresh trees needed while shrinking)
        r = execute(case, compare=(kind != 'parameter_changed'), stop_at_first=kind)
    except Exception:
        return False
    return any(v['facts']['kind'] == kind for v in r['violations'])


def shrink(case, kind, budget=80):
    """greedy: cut after the failing call, drop calls, drop assets, drop user-data forms; keeps failing with the same oracle kind"""
    cur = copy.deepcopy(case)
    r = execute(cur, stop_at_first=kind)
    vs = [v for v in r['violations'] if v['facts']['kind'] == kind]
    if not vs:
        return cur
    cur['history'] = cur['history'][:vs[0]['facts']['call'] + 1]
    n = 0
    changed = True
    while changed and n < budget:
        changed = False
        for j in range(len(cur['history']) - 2, -1, -1):
            t = copy.deepcopy(cur)
            del t['history'][j]
            n += 1
            if _fails(t, kind):
                cur = t
                changed = True
            if n >= budget:
                break
        for j in range(len(cur['base']['assets']) - 1, -1, -1):
            if len(cur['base']['assets']) <= 1 or n >= budget:
                break
            t = copy.deepcopy(cur)
            gone = [x[0] for x in spec_names({'assets': [t['base']['assets'][j]]})]
            del t['base']['assets'][j]
            t['history'] = [c for c in t['history'] if c.get('asset') not in gone]
            n += 1
            if t['history'] and _fails(t, kind):
                cur = t
                changed = True
    return cur


# ===================================================================== component contract
def run_impl(case):
    return execute(case)


def oracle(case, impl_result, do_shrink=True):
    out = []
    seen = set()
    for v in impl_result['violations']:
        k = v['facts']['kind']
        if k in seen:
            continue
        seen.add(k)
        v = dict(v)
        if do_shrink:
            try:
                # (the known deviation H3 is met in dozens of histories of every run: its witnesses are cut after the failing call and
                # shortened with a small budget only; a smaller budget also where every trial runs the probes of the price containers)
                small = shrink(case, k, budget=12 if classify(v) == 'H3' else 30 if k == 'prices_reuse' else 80)
                r2 = execute(small, stop_at_first=k)
                v2 = [x for x in r2['violations'] if x['facts']['kind'] == k]
                if v2:
                    v = dict(v2[0])
                    v['scenario'] = small
            except Exception:
                pass
        out.append(v)
    return out


def describe(case):
    """human-readable script of a (shrunk) case"""
    lines = ['grids:']
    for i, g in enumerate(case['grids']):
        lines.append('  g%d: %s .. %s freq=%s unit=%s tz=%s' % (i, g['start'], g['end'], g['freq'], g['unit'], g['tz']))
    lines.append('prices:')
    for i, p in enumerate(case['prices']):
        lines.append('  p%d: form=%s T=%s %s' % (i, p['form'], p['T'], {k: v[:6] for k, v in p['data'].items()}))
    lines.append('assets:')
    for a in case['base']['assets']:
        lines.append('  ' + repr({k: v for k, v in a.items() if k != 'inner_nodes'})[:600])
    lines.append('history:')
    for i, c in enumerate(case['history']):
        lines.append('  %d: %s' % (i, _call_str(c)))
    return '\n'.join(lines)


def classify(v):
    """'H3' = the one known, unrepaired deviation (see notes/findings_history.md): a split set-up restores the full grid for the
    top-level assets only, the assets WRAPPED by a scaled / structured asset stay on the temporary grid of the last interval;
    visible when such a wrapped asset is then set up directly without grid argument.  Everything else is 'other':
    H1 (prices_to_grid, repaired by 669e5fd) and H2 (ScaledAsset without grid argument, repaired by 19afd7c) are no classes
    any more - a recurrence must surface as a plain violation."""
    f = v['facts']
    hist = f.get('history_ops', [])
    if f['op'] == 'asset_noarg' and f.get('nested') and ('pf_split' in hist or 'io_optimize' in hist):
        return 'H3'
    return 'other'


def _wgrid(start, end, unit='h', tz=None):
    g = {'start': start, 'end': end, 'freq': 'h', 'unit': unit, 'tz': tz, 'step_s': 3600}
    gen.fix_grid(g)
    return g


def witness_cases():
    """hand-minimised histories pinning the known deviations H1-H3 (same text as in the findings notes)"""
    A = _wgrid('2021-01-01T00:00:00', '2021-01-01T04:00:00')
    B = _wgrid('2021-01-02T00:00:00', '2021-01-02T04:00:00')
    Amin = _wgrid('2021-01-01T00:00:00', '2021-01-01T04:00:00', unit='min')
    Autc = _wgrid('2021-01-01T00:00:00', '2021-01-01T04:00:00', tz='UTC')
    mkt = {'type': 'SimpleContract', 'name': 'mkt1', 'nodes': ['N1'], 'args': {'min_cap': -1.0, 'max_cap': 1.0, 'price': 'p0'}}
    sca = {'type': 'ScaledAsset', 'name': 'sca1', 'args': {'max_scale': 2.0, 'fix_costs': 1.0},
           'base': {'type': 'SimpleContract', 'name': 'sca1_b', 'nodes': ['N1'], 'args': {'min_cap': -1.0, 'max_cap': 1.0, 'price': 'p0'}}}
    p = [1.0, 2.0, 3.0, 4.0]
    # scaled (window hour 1..) over structured (..hour 3 of day 2) over [transport, scaled over contract]
    deep = lambda: {'type': 'ScaledAsset', 'name': 'scw1', 'args': dict({'max_scale': 2.0, 'fix_costs': 1.0}, start={'$dt': '2021-01-01T01:00:00'}),
                    'base': {'type': 'StructuredAsset', 'name': 'sa1', 'nodes': ['N1'], 'inner_nodes': ['sa1_i1'], 'args': {'end': {'$dt': '2021-01-02T03:00:00'}}, 'inner': [
                        {'type': 'Transport', 'name': 'sa1_tr', 'nodes': ['sa1_i1', 'N1'], 'args': {'min_cap': 0.0, 'max_cap': 1.0}},
                        {'type': 'ScaledAsset', 'name': 'sa1_cw', 'args': {'max_scale': 2.0, 'fix_costs': 0.5, 'wacc': 0.1},
                         'base': {'type': 'SimpleContract', 'name': 'sa1_c', 'nodes': ['sa1_i1'], 'args': {'min_cap': -1.0, 'max_cap': 1.0, 'price': 'p0'}}}]}}
    base = lambda assets: {'grid': A, 'nodes': ['N1'], 'prices': {'p0': p}, 'assets': assets}
    return {
        'H1-prices-frame-index-replaced': {
            'base': base([mkt]), 'grids': [A, B], 'prices': [{'T': 4, 'form': 'df_range', 'data': {'p0': p}}],
            'history': [{'op': 'pf_split', 'grid': 0, 'reuse': True, 'prices': 0, 'interval': '2h'},
                        {'op': 'pf_split', 'grid': 1, 'reuse': True, 'prices': 0, 'interval': '2h'}]},
        'H1-prices-frame-index-replaced/raises': {
            'base': base([mkt]), 'grids': [A, Autc], 'prices': [{'T': 4, 'form': 'df_range', 'data': {'p0': p}}],
            'history': [{'op': 'io_optimize', 'grid': 1, 'reuse': True, 'prices': 0, 'interval': '2h'},
                        {'op': 'io_optimize', 'grid': 0, 'reuse': True, 'prices': 0, 'interval': '2h'}]},
        'H2-scaled-asset-without-grid-argument': {
            'base': base([sca]), 'grids': [A, Amin], 'prices': [{'T': 4, 'form': 'dict', 'data': {'p0': p}}],
            'history': [{'op': 'asset_setup', 'asset': 'sca1', 'grid': 1, 'reuse': True, 'prices': 0},
                        {'op': 'set_timegrid', 'asset': 'sca1', 'grid': 0, 'reuse': True},
                        {'op': 'asset_noarg', 'asset': 'sca1', 'prices': 0}]},
        'H2-scaled-asset-without-grid-argument/raises': {
            'base': base([sca]), 'grids': [A], 'prices': [{'T': 4, 'form': 'dict', 'data': {'p0': p}}],
            'history': [{'op': 'set_timegrid', 'asset': 'sca1', 'grid': 0, 'reuse': True},
                        {'op': 'asset_noarg', 'asset': 'sca1', 'prices': 0}]},
        'H2-scaled-asset-after-split': {
            'base': base([sca, mkt]), 'grids': [A], 'prices': [{'T': 4, 'form': 'dict', 'data': {'p0': p}}],
            'history': [{'op': 'pf_split', 'grid': 0, 'reuse': True, 'prices': 0, 'interval': '2h'},
                        {'op': 'asset_noarg', 'asset': 'sca1', 'prices': 0}]},
        'H3-wrapped-asset-left-on-interval-grid-after-split': {
            'base': base([sca, mkt]), 'grids': [A], 'prices': [{'T': 4, 'form': 'dict', 'data': {'p0': p}}],
            'history': [{'op': 'pf_split', 'grid': 0, 'reuse': True, 'prices': 0, 'interval': '2h'},
                        {'op': 'asset_noarg', 'asset': 'sca1_b', 'prices': 0}]},
        'H3-wrapped-asset-builds-last-interval-only': {      # prices of the interval's length: no exception, the problem of the last interval
            'base': base([sca, mkt]), 'grids': [A], 'prices': [{'T': 4, 'form': 'dict', 'data': {'p0': p}}, {'T': 2, 'form': 'dict', 'data': {'p0': p[:2]}}],
            'history': [{'op': 'pf_split', 'grid': 0, 'reuse': True, 'prices': 0, 'interval': '2h'},
                        {'op': 'asset_noarg', 'asset': 'sca1_b', 'prices': 1}]},
        'H3-inner-asset-of-structured-after-split': {
            'base': {'grid': A, 'nodes': ['N1', 'sa1_i1'], 'prices': {'p0': p}, 'assets': [
                {'type': 'StructuredAsset', 'name': 'sa1', 'nodes': ['N1'], 'inner_nodes': ['sa1_i1'], 'args': {}, 'inner': [
                    {'type': 'Transport', 'name': 'sa1_tr', 'nodes': ['sa1_i1', 'N1'], 'args': {'min_cap': 0.0, 'max_cap': 1.0}},
                    {'type': 'SimpleContract', 'name': 'sa1_c', 'nodes': ['sa1_i1'], 'args': {'min_cap': -1.0, 'max_cap': 1.0, 'price': 'p0'}}]}, mkt]},
            'grids': [A], 'prices': [{'T': 4, 'form': 'dict', 'data': {'p0': p}}],
            'history': [{'op': 'pf_split', 'grid': 0, 'reuse': True, 'prices': 0, 'interval': '2h'},
                        {'op': 'asset_noarg', 'asset': 'sa1_c', 'prices': 0}]},
        # wrappers nested in wrappers: a scaled asset over a structured asset holding a scaled asset
        'H3-deep-wrapped-assets-after-split': {
            'base': {'grid': A, 'nodes': ['N1', 'sa1_i1'], 'prices': {'p0': p}, 'assets': [deep(), mkt]},
            'grids': [A], 'prices': [{'T': 4, 'form': 'dict', 'data': {'p0': p}}],
            'history': [{'op': 'pf_split', 'grid': 0, 'reuse': True, 'prices': 0, 'interval': '2h'},
                        {'op': 'asset_noarg', 'asset': 'sa1_c', 'prices': 0}]},
        'nested-wrappers-direct-calls-on-every-level': {
            'base': {'grid': A, 'nodes': ['N1', 'sa1_i1'], 'prices': {'p0': p}, 'assets': [deep(), mkt]},
            'grids': [A, B], 'prices': [{'T': 4, 'form': 'dict', 'data': {'p0': p}}],
            'history': [{'op': 'pf_setup', 'grid': 0, 'reuse': True, 'prices': 0},
                        {'op': 'asset_setup', 'asset': 'sa1', 'grid': 1, 'reuse': True, 'prices': 0},
                        {'op': 'asset_noarg', 'asset': 'sa1_c', 'prices': 0},
                        {'op': 'asset_noarg', 'asset': 'scw1', 'prices': 0},
                        {'op': 'set_timegrid', 'asset': 'sa1_cw', 'grid': 0, 'reuse': False},
                        {'op': 'asset_noarg', 'asset': 'sa1_cw', 'prices': 0},
                        {'op': 'pf_setup', 'grid': 1, 'reuse': True, 'prices': 0, 'noarg': True}]},
    }


# what the oracle must report on the pinned histories: None = nothing (repaired), 'H3' = the known finding
WITNESS_EXPECT = {
    'H1-prices-frame-index-replaced': None,                 # repaired by 669e5fd
    'H1-prices-frame-index-replaced/raises': None,
    'H2-scaled-asset-without-grid-argument': None,          # repaired by 19afd7c
    'H2-scaled-asset-without-grid-argument/raises': None,
    'H2-scaled-asset-after-split': None,                    # top-level call after a split: fine since 19afd7c
    'H3-wrapped-asset-left-on-interval-grid-after-split': 'H3',
    'H3-wrapped-asset-builds-last-interval-only': 'H3',
    'H3-inner-asset-of-structured-after-split': 'H3',
    'H3-deep-wrapped-assets-after-split': 'H3',
    'nested-wrappers-direct-calls-on-every-level': None,
}


def check_witnesses():
    """name -> {'expected', 'observed': [(oracle, class, detail)], 'user_data_changed', 'ok'}"""
    out = {}
    for name, case in witness_cases().items():
        r = execute(case)
        obs = [(v['oracle'], classify(v), v['detail'][:200]) for v in r['violations']]
        exp = WITNESS_EXPECT.get(name)
        ok = (not obs) if exp is None else (len(obs) > 0 and all(o[1] == exp for o in obs))
        out[name] = {'expected': exp, 'observed': obs, 'ok': ok,
                     'user_data_changed': [f['what'] for f in r['facts'] if f['kind'] == 'user_data_changed']}
    return out


# ===================================================================== state-model correspondence (ties Properties/C10.lean to the code)
# The Lean state model (EAO.Model.State, driver op "state_run") is run on the SAME operation sequence as the real objects.
# After every operation the observable slots of both sides are compared:
#   * which grid OBJECT the portfolio and every object of the asset TREES (top-level assets and everything they wrap, to any depth:
#     base asset of a scaled asset, inner assets of a structured / linked asset, wrappers inside wrappers) points to (`.timegrid`),
#   * start / end of every object (clipped and restored by the wrappers above it),
#   * per grid object the `restricted` slot (compared as VALUES: start, end, freq, T, I, dt of the restricted grid the
#     model's writer token produces on that grid object vs the real `timegrid.restricted`) and the discount slot
#     (`timegrid.discount_factors` vs the factors of the model's wacc token; also the snapshot inside `restricted`),
#   * per operation what every builder READ - primitive assets, scaled assets (length of the restricted grid for the fix costs) and linked
#     assets (`self.timegrid.restricted.T`) - (`Used` of the model = slots of `self.timegrid` at the moment the builder's
#     `setup_optim_problem` returns), in builder order,
#   * the outcome class (ok / "no grid set").
STATE_KINDS_PRIMITIVE = True


def _naive_tok(ts):
    t = pd.Timestamp(ts)
    if t.tzinfo is not None:
        t = t.tz_localize(None)
    return int(t.value // 10 ** 9)


class StateTie:
    """model request builder + observer of the real objects of one World"""

    def __init__(self, world):
        self.W = world
        self.tok2dt = {}
        self.freqs = []
        self.w2f = {}
        self.objs = []            # grid objects by label (None: interval grid nobody references)
        self.addr = {}            # name -> address in the model: [number of the top-level asset, numbers of the wrapped assets down the tree]
        self.top = {}             # name -> index (top-level assets)
        self.assets_json = []
        self.ok = True
        self.why = None
        self.primitives = []      # objects whose builder reads are recorded (every object the model records a read for)
        self.storages = []
        self.shapes = set()       # which kinds of nesting the trees of this world hold (features)
        for idx, a in enumerate(world.assets):
            self.top[a.name] = idx
            self.assets_json.append(self.tree(a, [idx], []))
            if isinstance(a, eao.assets.Storage):
                self.storages.append(a)
        self.log = []

    @staticmethod
    def kids(a):
        """the objects an asset object wraps, in the order of the model: base asset of a scaled asset / inner assets of a structured or linked asset"""
        if hasattr(a, 'base_asset'):
            return [a.base_asset]
        if isinstance(a, StructuredAsset):
            return list(a.portfolio.assets)
        return []

    def tree(self, a, ad, above):
        """model tree (driver JSON) of the object `a` at address `ad`; `above`: kinds of the wrappers above it"""
        if a.name in self.addr:
            self.ok, self.why = False, 'object-twice-in-a-tree'       # Python aliasing: outside the model
        self.addr[a.name] = list(ad)
        self.depth_kind = getattr(self, 'depth_kind', {})
        if hasattr(a, 'base_asset'):
            kind = 'scaled'
        elif isinstance(a, StructuredAsset):
            kind = 'structured' if type(a) is StructuredAsset else 'linked'
        else:
            kind = 'plain'
        if above and kind != 'plain':
            self.shapes.add('%s-in-%s' % (kind, above[-1]))
        if len(above) >= 2:
            self.shapes.add('depth>=%d' % min(len(above) + 1, 4))
        if kind == 'linked':
            self.shapes.add('linked')
        self.depth_kind[a.name] = (kind if kind != 'plain' else 'leaf') + ('' if not above else '@depth%d' % min(len(above), 3))
        j = {'kind': kind, 'p': self.params(a)}
        ks = [self.tree(k, ad + [i], above + [kind]) for i, k in enumerate(self.kids(a))]
        if kind == 'scaled':
            j['base'] = ks[0]
        elif kind != 'plain':
            j['inner'] = ks
        # the order of `primitives` is irrelevant (the log is written at return time)
        if kind in ('plain', 'scaled') or (kind == 'linked' and ks):
            self.primitives.append(a)
        return j

    # ----- encoding
    def tok(self, ts):
        if ts is None:
            return None
        t = _naive_tok(ts)
        self.tok2dt.setdefault(t, ts)
        return t

    def params(self, a):
        f = None
        if getattr(a, 'freq', None) is not None:
            if a.freq not in self.freqs:
                self.freqs.append(a.freq)
            f = self.freqs.index(a.freq)
        w = impl.fs(a.wacc)
        self.w2f[w] = a.wacc
        return {'start': self.tok(a.start), 'stop': self.tok(a.end), 'freq': f, 'wacc': w}

    def label(self, obj, register=True):
        for i, o in enumerate(self.objs):
            if o is obj:
                return i
        if not register:
            return None
        self.objs.append(obj)
        return len(self.objs) - 1

    # ----- recording what the builders read / which storages computed a fill level
    def __enter__(self):
        self.log = []
        for a in self.primitives:
            orig = a.setup_optim_problem

            def wrapped(*args, _o=orig, _a=a, **kw):
                r = _o(*args, **kw)
                tg = getattr(_a, 'timegrid', None)
                self.log.append(('read', _a.name, tg, getattr(tg, 'restricted', None)))
                return r
            a.__dict__['setup_optim_problem'] = wrapped
        for a in self.storages:
            orig = a.fill_level

            def wrapped_f(*args, _o=orig, _a=a, **kw):
                self.log.append(('fill', _a.name, None, None))
                return _o(*args, **kw)
            a.__dict__['fill_level'] = wrapped_f
        return self

    def __exit__(self, *exc):
        for a in self.primitives:
            a.__dict__.pop('setup_optim_problem', None)
        for a in self.storages:
            a.__dict__.pop('fill_level', None)
        return False

    # ----- observables of the real objects
    def ptr(self, obj):
        tg = getattr(obj, 'timegrid', None)
        if tg is None:
            return None
        l = self.label(tg, register=False)
        return l if l is not None else 'unregistered-object'

    def obj_obs(self, a):
        return {'grid': self.ptr(a), 'start': None if a.start is None else _naive_tok(a.start), 'stop': None if a.end is None else _naive_tok(a.end),
                'sub': [self.obj_obs(k) for k in self.kids(a)]}

    def observe(self):
        W = self.W
        o = {'pf': self.ptr(W.portf), 'assets': [self.obj_obs(a) for a in W.assets], 'grids': []}
        for tg in self.objs:
            if tg is None:
                o['grids'].append(None)
                continue
            o['grids'].append({'restricted': getattr(tg, 'restricted', None),
                               'disc': None if getattr(tg, 'discount_factors', None) is None else np.array(tg.discount_factors, dtype=float, copy=True)})
        return o

    # ----- what the model's tokens mean on a real grid object
    def expected(self, tg, slot, disc):
        """the restricted grid `set_restricted_grid(start, end, freq)` builds on (a copy of) `tg` holding the factors of wacc `disc`"""
        c = copy.copy(tg)
        c.__dict__.pop('restricted', None)
        if disc is None:
            c.__dict__.pop('discount_factors', None)
        else:
            c.set_wacc(self.w2f[disc] if disc in self.w2f else float(Fraction(disc)))
        if slot is None:
            return c, None
        start = self.tok2dt[slot[0]] if slot[0] is not None else c.start
        end = self.tok2dt[slot[1]] if slot[1] is not None else c.end
        freq = self.freqs[slot[2]] if slot[2] is not None else c.freq
        return c, eao.Timegrid(start, end, freq=freq, main_time_unit=c.main_time_unit, ref_timegrid=c)

    def tokens(self):
        """(window token, kind of writer) for every object of every tree, in the order in which `writer_kind` tries them: the window an
        object has DURING a set-up through its wrappers (clipped by every wrapper above it) and, for wrapped objects, its own window"""
        if getattr(self, '_tokens', None) is not None:
            return self._tokens
        out = []
        mx = lambda a, b: a if b is None else (b if a is None else max(a, b))
        mn = lambda a, b: a if b is None else (b if a is None else min(a, b))

        def walk(j, above, cs, ce):
            p = j['p']
            es, ee = mx(p['start'], cs), mn(p['stop'], ce)
            clipped = (es, ee) != (p['start'], p['stop'])
            k = j['kind']
            own = []
            for c in ([j['base']] if k == 'scaled' else j.get('inner', [])):
                own += walk(c, above + [k], es, ee)
            if not above:
                kind = {'plain': 'plain-asset', 'scaled': 'scaled-wrapper', 'structured': 'structured-wrapper', 'linked': 'linked-wrapper'}[k]
            elif k == 'plain' and len(above) == 1:
                kind = 'scaled-base' if above[0] == 'scaled' else ('structured-inner-clipped' if clipped else 'structured-inner')
            else:
                kind = 'nested-%s%s' % ({'plain': 'leaf', 'scaled': 'scaled-wrapper', 'structured': 'structured-wrapper', 'linked': 'linked-wrapper'}[k],
                                         '-clipped' if clipped else '')
            out.append(((es, ee, p['freq']), kind))
            if above:
                own.append(((p['start'], p['stop'], p['freq']), 'inner-direct'))
            return own
        for j in self.assets_json:
            out += walk(j, [], None, None)
        self._tokens = out
        return out

    def writer_kind(self, slot):
        if slot is None:
            return 'empty'
        t = tuple(slot)
        for tok, kind in self.tokens():
            if tok == t:
                return kind
        return 'slp-present/future'


def _rt(r):
    if r is None:
        return None
    return (str(r.start), str(r.end), str(r.freq), int(r.T), tuple(int(i) for i in np.asarray(r.I).ravel()),
            tuple(float(x) for x in np.asarray(r.dt).ravel()))


def _arr_eq(a, b):
    if a is None or b is None:
        return a is None and b is None
    a, b = np.asarray(a, dtype=float), np.asarray(b, dtype=float)
    return a.shape == b.shape and bool(np.array_equal(a, b))


def _is_nogrid(e):
    """the one failure the slot model knows: no grid has been set on the object"""
    m = str(e)
    return m.startswith('Set timegrid') or "no attribute 'timegrid'" in m



def state_execute(case, drv, max_dis=6, version=None):
    """runs the history on a world of its own, observes the slots after every operation and compares with the Lean state model.
    returns {'disagreements': [{'component': 'state-model', 'detail'}], 'features': [...], 'ops': n compared, 'observables': n}"""
    out = {'disagreements': [], 'features': [], 'ops': 0, 'observables': 0, 'histories': 0}
    feats = out['features']
    with Quiet():
        try:
            W = World(case)
        except Exception as e:
            feats.append('state-skip:build-error')
            return out
    T = StateTie(W)
    if not T.ok:
        feats.append('state-skip:' + T.why)
        return out
    feats += ['state-tree:' + x for x in sorted(T.shapes)]
    steps = []          # per real operation: dict(call, group, raised, reads, obs)
    interval_labels = set()
    last = None
    res = None
    aborted = None
    for i, call0 in enumerate(case['history']):
        call = dict(call0)
        o = call['op']
        if 'asset' in call and call['asset'] not in W.byname:
            continue
        if 'grid' in call and call['grid'] >= len(case['grids']):
            call['grid'] = 0
        call.pop('fix', None)
        call.pop('skip', None)
        g = None
        if 'grid' in call and not call.get('noarg'):
            try:
                tg = W.grid(call['grid'], call.get('reuse', True))
            except Exception:
                aborted = 'grid-construction'
                break
            call['reuse'] = True
            g = T.label(tg)
        group = None
        raised = None
        post_setup_error = None
        nm = call.get('asset')
        where = T.addr[nm] if nm is not None else None          # address of the object in the model
        with Quiet(), T:
            try:
                if o in ('asset_setup', 'asset_noarg'):
                    gg = g if o == 'asset_setup' else None
                    group = [{'call': 'setup', 'ad': where, 'g': gg}]
                    run_setup_call(W, call)
                elif o == 'set_timegrid':
                    group = [{'call': 'setTimegrid', 'ad': where, 'g': g}]
                    W.byname[nm].set_timegrid(tg)
                elif o in ('pf_setup', 'pf_cast'):
                    group = [{'call': 'setupPortfolio', 'g': g}]
                    k, v = run_setup_call(W, call)
                    last = {'kind': 'problem', 'op': v, 'tg': getattr(W.portf, 'timegrid', None), 'pid': call['prices']}
                    res = None
                elif o == 'pf_split':
                    group = [{'call': 'setupSplit', 'g': g, 'tmp': None}]
                    k, v = run_setup_call(W, call)
                    last = {'kind': 'split', 'op': v, 'tg': tg, 'pid': call['prices']}
                    res = None
                elif o == 'cost_samples':
                    group = [{'call': 'setupPortfolio', 'g': g} for _ in call['prices']]
                    run_setup_call(W, call)
                elif o == 'io_optimize':
                    group = [{'call': 'setupSplit', 'g': g, 'tmp': None}] if call.get('interval') else [{'call': 'setupPortfolio', 'g': g}]
                    last, res = None, None
                    # the real shortcut; an exception AFTER its set-up part (solver, read-out) leaves the state of the set-up
                    mode = 'setup_split_optim_problem' if call.get('interval') else 'setup_optim_problem'
                    done = []
                    orig_m = getattr(W.portf, mode)

                    def flagged(*a_, _o=orig_m, **kw_):
                        r_ = _o(*a_, **kw_)
                        done.append(1)
                        return r_
                    W.portf.__dict__[mode] = flagged
                    try:
                        eao.io.optimize(W.portf, tg, W.prices(call['prices']), split_interval_size=call.get('interval'))
                    except Exception as e_io:
                        if not done:
                            raise
                        post_setup_error = e_io
                    finally:
                        W.portf.__dict__.pop(mode, None)
                elif o == 'optimize':
                    group = []
                    if last is not None:
                        try:
                            res = last['op'].optimize()
                        except Exception:
                            res = None
                elif o == 'to_json':
                    group = []
                    try:
                        t = call['target']
                        eao.serialization.to_json(W.portf if t == 'portfolio' else (next(iter(W.grids.values())) if t == 'grid' and W.grids else W.byname.get(t, W.portf)))
                    except Exception:
                        pass
                elif o in READ_OPS:
                    if last is None or res is None or isinstance(res, str):
                        continue
                    if o in ('dcf', 'fill_level'):
                        a = W.byname[nm]
                        if len(where) != 1 or (o == 'fill_level' and not isinstance(a, eao.assets.Storage)):
                            continue
                        group = [{'call': 'dcf', 'a': where[0]}] if o == 'dcf' else []      # fill_level: from the log
                    elif o == 'extract':
                        group = []
                    elif o == 'make_slp':
                        if last['kind'] != 'problem' or pf.is_mip(last['op']):
                            continue
                        tgl = last['tg']
                        kk = min(call['k'], tgl.T - 1)
                        sf = tgl.timepoints[max(1, kk)] if tgl.T > 1 else tgl.timepoints[0]
                        group = [{'call': 'makeSlp', 'g': T.label(tgl), 't': T.tok(sf)}]
                    run_read_call(W, call, last['op'], res, W.prices(last['pid']), last['tg'])
                else:
                    continue
            except Exception as e:
                raised = e
        if group is None:
            continue
        reads = [x for x in T.log if x[0] == 'read']
        fills = [x for x in T.log if x[0] == 'fill']
        # grid objects the code created itself (interval grids of a split) get the next labels, in order of first use
        new = []
        for _, _, tgo, _ in reads:
            if tgo is not None and T.label(tgo, register=False) is None:
                new.append(T.label(tgo))
                interval_labels.add(new[-1])
        for c in group:
            if c['call'] == 'setupSplit':
                c['tmp'] = list(new)
        if o in ('extract', 'io_optimize', 'fill_level'):
            group = group + [{'call': 'fillLevel', 'a': T.top[n]} for _, n, _, _ in fills if n in T.top]
        steps.append({'i': i, 'call': call0, 'group': group, 'raised': raised, 'reads': reads, 'obs': T.observe(),
                      'compare_reads': o not in ('make_slp',)})
        if post_setup_error is not None and fills:
            aborted = 'exception-in-read-out:' + err_class(post_setup_error)
            steps[-1]['unmodelled'] = True
            break
        if raised is not None and not _is_nogrid(raised):
            aborted = 'exception:' + err_class(raised)       # an exception the slot model does not know: state after it is not modelled
            steps[-1]['unmodelled'] = True
            break
    if aborted:
        feats.append('state-abort:' + aborted)
    if not steps:
        return out
    req = {'op': 'state_run', 'assets': T.assets_json, 'grids': len(T.objs), 'ops': [st['group'] for st in steps]}
    if version is not None:       # self-check of the comparison only: an OLD code version of the model must disagree with the repaired code
        req['version'] = version
    m = drv.ok(req)
    out['histories'] = 1
    dis = []

    def D(st, msg):
        if len(dis) < max_dis:
            dis.append({'component': 'state-model', 'detail': 'after call %d (%s) [model calls %s]: %s' % (
                st['i'], _call_str(st['call']), [c['call'] for c in st['group']], msg)})

    for st, ms in zip(steps, m['steps']):
        if st.get('unmodelled'):
            # the model must at least not have failed for lack of a grid where the code got past that check
            break
        out['ops'] += 1
        for c in st['group']:
            cn = c['call']
            if cn in ('setup', 'setTimegrid') and len(c['ad']) > 1:
                cn += 'Sub' if len(c['ad']) == 2 else 'Sub(depth %d)' % min(len(c['ad']) - 1, 3)
            feats.append('state-op:' + cn + ('(no grid arg)' if c['call'] in ('setup', 'setupPortfolio') and c.get('g') is None else ''))
        # theorem at run time: what the model's builders read is what setupPure predicts
        if version is None and ms['results'] != ms['pure']:
            D(st, 'model-internal: setupSt result %s differs from setupPure %s' % (ms['results'], ms['pure']))
        # outcome class
        m_err = any('err' in r for r in ms['results'])
        out['observables'] += 1
        if m_err != (st['raised'] is not None):
            D(st, 'outcome: model %s vs real %s' % ('noGrid' if m_err else 'ok', 'raised %s: %s' % (type(st['raised']).__name__, str(st['raised'])[:120]) if st['raised'] is not None else 'ok'))
            break
        feats.append('state-outcome:' + ('no-grid' if m_err else 'ok'))
        # builder reads
        if st['compare_reads'] and not m_err:
            used = [u for r in ms['results'] for u in r.get('ok', [])]
            if len(used) != len(st['reads']):
                D(st, 'builder reads: model %d vs real %d (%s)' % (len(used), len(st['reads']), [x[1] for x in st['reads']]))
            else:
                for u, (_, name, tgo, ro) in zip(used, st['reads']):
                    out['observables'] += 3
                    lbl = T.label(tgo, register=False) if tgo is not None else None
                    if lbl != u['grid']:
                        D(st, 'builder %s works on grid object %s (real) vs %s (model)' % (name, lbl, u['grid']))
                        continue
                    try:
                        c, exp = T.expected(tgo, u['restricted'], u['disc'])
                    except Exception as e:
                        feats.append('state-expected-error:' + err_class(e))
                        continue
                    if _rt(exp) != _rt(ro):
                        D(st, 'builder %s read restricted grid %s (real) vs %s (model token %s)' % (name, _rt(ro)[:4] if ro is not None else None, _rt(exp)[:4] if exp is not None else None, u['restricted']))
                    elif not _arr_eq(getattr(exp, 'discount_factors', None), getattr(ro, 'discount_factors', None)):
                        D(st, 'builder %s read discount factors that are not those of wacc %s (model)' % (name, u['disc']))
                    feats.append('state-read:' + T.writer_kind(u['restricted']))
                    feats.append('state-reader:' + T.depth_kind.get(name, '?'))
        # pointers
        ob = st['obs']
        out['observables'] += 1
        if ob['pf'] != ms['pf']:
            D(st, 'portfolio grid pointer: real %s vs model %s' % (ob['pf'], ms['pf']))
        def cmp_obj(ra, ma, path):
            out['observables'] += 3
            for k in ('grid', 'start', 'stop'):
                if ra[k] != ma[k]:
                    D(st, 'object %s %s: real %s vs model %s' % (path, {'grid': 'grid pointer'}.get(k, k), ra[k], ma[k]))
            if len(ra['sub']) != len(ma['sub']):
                D(st, 'object %s: %d wrapped assets (real) vs %d (model)' % (path, len(ra['sub']), len(ma['sub'])))
                return
            for si, (rs, msb) in enumerate(zip(ra['sub'], ma['sub'])):
                cmp_obj(rs, msb, '%s/%d' % (path, si))
        for ai, (ra, ma) in enumerate(zip(ob['assets'], ms['assets'])):
            cmp_obj(ra, ma, W.assets[ai].name)
        # grid slots
        for gi, (rg, mg) in enumerate(zip(ob['grids'], ms['grids'])):
            if rg is None:
                continue
            tgo = T.objs[gi]
            out['observables'] += 2
            try:
                c, exp = T.expected(tgo, mg['restricted'], mg['disc'])
            except Exception as e:
                feats.append('state-expected-error:' + err_class(e))
                continue
            if _rt(exp) != _rt(rg['restricted']):
                D(st, 'grid object %d restricted slot: real %s vs model token %s = %s' % (gi, (_rt(rg['restricted']) or [None])[:4], mg['restricted'], (_rt(exp) or [None])[:4]))
            elif exp is not None and not _arr_eq(getattr(exp, 'discount_factors', None), getattr(rg['restricted'], 'discount_factors', None)):
                D(st, 'grid object %d: discount factors inside the restricted grid are not those of the discount slot (wacc %s)' % (gi, mg['disc']))
            if not _arr_eq(getattr(c, 'discount_factors', None), rg['disc']):
                D(st, 'grid object %d discount slot: real factors are not those of wacc %s (model)' % (gi, mg['disc']))
            feats.append('state-writer:' + T.writer_kind(mg['restricted']) + ('@interval-grid' if gi in interval_labels else ''))
        if dis:
            break
    out['disagreements'] = dis
    return out


# ----- wrappers nested in wrappers, linked assets
WRAPPER_TYPES = ('ScaledAsset', 'StructuredAsset', 'LinkedAsset')
NEST_WINDOWS = ['inside', 'inside', 'start_only', 'end_only', 'covering', 'straddle_start', 'straddle_end']


def _scale_args(rnd):
    return {'min_scale': rnd.choice([0.0, 0.0, 0.5]), 'max_scale': rnd.choice([1.0, 2.0, 4.0]), 'norm_scale': rnd.choice([1.0, 2.0, 0.5]),
            'fix_costs': gen.q8(rnd, 0, 1)}


def _slots(base):
    """every place of the scenario that holds an asset spec: (list or dict holding it, key, spec, spec of the wrapper above or None)"""
    out = []

    def rec(holder, key, spec, above):
        out.append((holder, key, spec, above))
        if 'base' in spec:
            rec(spec, 'base', spec['base'], spec)
        for i, b in enumerate(spec.get('inner', [])):
            rec(spec['inner'], i, b, spec)
    for i, a in enumerate(base['assets']):
        rec(base['assets'], i, a, None)
    return out


def _linked_names(spec):
    """names a linked asset refers to (these inner assets must stay where they are, under their names)"""
    if spec is None or spec['type'] != 'LinkedAsset':
        return ()
    return (spec['args']['asset1_variable'][0], spec['args']['asset2_variable'][0])


def nest_wrappers(rnd, base, rounds=(1, 3), window_p=0.5):
    """WRAPPERS IN WRAPPERS, 1-3 rewritings of the scenario (in place), each one of:
    a scaled asset OVER a structured / linked asset; an asset wrapped by a structured asset becomes a SCALED asset over it; a structured asset
    INSIDE a new structured asset (with, sometimes, a further contract at its outer node); an asset that is no wrapper becomes the only
    inner asset of a new structured asset (so that portfolios without structured assets get one).  New wrappers get, with probability
    `window_p`, an own window (so that windows are clipped through several levels) and sometimes a wacc.  Returns the list of rewritings."""
    g = base['grid']
    T = len(next(iter(base['prices'].values()))) if base['prices'] else _T(g)
    names = {n for n, _, _ in spec_names(base)}
    made = []

    def fresh(prefix):
        i = 1
        while '%s%d' % (prefix, i) in names:
            i += 1
        names.add('%s%d' % (prefix, i))
        return '%s%d' % (prefix, i)

    def dress(args):
        if rnd.random() < window_p:
            gen.put_window(args, gen.window(rnd, g, kinds=NEST_WINDOWS))
        if rnd.random() < 0.4:
            args['wacc'] = rnd.choice([0.0, 0.05, 0.1, 0.5])
        return args

    for _ in range(rnd.randint(*rounds)):
        slots = _slots(base)
        structs = [x for x in slots if x[2]['type'] in ('StructuredAsset', 'LinkedAsset') and x[2]['name'] not in _linked_names(x[3])]
        inner = [x for x in slots if x[3] is not None and x[3]['type'] in ('StructuredAsset', 'LinkedAsset') and x[2]['name'] not in _linked_names(x[3])
                 and x[2]['type'] not in ('OrderBook',)]
        plain_top = [x for x in slots if x[3] is None and x[2]['type'] not in WRAPPER_TYPES + ('OrderBook',)]
        r = rnd.random()
        if r < 0.3 and structs:
            holder, key, spec, above = rnd.choice(structs)
            holder[key] = {'type': 'ScaledAsset', 'name': fresh('scw'), 'base': spec, 'args': dress(_scale_args(rnd))}
            if 'inner_nodes' in spec:
                holder[key]['inner_nodes'] = spec['inner_nodes']
            made.append('scaled-over-' + ('linked' if spec['type'] == 'LinkedAsset' else 'structured'))
        elif r < 0.6 and inner:
            holder, key, spec, above = rnd.choice(inner)
            holder[key] = {'type': 'ScaledAsset', 'name': fresh('scw'), 'base': spec, 'args': dress(_scale_args(rnd))}
            made.append('scaled-inside-' + ('linked' if above['type'] == 'LinkedAsset' else 'structured'))
        elif r < 0.85 and structs:
            holder, key, spec, above = rnd.choice(structs)
            wrap = {'type': 'StructuredAsset', 'name': fresh('sas'), 'nodes': list(spec['nodes']), 'inner': [spec], 'args': dress({})}
            if rnd.random() < 0.4:
                wrap['inner'].insert(rnd.choice([0, 1]), gen.gen_simple_contract(rnd, g, base['prices'], T, fresh('scx'), spec['nodes'][0]))
            if 'inner_nodes' in spec:
                wrap['inner_nodes'] = spec['inner_nodes']
            holder[key] = wrap
            made.append(('linked' if spec['type'] == 'LinkedAsset' else 'structured') + '-inside-structured')
        elif plain_top:
            holder, key, spec, above = rnd.choice(plain_top)
            holder[key] = {'type': 'StructuredAsset', 'name': fresh('sas'), 'nodes': list(spec['nodes']), 'inner': [spec], 'args': dress({})}
            made.append('structured-around-an-asset')
    return made


def linked_base(rnd):
    """scenario around a LINKED asset (harness/comp/slp.py `gen_linked_portfolio`: a CHP with `on` variables and a second unit that may
    dispatch only while the CHP has been on for time_back), waccs on every level; windows only rarely (a linked asset whose wrapped assets
    have differing windows raises: known finding F-09e)"""
    from . import slp as SLP
    base = SLP.gen_linked_portfolio(rnd)
    for a in scen.all_asset_specs(base):
        if rnd.random() < 0.5:
            a['args']['wacc'] = rnd.choice([0.0, 0.05, 0.1, 0.5])
        if a['type'] != 'LinkedAsset' and rnd.random() < 0.08:
            gen.put_window(a['args'], gen.window(rnd, base['grid'], kinds=['covering', 'straddle_end', 'end_only', 'inside']))
    return base


def gen_nested_case(rnd):
    """slot-logic histories (as `gen_state_case`) over portfolios with WRAPPERS NESTED IN WRAPPERS (scaled over structured, scaled /
    structured inside structured, to depth 4) and - 3 of 10 cases - a LINKED asset (alone, under a scaled asset, inside a structured asset,
    with a scaled asset among its wrapped assets); set-up and set_timegrid calls name objects on every level of the trees"""
    if rnd.random() < 0.3:
        case = gen_state_case(rnd, nest=lambda r, b: nest_wrappers(r, b, rounds=(0, 2), window_p=0.15), base=linked_base(rnd))
    else:
        case = gen_state_case(rnd, nest=nest_wrappers)
    case['stream'] = 'nested'
    return case


def gen_state_case(rnd, nest=None, base=None):
    """histories aimed at the slot logic: windows and waccs everywhere, scaled / structured / order book / storages,
    two or three grid objects of different horizon (one shared by everything), direct, portfolio, split set-ups and cost samples
    (`nest`: a rewriting of the scenario applied before the history is drawn; `base`: a scenario to use instead of a drawn one)"""
    kinds = ['simple', 'contract', 'storage', 'storage', 'orderbook', 'scaled', 'scaled', 'structured', 'structured', 'transport']
    if base is None:
        base = gen.gen_portfolio(rnd, kinds=kinds, tmax=8, tz_prob=0.1, allow_mip=False, max_assets=rnd.choice([2, 3, 4]),
                                 allow_freq=rnd.random() < 0.3, allow_periodic=False, allow_blocks=False)
        dress = True
    else:
        dress = False
    g0 = base['grid']
    for a in (scen.all_asset_specs(base) if dress else []):
        if a['type'] == 'OrderBook':
            if rnd.random() < 0.5:
                a['args']['wacc'] = rnd.choice([0.05, 0.1, 0.5])
            continue
        args = a['args']
        if 'freq' not in args and a['type'] != 'ScaledAsset' and 'start' not in args and 'end' not in args and rnd.random() < 0.6:
            gen.put_window(args, gen.window(rnd, g0, kinds=['inside', 'inside', 'start_only', 'end_only', 'straddle_start', 'straddle_end', 'covering', 'offgrid', 'after']))
        if a['type'] == 'ScaledAsset' and rnd.random() < 0.5:
            gen.put_window(args, gen.window(rnd, g0, kinds=['inside', 'start_only', 'end_only', 'covering']))
        if rnd.random() < 0.6:
            args['wacc'] = rnd.choice([0.0, 0.05, 0.1, 0.5])
    nested = nest(rnd, base) if nest is not None else None
    grids = [dict(g0)]
    step = pd.Timedelta(seconds=g0['step_s'])
    s0, e0, T0 = pd.Timestamp(g0['start']), pd.Timestamp(g0['end']), g0['T_nominal']
    for _ in range(rnd.randint(1, 2)):
        g = {k: g0[k] for k in ('start', 'end', 'freq', 'unit', 'tz', 'step_s')}
        kind = rnd.choice(['shift', 'shorter', 'longer', 'unit'])
        if kind == 'shift':
            k = rnd.choice([-2, -1, 1, 2])
            g['start'], g['end'] = gen.iso(s0 + k * step), gen.iso(e0 + k * step)
        elif kind == 'shorter' and T0 >= 3:
            a_ = rnd.randint(0, T0 - 2)
            g['start'], g['end'] = gen.iso(s0 + a_ * step), gen.iso(s0 + rnd.randint(a_ + 1, T0) * step)
        elif kind == 'longer':
            g['end'] = gen.iso(e0 + rnd.randint(1, 3) * step)
        else:
            g['unit'] = rnd.choice([u for u in ('h', 'd', 'min') if u != g0['unit']])
        try:
            gen.fix_grid(g)
        except Exception:
            continue
        if _T(g):
            g['kind'] = kind
            grids.append(g)
    Ts = [_T(g) for g in grids]
    keys = list(base['prices'].keys())
    prices = [{'T': T_, 'form': 'dict', 'data': {k: [rnd.choice(base['prices'][k]) for _ in range(T_)] for k in keys}} for T_ in Ts]
    names = spec_names(base)
    top = [n for n, t, tp in names if tp]
    storages = [n for n, t, tp in names if tp and t == 'Storage']
    hist = []
    tracked = {}
    n_ops = rnd.randint(3, 8)
    while len(hist) < n_ops:
        gid = rnd.randrange(len(grids))
        reuse = rnd.random() < 0.8
        r = rnd.random()
        if r < 0.22:
            nm = rnd.choice(names)[0]
            hist.append({'op': 'asset_setup', 'asset': nm, 'grid': gid, 'reuse': reuse, 'prices': gid})
            tracked[nm] = gid
        elif r < 0.30:
            nm = rnd.choice(names)[0]
            hist.append({'op': 'set_timegrid', 'asset': nm, 'grid': gid, 'reuse': reuse})
            tracked[nm] = gid
        elif r < 0.45:
            nm = rnd.choice(names)[0]
            hist.append({'op': 'asset_noarg', 'asset': nm, 'prices': tracked.get(nm, gid)})
        elif r < 0.62:
            c = {'op': 'pf_setup', 'grid': gid, 'reuse': reuse, 'prices': gid}
            if rnd.random() < 0.15 and '__pf__' in tracked:
                c = {'op': 'pf_setup', 'grid': tracked['__pf__'], 'noarg': True, 'prices': tracked['__pf__']}
            hist.append(c)
            for n, _, _ in names:
                tracked[n] = c['grid']
            tracked['__pf__'] = c['grid']
            if rnd.random() < 0.5:
                hist.append({'op': 'optimize', 'soft': False})
                hist.append({'op': rnd.choice(['extract', 'fill_level', 'dcf', 'make_slp']), 'asset': rnd.choice(storages or top), 'k': rnd.randint(1, 3), 'prices': [gid]})
        elif r < 0.78:
            iv = _tick(max(1, Ts[gid] // rnd.choice([2, 3])) * grids[gid]['step_s'])
            hist.append({'op': 'pf_split', 'grid': gid, 'reuse': reuse, 'prices': gid, 'interval': iv})
            for n in top:
                tracked[n] = gid
            tracked['__pf__'] = gid
        elif r < 0.90:
            hist.append({'op': 'cost_samples', 'grid': gid, 'reuse': reuse, 'prices': [gid] * rnd.randint(1, 2)})
            for n, _, _ in names:
                tracked[n] = gid
            tracked['__pf__'] = gid
        else:
            c = {'op': 'io_optimize', 'grid': gid, 'reuse': reuse, 'prices': gid}
            if rnd.random() < 0.4:
                c['interval'] = _tick(max(1, Ts[gid] // 2) * grids[gid]['step_s'])
            hist.append(c)
            for n in top:
                tracked[n] = gid
            tracked['__pf__'] = gid
    case = {'base': base, 'grids': grids, 'prices': prices, 'history': hist, 'state_case': True}
    if nested is not None:
        case['nested'] = nested
    return case


# ===================================================================== what the property module registers (harness/props/c10.py imports these)
P10 = 'EAO.Properties.C10'
THEOREMS = [
    (P10, 'EAO.C10.setup_pure', 'slot model of the mutable state (restricted-grid and discount slots of every grid object, grid pointer of the portfolio, grid pointer and window of EVERY object of the asset trees: scaled / structured / linked assets wrapping each other to any depth): for every reachable state and EVERY call of the current code version (on the portfolio, a top-level asset or, directly, a wrapped asset at any depth), what each builder reads is the own window of its object clipped by the windows of the wrappers above it, its own frequency and wacc, on the grid the call names or the object itself was put on; no side condition'),
    (P10, 'EAO.C10.setup_pure_with_grid', 'with an explicit grid argument the result is pure for any history and any code version, for the object at any address of a tree (plain, scaled, structured, linked; top-level or wrapped and called directly), even with all assets sharing one grid object'),
    (P10, 'EAO.C10.setup_pure_with_grid_top', 'the same for a top-level asset, in the words of the flat model'),
    (P10, 'EAO.C10.setup_pure_portfolio', 'the same for a portfolio set-up'),
    (P10, 'EAO.C10.setup_pure_split', 'the same for a split set-up: every interval problem of every asset is built from the asset\'s own data on the interval grid'),
    (P10, 'EAO.C10.inner_windows_restored', 'the windows of ALL objects of the trees (wrapped at any depth) equal the constructed ones in every reachable state'),
    (P10, 'EAO.C10.call_keeps_windows', 'stronger, for every state: no single call changes the window of any object (whatever a wrapper clips it restores)'),
    (P10, 'EAO.C10.pure_reads_clipped', 'reading of the recursive specification: every primitive or scaled asset at any path below the object set up reads its own frequency and wacc and its own window clipped by the windows of ALL wrappers above it'),
    (P10, 'EAO.C10.linked_reads_last_inner', 'a linked asset reads what a structured asset with the same inner assets reads and then, for its loop over the steps, the window of the inner asset set up LAST (not its own, not those of the two linked assets)'),
    (P10, 'EAO.C10.linked_read_depends_on_inner_order', 'machine-checked witness (slot-model side of known finding F-09e): the read of a linked asset depends on the order of its inner assets'),
    (P10, 'EAO.C10.portfolio_setup_all_on', 'after a portfolio set-up with grid g the portfolio, all assets and all wrapped assets at every depth sit on g (every state, every code version)'),
    (P10, 'EAO.C10.setup_not_pure_without_rederive', 'machine-checked counterexample for the behaviour before 7e0d787 (set-up without grid argument did not re-derive)'),
    (P10, 'EAO.C10.scaled_noarg_not_pure_before_fix', 'machine-checked counterexample for the behaviour before 19afd7c (scaled asset without grid argument used the base asset\'s grid)'),
    (P10, 'EAO.C10.split_leaves_wrapped_assets_on_interval_grid', 'machine-checked witness of known finding F-10e: after a split set-up wrapped assets stay on the grid of the last interval'),
    (P10, 'EAO.C10.wrapped_noarg_after_split_not_pure', 'hence a direct set-up of a wrapped asset without grid argument depends on whether a split ran before (F-10e)'),
    (P10, 'EAO.C10.normalise_intervals', 'normal form of interval data (lists, implicit ends)'),
    (P10, 'EAO.C10.values_to_grid_normalise', 'evaluating the normal form gives the same result as evaluating the raw form'),
    (P10, 'EAO.C10.normalise_idem', 'normalisation is idempotent'),
]
PARTIAL = [
    'the Lean state model covers the slot logic only (who writes the restricted / discount slots and the grid pointers, what each builder reads back); '
    'Python aliasing of containers, pandas in-place semantics and the numeric content of the problems are covered only by the history oracle on the real code',
    'tie of the state model to the code: CHECKED on every run by the differential test "state-model" (driver op state_run vs the real objects after every operation: '
    'grid pointer of the portfolio, grid pointer, start and end of EVERY object of the asset trees (wrappers nested in wrappers to any depth, linked assets), restricted slot and discount slot of every reachable grid object, '
    'and per builder - primitive assets, scaled assets, linked assets - the slots of its grid at the moment its setup_optim_problem returns). Still by inspection: (a) that a builder reads nothing mutable besides '
    'self.timegrid.restricted between its own set_timegrid and its return (the test sees the slots at return, not each attribute access; the fresh-object oracle covers the effect); '
    '(b) the state after an exception other than "no grid set" (the comparison of a history stops there; this includes a split set-up that raises in one of its intervals - the grid pointers after it are checked by the '
    'history oracle, stream splitfail - and a linked asset whose loop raises, known finding F-09e); (c) one asset object at two places of a tree (Python aliasing; such histories are skipped by the state-model test), and a linked asset '
    'over an EMPTY portfolio (no read recorded in the model; its loop has no variable to link); '
    '(d) the two OLD code versions of the model (rederive / scaledOwnGrid = false) were compared once with the trees before 7e0d787 / 19afd7c on the counterexample histories, not on every run',
]
COMPONENTS = ['history oracle: n-th set-up on the same objects vs a fresh object tree, fresh grid and fresh price containers (exact comparison of c, l, u, rows, mapping); constructor parameters of all assets unchanged by set-up calls (parameter_changed); '
              'price containers changed by a call give, in later calls, what a pristine copy gives (prices_changed_for_later_calls)',
              'state-model: Lean slot model (state_run) vs slots, grid pointers and windows of the real objects (every object of the asset trees, to any depth) after every operation, and what every builder read']
RULE = ('random histories of 2-8 calls (asset/portfolio/split set-up with and without grid argument, skip nodes, fix windows, optimise incl. soft-then-plain, extract_output, dcf, fill_level, make_slp, to_json, '
        'cost samples, io.optimize) on the same objects over 1-3 grid variants (shifted, other frequency, zone, main time unit, same object reused or fresh) and price containers in 5 forms, plus slot-logic histories of 3-8 '
        'operations over portfolios with windows / waccs on every level, scaled and structured assets, order books, storages and 2-3 grid objects (one shared), '
        'plus stream "freq": the same kind of histories over assets WITH AN OWN FREQUENCY equal to the step of one of the grids of the case (written like the grid\'s or differently: h / 60min / 3600s, d / 1d / 24h) '
        'on 2-4 grids of one horizon with finer / coarser / equal step, plus stream "data": histories of 3-9 calls weighted towards repeated set-ups of the whole portfolio on the SAME grid object (1-2 grids, reuse 0.9) '
        'with 2-3 data sets per grid, over portfolios around plants / CHPs with fuel and heat nodes whose fuel_efficiency, consumption_if_on, start_fuel, conversion_factor_power_heat, max_share_heat, start / running / '
        'min-load costs are KEYS into the data (or interval dicts), plus stream "ramp": histories over portfolios around plants / CHPs with START / SHUTDOWN RAMP PROFILES (power and heat, lists or arrays, ramp_freq None = main time unit of the grid '
        'of the call, or set), minimum run / down times and ramps on 2-4 grids of one horizon that differ in step and (6 of 10 variants) in the MAIN TIME UNIT h / d / min, calls on single assets naming a plant in 7 of 10 cases; '
        'plus stream "nested": slot-logic histories over portfolios with WRAPPERS NESTED IN WRAPPERS (a scaled asset over a structured / linked asset, scaled and structured assets inside structured assets, to depth 4, own windows and waccs on every level) '
        'and - 3 of 10 - a LINKED asset (alone, under a scaled asset, inside a structured asset, with a scaled asset among its wrapped assets), set-up / set_timegrid calls naming objects on every level of the trees (features state-tree:*, state-reader:*); '
        'plus stream "layout" (120 histories of 3-7 calls, 4 of 10 direct set-ups of single assets): portfolios around assets whose VARIABLE LAYOUT depends on the grid or the data of the call - plants, CHPs, CHPs with minimum-load costs whose only '
        'reason for on / start variables is a minimum run / down time of several steps on the finest grid of the case and at most one step on the coarsest (or a start cost / start fuel / idle consumption keyed into the data and zero in 4 of 10 data sets), '
        'contracts with one or two variables per step depending on extra costs in the data or a capacity that changes sign over the horizon, storages with MIP options beside them - on 2-4 grids of one horizon (half of the variants 2-4 times the step, '
        'some shortened / shifted / other main time unit); features layout-changed:<class>:* count set-ups in which an object has other variables than in its set-up before (not run through the state model); '
        'plus stream "pdata" (120 histories of 3-7 calls): the user\'s price data for a period in ONE container object - dict of arrays / lists / Series with RangeIndex, dict of Series WITH DatetimeIndex, DataFrame with DatetimeIndex / RangeIndex - '
        'handed directly to set-ups (portfolio, cost samples, single asset) and through the doors that cast data to a grid by time (Timegrid.prices_to_grid + set-up = call pf_cast, io.optimize with / without intervals, split set-up) on the period and on 1-3 '
        'other horizons (shifted, part of the period, longer, equal grid, other step / unit); the fresh side builds the container anew for every call (= the pristine copy); '
        'in EVERY stream: whenever a call left a price container in another state than it was created in, oracle prices_changed_for_later_calls hands a copy of the used container and a pristine one to Timegrid.prices_to_grid and to the '
        'set-up of a fresh object tree on every grid of the case and demands equal results (features prices-container-changed:<form>:*); '
        'features stream:* / case:* count these situations; after every set-up call the constructor parameters of all assets are compared with their values after construction (oracle parameter_changed; normalisation of the form accepted); '
        'every history runs through the fresh-object oracle AND the state-model '
        'comparison; features state-op:* (model calls), state-read:* / state-writer:* (which kind of window the builders read / the slots hold); non-trivial = history with >= 2 compared set-up calls; distinct by case hash')
NEEDS_DRIVER = True


def scenarios(seed, tier):
    n, m = (400, 250) if tier == 'quick' else (2500, 1500)
    nf, nd = (150, 150) if tier == 'quick' else (1200, 1200)
    nr = 150 if tier == 'quick' else 1200
    ns = 200 if tier == 'quick' else 1500
    rnd = random.Random(seed * 7919 + 10)
    for name, c in witness_cases().items():
        yield 'witness:' + name, c
    for i in range(n):
        yield 'hist%d' % i, gen_case(random.Random(rnd.getrandbits(48)))
    for i in range(m):
        yield 'slots%d' % i, gen_state_case(random.Random(rnd.getrandbits(48)))
    rnd2 = random.Random(seed * 7919 + 1010)
    for i in range(nf):
        yield 'freq%d' % i, gen_freq_case(random.Random(rnd2.getrandbits(48)))
    for i in range(nd):
        yield 'data%d' % i, gen_data_case(random.Random(rnd2.getrandbits(48)))
    rnd3 = random.Random(seed * 7919 + 2010)
    for i in range(nr):
        yield 'ramp%d' % i, gen_ramp_case(random.Random(rnd3.getrandbits(48)))
    rnd4 = random.Random(seed * 7919 + 3010)
    for i in range(ns):
        yield 'splitfail%d' % i, gen_splitfail_case(random.Random(rnd4.getrandbits(48)))
    rnd5 = random.Random(seed * 7919 + 4010)
    for i in range(200 if tier == 'quick' else 1500):
        yield 'nested%d' % i, gen_nested_case(random.Random(rnd5.getrandbits(48)))
    rnd6 = random.Random(seed * 7919 + 5010)
    for i in range(120 if tier == 'quick' else 1000):
        yield 'layout%d' % i, gen_layout_case(random.Random(rnd6.getrandbits(48)))
    rnd7 = random.Random(seed * 7919 + 6010)
    for i in range(120 if tier == 'quick' else 1000):
        yield 'pdata%d' % i, gen_pdata_case(random.Random(rnd7.getrandbits(48)))


# streams whose histories do not run through the state-model comparison (their subject is the numeric content of the problems, on plain
# assets; the slot logic of such histories is that of the streams hist / freq / ramp)
NO_STATE_STREAMS = ('layout',)


def _step_of(freq):
    try:
        return int(pd.Timedelta(1, freq).total_seconds())
    except Exception:
        try:
            return int(pd.Timedelta(freq).total_seconds())
        except Exception:
            return None


def case_features(case):
    """what a case holds of the situations the streams 'freq' and 'data' aim at (read off the spec, for the feature histogram)"""
    f = []
    if case.get('stream'):
        f.append('stream:' + case['stream'])
    for x in case.get('nested') or []:
        f.append('case:nested:' + x)
    steps = [g.get('step_s') for g in case['grids']]
    for a in scen.all_asset_specs(case['base']):
        fr = a.get('args', {}).get('freq')
        if fr is not None and _step_of(fr) in steps:
            f.append('case:asset-freq=step-of-a-grid' + (',written-differently' if fr not in [g['freq'] for g in case['grids']] else ''))
            if min(s for s in steps if s) < _step_of(fr):
                f.append('case:asset-freq=step-of-a-grid,finer-grid-present')
        if a['type'] in PLANT_TYPES:
            for k in KEY_PARAMS:
                if isinstance(a.get('args', {}).get(k), str):
                    f.append('case:data-key:' + k)
            if any(k in a.get('args', {}) for k in PROFILE_ARGS):
                f.append('case:ramp-profiles,ramp_freq-%s' % ('set' if a['args'].get('ramp_freq') is not None else 'None'))
                if any(k.endswith('_heat') and k in a['args'] for k in PROFILE_ARGS):
                    f.append('case:ramp-profiles,heat')
                # the same plant set up (directly or with the portfolio) on grids of different main time units, one after the other
                units = [case['grids'][h['grid']]['unit'] for h in case['history'] if h['op'] in SETUP_OPS and 'grid' in h and not h.get('noarg')
                         and h['grid'] < len(case['grids']) and (h['op'] != 'asset_setup' or h.get('asset') == a['name'])]
                if len(set(units)) > 1:
                    f.append('case:ramp-profiles,set-up-under-several-main-time-units')
    if case.get('stream') == 'pdata':
        # the same container: first handed to a set-up directly, later cast to a grid of another horizon / through another door
        direct = {}
        for i, h in enumerate(case['history']):
            for pid in (h['prices'] if isinstance(h.get('prices'), list) else [h['prices']] if 'prices' in h else []):
                form = case['prices'][pid]['form']
                if h['op'] in DIRECT_DOORS:
                    direct.setdefault(pid, (i, h['grid']))
                    f.append('case:pdata:direct:' + form)
                elif h['op'] in CAST_DOORS:
                    f.append('case:pdata:cast:' + form)
                    if pid in direct:
                        g1, g2 = case['grids'][direct[pid][1]], case['grids'][h['grid']]
                        f.append('case:pdata:direct-then-cast:%s:%s' % (form, 'same-horizon' if (g1['start'], g1['end']) == (g2['start'], g2['end']) else 'other-horizon'))
    seq = [(h['grid'], h.get('reuse'), h['prices']) for h in case['history']
           if h['op'] in ('pf_setup', 'io_optimize') and not h.get('interval') and not h.get('noarg')]
    if any(a[0] == b[0] and b[1] and a[2] != b[2] for a, b in zip(seq, seq[1:])):
        f.append('case:same-grid-object-then-other-data')
    return sorted(set(f))


def run_case(case, drv):
    res = execute(case)
    viol = oracle(case, res, do_shrink=True)
    out = {'evaluated': max(1, res.get('n_compared', 1)), 'nontrivial': res.get('n_compared', 0) >= 2,
           'features': list(res.get('features', [])) + case_features(case), 'disagreements': [], 'violations': []}
    for v in viol:
        f = dict(v.get('facts', {}))
        f['class'] = classify(v)
        out['violations'].append({'oracle': v.get('oracle'), 'detail': v.get('detail'), 'facts': f, 'scenario': v.get('scenario', case)})
    if case.get('stream') in NO_STATE_STREAMS:
        st = {'disagreements': [], 'features': [], 'ops': 0, 'observables': 0}
    else:
        st = state_execute(case, drv)
    out['disagreements'] = st['disagreements']
    out['features'] += st['features']
    out['evaluated'] += st['ops']
    out['observed'] = {'calls': res.get('n_calls'), 'compared': res.get('n_compared'), 'state_ops': st['ops'], 'state_observables': st['observables']}
    return out


def selftest(n, seed, drv=None, verbose=False, do_shrink=True):
    """n random histories; returns counts, violations (shrunk, de-duplicated by (kind, op)), facts histogram"""
    rnd = random.Random(seed)
    counts = {'cases': 0, 'calls': 0, 'compared': 0, 'violating_cases': 0, 'harness_errors': 0,
              'state_histories': 0, 'state_ops': 0, 'state_observables': 0, 'state_disagreeing_histories': 0}
    feats, facts_h = {}, {}
    viols, herrs = [], []
    disagreements = []
    seen = set()
    for i in range(n):
        # two of three histories are aimed at the slot logic, half of these over wrappers nested in wrappers / linked assets
        case = (gen_nested_case if i % 3 == 1 else gen_state_case if i % 3 == 2 else gen_case)(random.Random(rnd.getrandbits(48)))
        try:
            r = execute(case)
            if drv is not None:
                st = state_execute(case, drv)
                counts['state_histories'] += st['histories']
                counts['state_ops'] += st['ops']
                counts['state_observables'] += st['observables']
                r['features'] = list(r['features']) + st['features']
                if st['disagreements']:
                    counts['state_disagreeing_histories'] += 1
                    for d in st['disagreements'][:2]:
                        disagreements.append(dict(d, case_no=i, scenario=case))
                    if verbose:
                        print('DISAGREEMENT case %d: %s' % (i, st['disagreements'][0]['detail'][:300]))
        except Exception as e:
            import traceback
            counts['harness_errors'] += 1
            herrs.append({'case': i, 'error': traceback.format_exc()[-1200:]})
            continue
        counts['cases'] += 1
        counts['calls'] += r['n_calls']
        counts['compared'] += r['n_compared']
        for f in r['features']:
            feats[f] = feats.get(f, 0) + 1
        for f in r['facts']:
            k = '%s:%s:%s' % (f['kind'], f.get('level', ''), str(f.get('what', '')).split(' ')[0])
            facts_h[k] = facts_h.get(k, 0) + 1
        if r['violations']:
            counts['violating_cases'] += 1
            for v in r['violations']:
                cl = classify(v)
                counts['class:' + cl] = counts.get('class:' + cl, 0) + 1
                sig = (v['facts']['kind'], v['facts']['op'], cl)
                if sig in seen:
                    continue
                seen.add(sig)
                vv = oracle(case, {'violations': [v]}, do_shrink=do_shrink)[0]
                vv['case_no'] = i
                vv.setdefault('scenario', case)
                viols.append(vv)
                if verbose:
                    print('VIOLATION case %d: %s' % (i, vv['detail'][:300]))
    return {'counts': counts, 'features': dict(sorted(feats.items())), 'facts': dict(sorted(facts_h.items())),
            'violations': viols, 'harness_errors': herrs, 'disagreements': disagreements, 'witnesses': check_witnesses()}


if __name__ == '__main__':
    import sys
    import json
    n = int(sys.argv[1]) if len(sys.argv) > 1 else 50
    seed = int(sys.argv[2]) if len(sys.argv) > 2 else 1
    r = selftest(n, seed, verbose=True)
    print(json.dumps(r['counts']))
    for k, v in r['witnesses'].items():
        print('witness', k, '-> expected', v['expected'], 'ok' if v['ok'] else 'MISMATCH', v['observed'])
    print(json.dumps(r['features'], indent=0)[:3000])
    print(json.dumps(r['facts'], indent=0)[:3000])
    for e in r['harness_errors'][:3]:
        print(e['error'])
    for v in r['violations']:
        print('-----', v['oracle'], v['detail'][:500])
        print(describe(v['scenario']))
        for f in v['facts'].get('user_data_changed', []):
            print('   changed:', f['what'], f['level'], f['detail'])
