"""C16 per builder: "all capacities times k" commutes with the LP builders (proof package `pkg-scalebuild`).

Lean side: `EAO/Lemmas/ScaleBuild.lean` (definitions `scaleProblemCaps`, `capsTimes`, `CapsPrices`, lemmas) and
`EAO/Properties/C16Builders.lean` (namespace `EAO.C16B`, the theorems of `THEOREMS_C16_BUILDERS`).  No new model, no new
driver op: the executable cross-check below goes through the EXISTING builder ops (`simple_contract`, `contract`, `multi`,
`transport`, `ext_transport` of `harness/comp/contract.py`, `storage` of `harness/comp/storage.py`).

A case = a builder case of one of those modules (`base`), a factor `k` (a power of two, so that floating point
multiplication commutes exactly with every operation of the builders; `k = 0` for well-formed LP storages) and the same
case with all capacities multiplied by `k` (`scaled`): scalars, arrays and interval data in the arguments, series
referred to by a key in the price data (exactly those), take volumes; for a storage size, levels, inflow, cap_in, cap_out.

  run_impl   the real `setup_optim_problem` on both
  oracle     the theorems' statement on the REAL code: same error class, or equal c / mapping / row coefficients and kinds,
             bounds and right-hand sides multiplied by k (every variable of an LP builder is a capacity variable)
  request    the two requests for the existing ops
  compare    model vs real on the scaled case (the existing correspondence) and the theorems' statement on the MODEL's
             two answers (a redundant end-to-end check of the compiled driver: it is proved)
"""
import copy
import os
import random
import sys
import traceback
from fractions import Fraction

sys.path.insert(0, os.environ.get('EAO_REPO', '/repo'))

from . import contract as C  # noqa: E402
from . import storage as S  # noqa: E402

THEOREMS_C16_BUILDERS = [
    ('EAO.Properties.C16Builders', 'EAO.C16B.caps_problem_is_rescaled_base',
     'scaleProblemCaps k a (right-hand sides and bounds of the capacity variables times k) has exactly the feasible points RescaledBaseFeasible a k of scaled_fixed; costs, mapping, size, name, nodes are those of a, the rows keep coefficients and kinds'),
    ('EAO.Properties.C16Builders', 'EAO.C16B.scaled_is_caps',
     'scaled_fixed restated with a problem: a scaled asset at fixed scale s has the feasible points of scaleProblemCaps (s/norm) base and its value less s*fix_costs*sum(dt)'),
    ('EAO.Properties.C16Builders', 'EAO.C16B.simpleContract_caps_keys',
     'SimpleContract, capacities in any form (key series multiplied in the price data), k > 0: build(capsTimes k p) = (build p).map(scaleProblemCaps k) - same error or equal problems'),
    ('EAO.Properties.C16Builders', 'EAO.C16B.simpleContract_caps',
     'SimpleContract with capacities not given as keys, same price data, k > 0: build(capsTimes k p) = (build p).map(scaleProblemCaps k)'),
    ('EAO.Properties.C16Builders', 'EAO.C16B.contract_caps_keys',
     'Contract incl. take volumes, capacities in any form, k > 0: the builder commutes with capacities times k (take rows keep coefficients, right-hand sides times k)'),
    ('EAO.Properties.C16Builders', 'EAO.C16B.contract_caps',
     'Contract incl. take volumes, capacities not keys, k > 0: the builder commutes with capacities times k'),
    ('EAO.Properties.C16Builders', 'EAO.C16B.multi_caps_keys',
     'MultiCommodityContract, capacities in any form, k > 0: the builder commutes with capacities times k (factors per node are not capacities)'),
    ('EAO.Properties.C16Builders', 'EAO.C16B.multi_caps',
     'MultiCommodityContract, capacities not keys, k > 0: the builder commutes with capacities times k'),
    ('EAO.Properties.C16Builders', 'EAO.C16B.transport_caps',
     'Transport, min_cap/max_cap times k > 0: same error or the problem with bounds times k, costs (sign decided by the signs of the capacities) unchanged'),
    ('EAO.Properties.C16Builders', 'EAO.C16B.extTransport_caps',
     'ExtendedTransport, capacities and take volumes times k > 0: the builder commutes with capacities times k'),
    ('EAO.Properties.C16Builders', 'EAO.C16B.storage_caps',
     'Storage in LP form (no effective no_simult_in_out, no max_store_duration), size/levels/inflow/cap_in/cap_out times ANY k: buildStorage commutes; cost vector incl. cost_store tail sums unchanged (the objective has no constant)'),
    ('EAO.Properties.C16Builders', 'EAO.C16B.mkStorage_caps',
     'with the constructor guards, k > 0: mkStorage commutes with capacities times k (guards are invariant)'),
    ('EAO.Properties.C16Builders', 'EAO.C16B.mkStorage_caps_nonneg',
     'k >= 0 (incl. 0) and a storage that passes the guards: mkStorage commutes with capacities times k'),
    ('EAO.Properties.C16Builders', 'EAO.C16B.caps_zero_scaled_side',
     'k = 0, scaled side: a problem all of whose variables are capacity variables, rescaled by 0, has only points vanishing on its variables, of value 0'),
    ('EAO.Properties.C16Builders', 'EAO.C16B.caps_zero_of_zeroBox',
     'k = 0, builder side (generic): a problem with all bounds zero has only points vanishing on its variables, of value 0'),
    ('EAO.Properties.C16Builders', 'EAO.C16B.caps_zero_builder_side_simpleContract',
     'k = 0: whatever buildSimpleContract returns for capacities times 0 has only the zero point, value 0 (the equation itself is false at k = 0: witnesses in the file)'),
    ('EAO.Properties.C16Builders', 'EAO.C16B.caps_zero_builder_side_contract',
     'k = 0, Contract: only the zero point, value 0'),
    ('EAO.Properties.C16Builders', 'EAO.C16B.caps_zero_builder_side_multi',
     'k = 0, MultiCommodityContract: only the zero point, value 0'),
    ('EAO.Properties.C16Builders', 'EAO.C16B.caps_zero_builder_side_transport',
     'k = 0, Transport: only the zero point, value 0'),
    ('EAO.Properties.C16Builders', 'EAO.C16B.caps_zero_builder_side_extTransport',
     'k = 0, ExtendedTransport: only the zero point, value 0'),
    ('EAO.Properties.C16Builders', 'EAO.C16B.scaled_simpleContract_keys',
     'ScaledAsset over a SimpleContract at fixed scale s > 0 (capacities in any form): the builder succeeds for capacities times s/norm, same feasible points, value less s*fix_costs*duration'),
    ('EAO.Properties.C16Builders', 'EAO.C16B.scaled_simpleContract',
     'ScaledAsset over a SimpleContract at fixed scale s > 0, capacities not keys'),
    ('EAO.Properties.C16Builders', 'EAO.C16B.scaled_contract_keys',
     'ScaledAsset over a Contract at fixed scale s > 0: the contract with capacities AND take volumes times s/norm, less s*fix_costs*duration'),
    ('EAO.Properties.C16Builders', 'EAO.C16B.scaled_contract',
     'ScaledAsset over a Contract at fixed scale s > 0, capacities not keys'),
    ('EAO.Properties.C16Builders', 'EAO.C16B.scaled_multi_keys',
     'ScaledAsset over a MultiCommodityContract at fixed scale s > 0'),
    ('EAO.Properties.C16Builders', 'EAO.C16B.scaled_multi',
     'ScaledAsset over a MultiCommodityContract at fixed scale s > 0, capacities not keys'),
    ('EAO.Properties.C16Builders', 'EAO.C16B.scaled_transport',
     'ScaledAsset over a Transport at fixed scale s > 0: the transport with min_cap/max_cap times s/norm, less s*fix_costs*duration'),
    ('EAO.Properties.C16Builders', 'EAO.C16B.scaled_extTransport',
     'ScaledAsset over an ExtendedTransport at fixed scale s > 0: capacities and take volumes times s/norm'),
    ('EAO.Properties.C16Builders', 'EAO.C16B.scaled_storage',
     'ScaledAsset over a Storage in LP form at fixed scale s >= 0 (0 included): the storage with size, levels, inflow, cap_in, cap_out times s/norm, less s*fix_costs*duration'),
]

KS = [0.5, 0.25, 2.0, 4.0, 0.125, 8.0]


# ------------------------------------------------------------------ "capacities times k" on a case
def _num(v, k):
    return float(v) * k


def scale_param(v, k, prices, new_prices, protected):
    """a make_vector parameter (encoded as in comp/contract.py) times k; a key: the series in the price data.
    Returns None when the series is also used as price / costs (then no price table goes with the scaled case)."""
    if isinstance(v, (int, float)) and not isinstance(v, bool):
        return _num(v, k)
    if isinstance(v, str):
        if v in protected:
            return None
        if v in prices:
            new_prices[v] = [_num(x, k) for x in prices[v]]
        return v
    if isinstance(v, dict) and '$arr' in v:
        return {'$arr': [_num(x, k) for x in v['$arr']]}
    if isinstance(v, dict) and 'values' in v:
        d = dict(v)
        vals = v['values']
        d['values'] = [_num(x, k) for x in vals] if isinstance(vals, list) else _num(vals, k)
        return d
    raise TypeError('unsupported parameter form %r' % (v,))


def scale_takes(t, k):
    if t is None:
        return None
    d = dict(t)
    d['values'] = [_num(x, k) for x in t['values']] if isinstance(t['values'], list) else _num(t['values'], k)
    return d


def scaled_contract_case(case, k):
    """the contract / transport case with all capacities times k; None when a capacity series is shared with a price"""
    sc = copy.deepcopy(case)
    a = sc['spec']['args']
    if case['kind'] in ('simple_contract', 'contract', 'multi'):
        protected = {x for x in (a.get('price'), a.get('extra_costs')) if isinstance(x, str)}
        new_prices = dict(sc['prices'])
        for which in ('min_cap', 'max_cap'):
            if which in a:
                v = scale_param(a[which], k, case['prices'], new_prices, protected)
                if v is None:
                    return None
                a[which] = v
        sc['prices'] = new_prices
    else:
        for which in ('min_cap', 'max_cap'):
            if which in a:
                a[which] = _num(a[which], k)
    for which in ('min_take', 'max_take'):
        if which in a:
            a[which] = scale_takes(a[which], k)
    return sc


STORAGE_CAPS = ('size', 'cap_in', 'cap_out', 'start_level', 'end_level', 'inflow')


def scaled_storage_case(case, k):
    sc = copy.deepcopy(case)
    for which in STORAGE_CAPS:
        if which in sc['args']:
            sc['args'][which] = _num(sc['args'][which], k)
    return sc


def gen_case(rnd, malformed=False):
    """{'family': 'contract'|'storage', 'base': case, 'k': k, 'scaled': case}"""
    for _ in range(20):
        if rnd.random() < 0.7:
            base = C.gen_case(random.Random(rnd.getrandbits(48)), malformed=malformed)
            k = rnd.choice(KS)
            sc = scaled_contract_case(base, k)
            if sc is None:
                continue
            return {'family': 'contract', 'base': base, 'k': k, 'scaled': sc,
                    'features': ['family:' + base['kind'], 'k:%s' % k] + [f for f in base['features'] if f.split(':')[0] in ('sign', 'min', 'max', 'dir', 'takes', 'bad', 'window')]}
        base = S.gen_case(random.Random(rnd.getrandbits(48)), mip_prob=0.0, malformed_prob=0.06 if malformed else 0.0)
        base['args'].pop('no_simult_in_out', None)
        base['args'].pop('max_store_duration', None)
        wellformed = not any(f.startswith('malformed:') for f in base['features'])
        k = 0.0 if (wellformed and rnd.random() < 0.15) else rnd.choice(KS)
        return {'family': 'storage', 'base': base, 'k': k, 'scaled': scaled_storage_case(base, k),
                'features': ['family:storage', 'k:%s' % k] + list(base['features'])}
    raise RuntimeError('no case')


# ------------------------------------------------------------------ implementation side
def run_impl(case):
    if case['family'] == 'contract':
        return {'base': C.run_impl(case['base']), 'scaled': C.run_impl(case['scaled'])}
    return {'base': S.run_impl(case['base'], solve=False), 'scaled': S.run_impl(case['scaled'], solve=False)}


def _outcome(case, r):
    """('skip', why) | ('error', cls) | ('problem', json)"""
    if case['family'] == 'contract':
        if 'grid_error' in r:
            return ('skip', 'grid-error')
        if r.get('error') in ('NonExistentTimeError', 'AmbiguousTimeError'):
            return ('skip', 'pandas-tz-error')
        if 'error' in r:
            return ('error', r['error'])
        return ('problem', r['problem'])
    if r.get('aa_error'):
        return ('skip', 'blocks-pandas-error')
    res = r['result']
    return ('error', res['error']) if 'error' in res else ('problem', res['problem'])


def times(v, k):
    return Fraction(v) * Fraction(k)


def check_scaled(tag, base, scaled, k, tol=0):
    """the statement `scaled = scaleProblemCaps k base` for two problem JSONs whose variables are all capacity variables"""
    out = []
    if base.get('name') != scaled.get('name') or base.get('nodes') != scaled.get('nodes'):
        out.append('%s: name/nodes differ' % tag)
    if len(base['c']) != len(scaled['c']):
        return out + ['%s: %d variables vs %d after scaling' % (tag, len(base['c']), len(scaled['c']))]
    if [Fraction(x) for x in base['c']] != [Fraction(x) for x in scaled['c']]:
        out.append('%s: cost vector changed' % tag)
    if base['mapping'] != scaled['mapping']:
        out.append('%s: mapping changed' % tag)
    capvars = {m['var'] for m in base['mapping'] if m['kind'] == 'd' or (m['kind'] == 'i' and not m['bool'])}
    for v in ('l', 'u'):
        if len(base[v]) != len(scaled[v]):
            out.append('%s.%s: length' % (tag, v))
            continue
        for j, (x, y) in enumerate(zip(base[v], scaled[v])):
            want = times(x, k) if j in capvars else Fraction(x)
            if not C.pf.feq(want, Fraction(y), tol):
                out.append('%s.%s[%d]: %s expected %s' % (tag, v, j, float(Fraction(y)), float(want)))
                break
    if len(base['rows']) != len(scaled['rows']):
        out.append('%s: %d rows vs %d after scaling' % (tag, len(base['rows']), len(scaled['rows'])))
    else:
        for i, (r0, r1) in enumerate(zip(base['rows'], scaled['rows'])):
            if r0['kind'] != r1['kind'] or [(j, Fraction(v)) for j, v in r0['coeffs']] != [(j, Fraction(v)) for j, v in r1['coeffs']]:
                out.append('%s row %d: coefficients / kind changed' % (tag, i))
                break
            if not C.pf.feq(times(r0['rhs'], k), Fraction(r1['rhs']), tol):
                out.append('%s row %d: rhs %s expected %s' % (tag, i, float(Fraction(r1['rhs'])), float(times(r0['rhs'], k))))
                break
    return out


def oracle(case, impl_result):
    """the theorems' statement evaluated on the real code"""
    o0 = _outcome(case, impl_result['base'])
    o1 = _outcome(case, impl_result['scaled'])
    if o0[0] == 'skip' or o1[0] == 'skip':
        return []
    viol = []
    if o0[0] != o1[0] or (o0[0] == 'error' and o0[1] != o1[1]):
        viol.append({'oracle': 'caps_times_k', 'detail': 'outcome %s vs %s after capacities times %s' % (o0[:2] if o0[0] == 'error' else 'problem', o1[:2] if o1[0] == 'error' else 'problem', case['k']),
                     'facts': {'k': case['k']}})
    elif o0[0] == 'problem':
        for d in check_scaled('impl', o0[1], o1[1], case['k']):
            viol.append({'oracle': 'caps_times_k', 'detail': d, 'facts': {'k': case['k']}})
    return viol


# ------------------------------------------------------------------ model side (existing driver ops)
def request(case, impl_result=None):
    r = impl_result if impl_result is not None else run_impl(case)
    if case['family'] == 'contract':
        return [C.request(case['base'], r['base']), C.request(case['scaled'], r['scaled'])]
    return [S.request(case['base'], r['base']), S.request(case['scaled'], r['scaled'])]


def compare(case, impl_result, model_result):
    """model_result = the driver's two answers.  (1) existing correspondence on the scaled case, (2) the theorem on the model"""
    out = []
    m0, m1 = model_result
    if 'ok' not in m0 or 'ok' not in m1:
        return ['driver rejected a request: %s / %s' % (m0.get('err'), m1.get('err'))]
    if case['family'] == 'contract':
        out += ['scaled case: ' + d for d in C.compare(case['scaled'], impl_result['scaled'], m1)]
    else:
        out += ['scaled case: ' + d for d in S.compare(case['scaled'], impl_result['scaled'], m1['ok'])]
    a, b = m0['ok'], m1['ok']
    if ('error' in a) != ('error' in b) or ('error' in a and a['error'] != b['error']):
        out.append('model: outcome %s vs %s after capacities times %s' % (a.get('error', 'problem'), b.get('error', 'problem'), case['k']))
    elif 'problem' in a:
        out += check_scaled('model', a['problem'], b['problem'], case['k'])
    return out


def run_case(case, drv):
    r = run_impl(case)
    rec = {'features': list(case['features']), 'disagreements': [], 'violations': [], 'nontrivial': False}
    o0 = _outcome(case, r['base'])
    o1 = _outcome(case, r['scaled'])
    if o0[0] == 'skip' or o1[0] == 'skip':
        rec['features'].append('skip:' + (o0[1] if o0[0] == 'skip' else o1[1]))
        return rec
    rec['features'].append('outcome:' + (o0[0] if o0[0] == 'problem' else 'error:' + str(o0[1])))
    rec['nontrivial'] = o0[0] == 'problem' and len(o0[1]['c']) > 0
    if rec['nontrivial'] and o0[1]['rows']:
        rec['features'].append('with-rows')
    rec['violations'] = oracle(case, r)
    reqs = request(case, r)
    rec['disagreements'] = compare(case, r, [drv.ask(q) for q in reqs])
    return rec


def selftest(n, seed, drv, verbose=False):
    rnd = random.Random(seed)
    counts = {'cases': 0, 'nontrivial': 0, 'disagreeing': 0, 'violating': 0, 'harness_errors': 0}
    feats = {}
    dis, viol = [], []
    for i in range(n):
        case = gen_case(random.Random(rnd.getrandbits(48)), malformed=(i % 6 == 5))
        try:
            rec = run_case(case, drv)
        except Exception:
            counts['harness_errors'] += 1
            dis.append({'case': case, 'detail': 'harness error: ' + traceback.format_exc()[-800:]})
            continue
        counts['cases'] += 1
        counts['nontrivial'] += int(rec['nontrivial'])
        for f in rec['features']:
            feats[f] = feats.get(f, 0) + 1
        if rec['disagreements']:
            counts['disagreeing'] += 1
            for d in rec['disagreements']:
                dis.append({'case': case, 'detail': d})
                if verbose:
                    print('DISAGREE', i, d)
        if rec['violations']:
            counts['violating'] += 1
            for v in rec['violations']:
                v['case'] = case
                viol.append(v)
                if verbose:
                    print('VIOLATION', i, v['detail'])
    return {'counts': counts, 'features': dict(sorted(feats.items())), 'disagreements': dis, 'violations': viol}


if __name__ == '__main__':
    import json
    import sys
    from ..lean import Driver
    n = int(sys.argv[1]) if len(sys.argv) > 1 else 100
    seed = int(sys.argv[2]) if len(sys.argv) > 2 else 0
    drv = Driver()
    try:
        res = selftest(n, seed, drv, verbose=True)
    finally:
        drv.close()
    print(json.dumps(res['counts']))
    for d in res['disagreements'][:6]:
        print('--', d['detail'])
        print('   ', json.dumps(d['case'])[:1200])
    for v in res['violations'][:6]:
        print('**', v['detail'])
        print('   ', json.dumps(v['case'])[:1200])
    if '-f' in sys.argv:
        print(json.dumps(res['features'], indent=0))
