"""C01 Nodal balance."""
import random
from .. import gen, pf, impl
from ..core import scen_key

ID = 'C01'
THEOREMS = [
    ('EAO.Properties.C01', 'EAO.C01.nodal_balance', 'for every list of well-formed asset problems with distinct names and every x feasible for the assembled problem, at every node outside the skip list and every step the reported dispatches of all assets sum to zero'),
    ('EAO.Properties.C01', 'EAO.C01.nodal_balance_split', 'the same for the concatenation of interval solutions of a split problem, at original step indices'),
    ('EAO.Properties.C01', 'EAO.C01.nodal_balance_structured', 'a structured asset (inner portfolio assembled with its external nodes skipped, inner nodes renamed and typed internal) is a well-formed asset whose dispatch rows sit at external nodes only, so balance holds at the outer nodes; inner balance holds by the inner nodal rows'),
]
COMPONENTS = ['hypotheses of the assembly theorems (well-formedness of asset problems) evaluated on every captured real asset problem', 'assemble (mapping, nodal rows, nodal list) on captured real asset problems', 'readout.dispatch vs io.extract_output',
              'the same three on portfolios with assets that list a node more than once (nodal-row coefficients, there sums of several factors of one variable, up to 1e-12)']
RULE = ('random portfolios (1-3 nodes, 2-8 assets of 12 kinds, windows, coarse frequency, periodicity, wacc, time zones); mono and split; '
        'plus (one more case per 8) portfolios of assets pinned by min_cap == max_cap (fixed-rate / fixed-profile contracts, multi-commodity contracts, '
        'fixed-flow transports) whose pinned values balance or - by a seed-drawn choice per node - do not, alone or next to a flexible market '
        'contract active in part of the horizon, optimised in one go and split into intervals some of which have no free variable; a portfolio '
        'whose pinned values do not balance must not return a solution (counted, nothing to check), every solution that IS returned is checked; '
        'split solutions are re-optimised with whole intervals pinned through fix_time_window (rolling optimisation) and checked again; '
        'plus (one more case per 8, comp/c01gen.py) portfolios in which assets list the SAME node more than once - Storage(nodes=[n, n]) with separate '
        'charge / discharge variables (also no_simult_in_out without losses), loop Transport / ExtendedTransport, MultiCommodityContract with several '
        'factors at one node, CHPAsset / Plant with coinciding power / heat / fuel nodes, StructuredAsset naming an external node twice, such assets as '
        'base of a ScaledAsset or wrapped in a StructuredAsset - obtained from random portfolios on 2-3 nodes by mapping all node names to one (one-node '
        'portfolio), identifying two of them, or collapsing the node lists of drawn assets, plus 1-2 added assets with a repeated node; nodes as one shared '
        'object or one object per mention; one go, relaxed, re-set-up, split, split re-optimised, and through io.optimize (one go / split) and '
        'to_json -> run_from_json; there the balance oracle of comp/c01gen.py reads the dispatch table once per (asset, node) pair, however often the asset '
        'names the node, skipping nothing (a missing column counts as zero flow); non-trivial there = additionally an asset that repeats a node reports a non-zero flow at it; '
        'non-trivial = solved scenario with at least one (node, step) where >= 2 assets have non-zero dispatch; distinct by scenario hash')
ASSUMPTIONS = ['solver returns a point feasible within 1e-6 (checked by the C03 oracle); oracle tolerance 2e-6 * dispatch scale',
               'an asset is attached to a node if the node is among its nodes, however often it is listed: its reported dispatch at the node (one column of the table) enters the sum once']
EXPLANATION = ('theorems about the model of Portfolio.setup_optim_problem / io.extract_output; correspondence on captured asset problems; oracle on the real dispatch output '
               'of every solution the code returns (one go, relaxed, re-set-up, split, split re-optimised with pinned intervals), also for problems without any free variable, '
               'and for portfolios whose assets list a node more than once (several dispatch rows of one variable at one node and step; the read-out loop passes '
               'the column of such an asset more than once): per node and step the columns of the (asset, node) pairs attached to the node, each taken once, sum to zero')


def scenarios(seed, tier):
    n = 600 if tier == 'quick' else 3600
    rnd = random.Random(seed * 7919 + 1)
    rnd3 = random.Random(seed * 7919 + 1 + 700001)      # own stream for the additions (the portfolios drawn from rnd stay what they were)
    for i in range(n):
        r1 = random.Random(rnd.getrandbits(48))
        s = gen.gen_portfolio(r1, tmax=12 if tier == 'quick' else 20)
        s['mode'] = 'split' if i % 4 == 3 else 'mono'
        if s['mode'] == 'split':
            s['refix_seed'] = rnd3.getrandbits(30)      # the split solution is re-optimised with whole intervals pinned
        if i % 6 == 2 and len(s['nodes']) >= 2:
            # node names that are easily confused once combined with a step number: one name is another plus digits
            from .. import scen as _scen
            pool = r1.choice([['1', '11', '10'], ['N1', 'N11', 'N10'], ['hub', 'hub1', 'hub11'], ['n_1', 'n_12', 'n_1_2']])
            r1.shuffle(pool)
            nmap = {nm: pool[k] if k < len(pool) else nm for k, nm in enumerate([x for x in s['nodes'] if not x.endswith('_i1')])}
            s = dict(_scen.rename_scenario(s, {}, nmap), mode=s['mode'])
            s['confusable_nodes'] = True
        if i % 10 == 9:
            # extreme unit conversions: tiny flows behind huge factors (e.g. TWh -> kWh)
            big = rnd.choice([1e6, 1e8, 5e8, 1e-6])
            for a in s['assets']:
                if a['type'] in ('Transport', 'ExtendedTransport') and a['args'].get('max_cap', 0) > 0:
                    a['args']['efficiency'] = big
                    a['args']['max_cap'] = a['args']['max_cap'] / big if big > 1 else a['args']['max_cap']
                    a['args'].pop('max_take', None)
                    a['args'].pop('min_take', None)
                    s['extreme'] = True
        yield 'gen%d' % i, s
    # the dispatch reported for a two-stage stochastic programme (mean over the scenarios) balances as well
    from ..comp import slp as S
    for i in range(n // 10):
        r1 = random.Random(rnd.getrandbits(48))
        yield 'slp%d' % i, {'_stream': 'slp', 'case': S.gen_straddle_case(r1) if i % 2 else S.gen_case(r1)}
    # problems (and single intervals of split problems) in which every variable is pinned by its bounds, balanced or not
    # (own random stream: the cases above stay what they were)
    from ..comp import fixedpf as F
    rnd2 = random.Random(seed * 7919 + 1 + 500009)
    for i in range(n // 8):
        s = F.gen_case(random.Random(rnd2.getrandbits(48)), tmax=12 if tier == 'quick' else 20)
        s['mode'] = 'split'
        s['refix_seed'] = rnd2.getrandbits(30)
        yield 'fixed%d' % i, s
    # the same kind of portfolio through the other doors of the package (io.optimize with the data in several containers,
    # run_from_json, set_param): comp/entry.py
    from ..comp import entry as EN
    yield from EN.stream(seed, n // 12, ('io', 'io_split', 'json'), tmax=10 if tier == 'quick' else 16)
    # assets that list the SAME node more than once (their column of the dispatch table is passed more than once): comp/c01gen.py
    from ..comp import c01gen as G
    rnd4 = random.Random(seed * 7919 + 1 + 900007)
    for i in range(n // 8):
        yield 'rep%d' % i, G.gen_case(random.Random(rnd4.getrandbits(48)), tmax=10 if tier == 'quick' else 16)


def run_case(scn, drv):
    if scn.get('_stream') == 'entry':
        from ..comp import entry as EN
        return EN.run_stream_case(scn, ('nodal_balance',))
    if scn.get('_stream') == 'slp':
        from ..comp import slp as S
        r0 = S.run_case(scn['case'], drv)
        # of the oracles of C17 only the ones that are C01's statement (dispatch reported for an SLP result balances)
        return {'evaluated': 1, 'nontrivial': bool(r0.get('nontrivial')), 'features': ['stream:slp'] + [f for f in r0['features'] if f.startswith(('family', 'impl', 'multi'))],
                'disagreements': [], 'violations': [v for v in r0['violations'] if v['oracle'] in ('slp_dispatch_balance', 'slp_dispatch_mean')]}
    r = {'evaluated': 1, 'nontrivial': False, 'features': [], 'disagreements': [], 'violations': []}
    feats = r['features']
    for a in scn['assets']:
        feats.append('asset:' + a['type'])
    feats.append('nodes:%d' % len(scn['nodes']))
    if scn['grid'].get('tz'):
        feats.append('tz')
    fixed_stream = scn.get('stream') == 'fixedpf'
    repeat_stream = scn.get('stream') == 'repeat'
    balance = pf.orc_nodal_balance
    assemble = lambda rec_: pf.corr_assemble(rec_, drv, aspects=('mapping', 'nodalrows', 'nodal'))
    if repeat_stream:
        # assets listing a node more than once: objects of the stream's own builder, and the balance oracle that counts every
        # reported column once per (asset, node)
        from ..comp import c01gen as G
        feats.extend(G.features(scn))
        r['observed'] = {'repeat_active_node_steps': 0}
        assemble = lambda rec_: G.corr_assemble(rec_, drv)     # (sums of factors of one variable at one node: nodal rows up to 1e-12)

        def balance(rec_, tag='mono'):
            v_, info_ = G.orc_balance(rec_, tag)
            r['observed']['repeat_active_node_steps'] += info_['repeat_active']
            if info_['repeat_active']:
                feats.append('repeat:active:' + tag)
            if info_['ambiguous']:
                feats.append('repeat:ambiguous-labels')
            return v_, info_['node_steps_two_flows'] if info_['repeat_active'] else 0
    rs = None
    try:
        rec = G.setup_mono(scn) if repeat_stream else pf.setup_mono(scn)
    except Exception as e:
        feats.append('setup-error:' + impl.err_class(e))
        return r
    r['disagreements'] += pf.hyp_wf(rec)
    feats.append('hypotheses-evaluated')
    r['disagreements'] += assemble(rec)
    pf.solve_rec(rec)
    if isinstance(rec['res'], str):
        feats.append('unsolved:' + rec['res'])
    else:
        r['disagreements'] += pf.corr_readout(rec, drv, what=('dispatch',))
        v, nt = balance(rec)
        r['violations'] += v
        r['nontrivial'] = nt > 0
        feats.append('solved')
        r['observed'] = dict(r.get('observed') or {}, node_steps_with_two_or_more_flows=nt, value=float(rec['res'].value))
    # "every solution returned": also the one of the relaxed problem (make_soft_problem) of a portfolio with boolean variables
    if pf.is_mip(rec['op']) and not isinstance(rec['res'], str):
        try:
            import eaopack as eao
            with impl.Quiet():
                op_s = rec['portf'].setup_optim_problem(rec['prices'], rec['tg'])
            res_s = impl.solve(op_s, make_soft_problem=True)
            r['evaluated'] += 1
            if not isinstance(res_s, str):
                with impl.Quiet():
                    out_s = eao.io.extract_output(rec['portf'], op_s, res_s, rec['prices'])
                v, _ = balance(dict(rec, op=op_s, res=res_s, out=out_s), tag='soft')
                r['violations'] += v
                feats.append('soft-solution')
        except Exception as e:
            feats.append('soft-error:' + impl.err_class(e))
    # second set-up on the SAME portfolio and asset objects after changing factor-carrying parameters
    # (transport efficiency, commodity factors): balance must hold with the new factors
    try:
        changed = False
        for a in rec['portf'].assets:
            if hasattr(a, 'efficiency') and isinstance(a.efficiency, (int, float)):
                a.efficiency = a.efficiency * 0.5 if a.efficiency > 0.01 else 0.5
                changed = True
            if getattr(a, 'factors_commodities', None) is not None:
                a.factors_commodities = [f * (k + 2) for k, f in enumerate(a.factors_commodities)]
                changed = True
        if changed:
            feats.append('re-setup-changed-factors')
            with impl.Quiet(), impl.Capture(rec['portf']) as cap:
                op2 = rec['portf'].setup_optim_problem(rec['prices'], rec['tg'])
            rec2 = dict(rec)
            rec2['op'] = op2
            rec2['captured'] = {k: v[-1] for k, v in cap.caught.items()}
            r['disagreements'] += assemble(rec2)
            pf.solve_rec(rec2)
            r['evaluated'] += 1
            if not isinstance(rec2['res'], str):
                v, nt = balance(rec2, tag='re-setup')
                r['violations'] += v
    except Exception as e:
        feats.append('resetup-error:' + impl.err_class(e))
    if scn.get('mode') == 'split':
        try:
            T = rec['tg'].T
            step = scn['grid']['step_s']
            k = max(1, T // 3)
            tot = step * k
            interval = ('%dmin' % (tot // 60)) if tot % 3600 else ('%dh' % (tot // 3600))
            rs = G.setup_split(scn, interval) if repeat_stream else pf.setup_split(scn, scn.get('split_interval') or interval)
            pf.solve_rec(rs)
            feats.append('split')
            if not isinstance(rs['res'], str):
                v, nt = balance(rs, tag='split')
                r['violations'] += v
                r['evaluated'] += 1
                r['nontrivial'] = r['nontrivial'] or nt > 0
            else:
                feats.append('split-no-solution')       # nothing returned, nothing to check
        except Exception as e:
            feats.append('split-error:' + impl.err_class(e))
        # rolling re-optimisation: whole intervals pinned to the split solution through fix_time_window, other prices changed;
        # what is returned is a solution like any other
        if rs is not None and not isinstance(rs.get('res'), str) and rs.get('out') is not None and scn.get('refix_seed') is not None:
            try:
                from ..comp import fixedpf as F
                rf = F.refix_split(rs, scn['refix_seed'])
                if rf is not None:
                    feats.extend(F.refix_features(rf))
                    r['evaluated'] += 1
                    if not isinstance(rf['res'], str):
                        v, nt = balance(rf, tag='split-refixed')
                        r['violations'] += v
            except Exception as e:
                feats.append('refix-error:' + impl.err_class(e))
    if fixed_stream:
        from ..comp import fixedpf as F
        feats.extend(F.features(scn, rec, rs))
    if repeat_stream and scn.get('doors'):
        # the same scenario through io.optimize (one go / split) and to_json -> run_from_json
        v, f, k = G.via_doors(scn, pf.split_interval(scn, rec['tg']))
        r['violations'] += v
        feats.extend(f)
        r['evaluated'] += k
    return r
