"""C02 Reference equivalence (textbook formulation)."""
import random
from ..comp import textbook as TB
from ..comp import contract as CT
from ..comp import storage as ST

ID = 'C02'
THEOREMS = TB.THEOREMS_C02 + [
    ('EAO.Properties.C09', 'EAO.C09.assemble_feasible_iff', 'composition principle used by portfolio_refines: feasibility = per-asset feasibility + balance of flows'),
    ('EAO.Properties.C09', 'EAO.C09.assemble_value', 'value = sum of asset values'),
    ('EAO.Properties.C08', 'EAO.C08.take_prorated', 'take volumes are prorated to the covered part of the period: right-hand side V * covered / (e - s)'),
    ('EAO.Properties.C12', 'EAO.C12.limits_follow_dt', 'per-step volume limit = rate x step length'),
    ('EAO.Properties.C05', 'EAO.C05.storage_level_bounds', 'storage rows mean the physical level recursion with bounds and end level'),
]
PARTIAL = ['every asset class of the property has a refinement theorem (storages in plain-LP form, transports, extended transports with takes, one- and two-variable contracts with takes, multi-commodity contracts, empty windows); '
           'explicit hypotheses: two-variable contract needs extra costs >= 0 and discount factors >= 0 (machine-checked witness Ex.ec_nonneg_needed that it cannot be dropped; the constructor does not check it), take rows need pairwise different steps of the window (IdxInj, evaluated per case) and an extended transport two different nodes; '
           'the MIP storage options (no_simult_in_out, max_store_duration) are outside the textbook spec and covered under C05; the optimum itself is compared with the independent reference LP by the oracle (portfolio_refines gives equal upper bounds of the value sets, not the solver)']
COMPONENTS = TB.COMPONENTS_C02
RULE = ('random portfolios of contracts (spread, time-varying capacities in all parameter forms, min/max take), transports (efficiency, costs, both directions), extended transports, storages (efficiency, start/end level, inflow, three costs, two nodes), multi-commodity contracts; windows, wacc per asset, units, time zones / DST; '
        'per case: independent textbook LP (scipy/HiGHS over physical quantities, built from the scenario only) vs eaopack optimum; eaopack dispatch mapped to physical quantities and checked against the textbook constraints; second set-up on the same objects; plus builder correspondence cases (contracts, storages); '
        'non-trivial = solved with non-zero value and at least one non-market asset dispatched; distinct by case hash')
ASSUMPTIONS = ['values compared with tolerance 2e-6 relative, constraints 1e-6; the reference LP is part of the trusted base of the oracle (not of the theorems)',
               'eaopack leaves the holding cost of the start level and of accumulated inflow out of its value (documented in the Storage docstring): V_eaopack = V_textbook + K with K computed from the parameters']
EXPLANATION = 'textbook specification EAO/Spec/Textbook.lean (meant to be read); per-asset refinement theorems + composition theorem portfolio_refines; oracle: independent reference LP on the real code'


def scenarios(seed, tier):
    n = 220 if tier == 'quick' else 2500
    rnd = random.Random(seed * 7919 + 2)
    for i in range(n):
        yield 'tb%d' % i, {'stream': 'textbook', 'case': TB.gen_case(random.Random(rnd.getrandbits(48)))}
    for i in range(n // 3):
        yield 'ct%d' % i, {'stream': 'contract', 'case': CT.gen_case(random.Random(rnd.getrandbits(48)))}
    for i in range(n // 3):
        r1 = random.Random(rnd.getrandbits(48))
        c = ST.gen_case(r1, mip_prob=0.0)
        if i % 4 == 3 and not any(f.startswith('malformed') for f in c.get('features', [])):
            c = ST.focus_holding(c, r1)
        yield 'st%d' % i, {'stream': 'storage', 'case': c}


def run_case(c, drv):
    if c['stream'] == 'textbook':
        r = TB.run_case(c['case'], drv)
    elif c['stream'] == 'contract':
        rec = CT.run_case(c['case'], drv)
        r = {'evaluated': 1, 'nontrivial': rec.get('nvars', 0) > 0, 'features': rec.get('features', []), 'violations': [],
             'disagreements': [{'component': 'contract-builders', 'detail': d} for d in rec.get('disagreements', [])]}
    else:
        r = ST.run_case(c['case'], drv, solve=False)
    r.setdefault('features', []).append('stream:' + c['stream'])
    r['disagreements'] = [d if isinstance(d, dict) else {'component': c['stream'], 'detail': d} for d in r.get('disagreements', [])]
    return r
