"""C02 Reference equivalence (textbook formulation)."""
import random
from ..comp import textbook as TB
from ..comp import contract as CT
from ..comp import storage as ST

ID = 'C02'
THEOREMS = TB.THEOREMS_C02 + [
    ('EAO.Properties.C09', 'EAO.C09.assemble_feasible_iff', 'composition principle used by portfolio_refines: feasibility = per-asset feasibility + balance of flows'),
    ('EAO.Properties.C09', 'EAO.C09.assemble_value', 'value = sum of asset values'),
    ('EAO.Properties.C08', 'EAO.C08.take_prorated', 'take volumes are prorated to the covered part of the period: right-hand side V * covered / (e - s)'),
    ('EAO.Properties.C12', 'EAO.C12.limits_follow_dt', 'per-step volume limit = rate x step length'),
    ('EAO.Properties.C05', 'EAO.C05.storage_level_bounds', 'storage rows mean the physical level recursion with bounds and end level'),
]
from ..comp import coarsetextbook as _CTB
THEOREMS = THEOREMS + _CTB.THEOREMS_C02_COARSE
PARTIAL = ['every asset class of the property has a refinement theorem (storages in plain-LP form, transports, extended transports with takes, one- and two-variable contracts with takes, multi-commodity contracts, empty windows); '
           'explicit hypotheses: two-variable contract needs extra costs >= 0 and discount factors >= 0 (machine-checked witness Ex.ec_nonneg_needed that it cannot be dropped; the constructor does not check it), take rows need pairwise different steps of the window (IdxInj, evaluated per case) and an extended transport two different nodes; '
           'the MIP storage options (no_simult_in_out, max_store_duration) are outside the textbook spec and covered under C05; the optimum itself is compared with the independent reference LP by the oracle (portfolio_refines gives equal upper bounds of the value sets, not the solver)',
           'transports: transport_refines / ext_transport_refines tie the code to the SIGNED textbook transport of Spec/Textbook.lean (one flow f of either sign, -f / +eff*f); that form is the physical line (delivered = eff x sent in either direction: the reference LP of the oracle, with a forward and a backward part) only under the hypothesis "no negative capacity on the window, or efficiency 1", '
           'which is evaluated per case (observed.hypotheses_failing: forward-or-lossless:<name>; feature hyp-outside:transport-reversed-with-loss); outside it the code follows the signed form and NOT the physical line (finding F-02c, shown by the probe stream `reversed`)']
MODELLED = ['the equivalence of the signed textbook transport (Lean) with the physical two-part line (reference LP) under min_cap >= 0 or efficiency = 1 is argued in harness/comp/textbook.py (the backward part is fixed at 0, resp. the two forms have the same optimum) and exercised by every transport case, not proved in Lean']
COMPONENTS = TB.COMPONENTS_C02
RULE = ('random portfolios of contracts (spread, time-varying capacities in all parameter forms, min/max take), transports (efficiency and costs with capacities >= 0; capacities <= 0, i.e. used from the second to the first node, with costs and efficiency 1), extended transports, storages (efficiency, start/end level, inflow, three costs, two nodes), multi-commodity contracts; windows, wacc per asset, units, time zones / DST; '
        'per case: independent textbook LP (scipy/HiGHS over physical quantities, built from the scenario only; a transport is a line with a forward and a backward part, each >= 0, each delivering efficiency x what is sent, costs per unit sent) vs eaopack optimum; eaopack dispatch mapped to physical quantities and checked against the textbook constraints; second set-up on the same objects; plus builder correspondence cases (contracts, storages); '
        'probe stream `reversed` (quick: 55 cases): a line with efficiency in (0,1) between two priced nodes, Transport or ExtendedTransport (takes), capacities <= 0 / of both signs (then without costs) / >= 0 as control, prices around the two thresholds at which the reversed flow pays, costs, window, wacc: '
        'a violation (value or dispatch) that disappears when the reference reproduces eaopack\'s factors for the reversed flow (-1 / +efficiency on one signed variable) carries the facts kind=reversed_transport_gain, transports, efficiency, eao_value, physical_value (finding F-02c); '
        'stream `dst` (quick: 110 cases, up to a third of them also wrapped into a structured / scaled asset): the same asset classes on grids whose steps are whole calendar days (d, 1D, 2d, 3d, 7d, weekly with any anchor, 14d, 30d; main time unit h, d or min; start at local midnight or at 6/12/18/22 h) in twelve zones with daylight saving (Europe, North America incl. the half-hour offset of St. John\'s, Australia incl. the 30-minute change of Lord Howe, New Zealand, Morocco) placed so that a clock change (spring or autumn, sometimes two) falls into a randomly chosen step of the horizon - that step lasts 23 / 25 / 47 / 169 ... hours - with controls (UTC, Tokyo, no zone, horizon after the change); '
        'small rates against a deep or a tight market, storage sizes / levels and take volumes of the order of one step\'s volume, take periods that cut the horizon (prorated), holding costs, inflow, wacc on more than half of the assets; the reference takes every step length, the prorated part of a take period and the discount exponents from the INSTANTS of the grid points (never from eaopack\'s dt), so limits rate x step length, prorated takes, holding costs per time and discounting are all compared on the short / long step; '
        'a difference between eaopack\'s step lengths and the time between its grid points is attached to the value / dispatch violations it causes (fact step_lengths_differ) when the case itself shows none (nothing binds in that step), the statement is evaluated on the simplest portfolio of the SAME grid (comp/textbook.step_length_probe: deep market with wacc, free source of rate <= 1.5, optimum = sum of price x 1.5 x step length, discounted), whose violation carries the fact probe_of_step_lengths; only if that shows nothing either, the difference is reported on its own (what=step_length); '
        'non-trivial = solved with non-zero value and at least one non-market asset dispatched; distinct by case hash')
ASSUMPTIONS = ['values compared with tolerance 2e-6 relative, constraints 1e-6; the reference LP is part of the trusted base of the oracle (not of the theorems)',
               'harness.gen.gen_transport draws 20 % of the transports with capacities [-c, 0] and, independently, an efficiency from {0.25, 0.5, 0.75, 0.875, 1, 1.5}; in the general streams (textbook, grouped, scaled) such a transport with a negative capacity is kept lossless (efficiency set to 1, comp/textbook.forward_or_lossless), because with a negative capacity and efficiency != 1 eaopack does not describe a physical line (known finding F-02c); reversed lossy lines are drawn by the probe stream `reversed` only; capacities of both signs occur only there and only without costs (eaopack refuses them with costs: NotImplementedError, "use two transport assets")',
               'reading of a transport: capacities bound the volume SENT per direction, costs are paid per unit sent, takes of an extended transport act on the net volume leaving the first node (forward sent minus backward delivered); for capacities >= 0 this is the documented forward reading',
               'stream `dst`: the grid points themselves are those of pandas.date_range(start, end, freq) in the zone (a step of n days runs from a local wall-clock time to the same wall-clock time n days later), which is also what Timegrid documents; zones whose clock change removes local midnight (Santiago, Havana, Tehran, Azores) are not drawn, since pandas refuses to build such a grid; step lengths, covered parts of take periods and elapsed time for discounting are differences of instants (UTC), 365 days per year',
               'eaopack leaves the holding cost of the start level and of accumulated inflow out of its value (documented in the Storage docstring): V_eaopack = V_textbook + K with K computed from the parameters']
EXPLANATION = 'textbook specification EAO/Spec/Textbook.lean (meant to be read); per-asset refinement theorems + composition theorem portfolio_refines; oracle: independent reference LP on the real code'


def scenarios(seed, tier):
    n = 440 if tier == 'quick' else 2640
    rnd = random.Random(seed * 7919 + 2)
    for i in range(n):
        r1 = random.Random(rnd.getrandbits(48))
        c = TB.gen_case(r1)
        item = {'stream': 'textbook', 'case': c}
        if i % 5 == 4:
            item['group'] = _grouping(c, r1)
        elif i % 5 == 2:
            item['group'] = _scaling(c, r1)
        yield 'tb%d' % i, item
    for i in range(n // 3):
        yield 'ct%d' % i, {'stream': 'contract', 'case': CT.gen_case(random.Random(rnd.getrandbits(48)))}
    for i in range(n // 3):
        r1 = random.Random(rnd.getrandbits(48))
        c = ST.gen_case(r1, mip_prob=0.0)
        if i % 4 == 3 and not any(f.startswith('malformed') for f in c.get('features', [])):
            c = ST.focus_holding(c, r1)
        yield 'st%d' % i, {'stream': 'storage', 'case': c}
    # probe: lines with losses whose capacities allow the flow from the second to the first node (finding F-02c)
    for i in range(n // 8):
        yield 'rv%d' % i, {'stream': 'reversed', 'case': TB.gen_reversed_case(random.Random(rnd.getrandbits(48)))}
    # grids of whole-day steps in zones with daylight saving, a clock change inside the horizon (23 h / 25 h days)
    for i in range(n // 4):
        r1 = random.Random(rnd.getrandbits(48))
        c = TB.gen_dst_case(r1)
        item = {'stream': 'dst', 'case': c}
        if i % 6 == 5:
            item['group'] = _grouping(c, r1)
        elif i % 6 == 2:
            item['group'] = _scaling(c, r1)
        yield 'dg%d' % i, item
    # the same kind of portfolio through the other doors of the package (io.optimize with the data in several containers,
    # run_from_json, set_param): comp/entry.py
    from ..comp import entry as EN
    yield from EN.stream(seed, n // 8, ('io',), tmax=10 if tier == 'quick' else 16)


def _grouping(scn, rnd):
    """the same portfolio with some of its non-market assets wrapped into a structured asset that has its own window W:
    returns (wrapped scenario, flat scenario with every wrapped asset's window intersected with W) or None"""
    import copy
    import pandas as pd
    from .. import gen
    cand = [k for k, a in enumerate(scn['assets']) if not a['name'].startswith('mkt') and a['type'] in ('SimpleContract', 'Contract', 'Transport', 'Storage', 'MultiCommodityContract', 'ExtendedTransport')]
    if not cand:
        return None
    pick = sorted(rnd.sample(cand, min(len(cand), rnd.choice([1, 2, 2]))))
    w = gen.window(rnd, scn['grid'], kinds=['inside', 'start_only', 'end_only', 'straddle_end', 'straddle_start'])
    wargs = {}
    gen.put_window(wargs, w)
    if not wargs:
        return None
    flat = copy.deepcopy(scn)
    for k in pick:
        a = flat['assets'][k]['args']
        if 'start' in wargs:
            if 'start' not in a or pd.Timestamp(a['start']['$dt']) < pd.Timestamp(wargs['start']['$dt']):
                a['start'] = copy.deepcopy(wargs['start'])
        if 'end' in wargs:
            if 'end' not in a or pd.Timestamp(a['end']['$dt']) > pd.Timestamp(wargs['end']['$dt']):
                a['end'] = copy.deepcopy(wargs['end'])
    wrapped = copy.deepcopy(scn)
    inner = [wrapped['assets'][k] for k in pick]
    ext = sorted(set(nd for a in inner for nd in a['nodes']))
    sa = {'type': 'StructuredAsset', 'name': 'grp', 'nodes': ext, 'inner': inner, 'args': wargs}
    wrapped['assets'] = [a for k, a in enumerate(wrapped['assets']) if k not in pick]
    wrapped['assets'].insert(min(pick[0], len(wrapped['assets'])), sa)
    return {'wrapped': wrapped, 'flat': flat, 'n_inner': len(pick)}


def _scaling(scn, rnd):
    """the same portfolio with one non-market asset wrapped into a scaled asset held at a fixed scale s (normalisation N, no
    fixed costs) vs the flat portfolio with that asset's capacities multiplied by s/N"""
    import copy
    from ..comp import scaled as SC
    cand = [k for k, a in enumerate(scn['assets']) if not a['name'].startswith('mkt') and a['type'] in SC.CAP_ARGS and a['type'] != 'Plant']
    if not cand:
        return None
    k = rnd.choice(cand)
    sc, nrm = rnd.choice([0.5, 1.0, 1.5, 2.0]), rnd.choice([0.5, 2.0, 4.0, 1.0])
    flat = copy.deepcopy(scn)
    newp = {}
    b = SC.scaled_spec(flat['assets'][k], sc / nrm, flat['prices'], newp)
    if b is None:
        return None
    flat['assets'][k] = b
    flat['prices'].update(newp)
    wrapped = copy.deepcopy(scn)
    base = wrapped['assets'][k]
    wrapped['assets'][k] = {'type': 'ScaledAsset', 'name': base['name'], 'base': dict(base, name=base['name'] + '_b'),
                            'args': {'min_scale': sc, 'max_scale': sc, 'norm_scale': nrm, 'fix_costs': 0.0}}
    if 'wacc' in base.get('args', {}):
        wrapped['assets'][k]['args']['wacc'] = base['args']['wacc']
    return {'wrapped': wrapped, 'flat': flat, 'n_inner': 1, 'how': 'scaled'}


def run_case(c, drv):
    if c.get('_stream') == 'entry':
        # the optimum does not depend on the door: io.optimize (data cast into the grid) = explicit pipeline, which the
        # textbook stream compares with the reference
        from ..comp import entry as EN
        return EN.run_stream_case(c, ('entry_point',))
    if c['stream'] in ('textbook', 'dst') and c.get('group'):
        # the structure with window W around some assets = the flat portfolio with those assets' windows cut to W: the textbook
        # reference of the FLAT portfolio (checked as usual) is also the reference of the wrapped one
        from .. import pf, impl
        g = c['group']
        r = TB.run_case(g['flat'], drv)
        r.setdefault('features', []).append(('wrapped-in-scaled-asset' if g.get('how') == 'scaled' else 'grouped-in-structure:%d' % g['n_inner']))
        v_ref = r.get('observed', {}).get('textbook_value_plus_constant')
        if v_ref is not None:
            try:
                rw = pf.setup_mono(g['wrapped'])
                pf.solve_rec(rw)
                if isinstance(rw['res'], str):
                    for s_ in ('SCIPY', 'CLARABEL'):
                        pf.solve_rec(rw, solver=s_)
                        if not isinstance(rw['res'], str):
                            break
                r['evaluated'] = r.get('evaluated', 1) + 1
                if isinstance(rw['res'], str):
                    r['violations'].append({'oracle': 'textbook', 'detail': 'assets wrapped into a structured asset with its own window: eaopack reports "%s", the textbook model of the flat portfolio with the windows cut has the optimum %.9g' % (rw['res'], v_ref),
                                            'facts': {'what': 'value', 'wrapped': True}})
                elif abs(float(rw['res'].value) - v_ref) > 2e-6 * max(1.0, abs(v_ref), abs(float(rw['res'].value))):
                    r['violations'].append({'oracle': 'textbook', 'detail': '%s: optimum of eaopack %.10g vs textbook model of the equivalent flat portfolio %.10g' % ('an asset wrapped into a scaled asset at a fixed scale' if g.get('how') == 'scaled' else 'assets wrapped into a structured asset with its own window', float(rw['res'].value), v_ref),
                                            'facts': {'what': 'value', 'wrapped': True, 'diff': float(rw['res'].value) - v_ref}})
            except Exception as e:
                r['violations'].append({'oracle': 'textbook', 'detail': 'assets wrapped into a structured asset with its own window: %s: %s' % (type(e).__name__, str(e)[:150]), 'facts': {'what': 'value', 'wrapped': True, 'error': impl.err_class(e)}})
    elif c['stream'] in ('textbook', 'reversed', 'dst'):
        r = TB.run_case(c['case'], drv)
        if c['stream'] == 'reversed':
            r.setdefault('features', []).append('reversed:%s' % c['case'].get('probe', {}).get('direction'))
    elif c['stream'] == 'contract':
        rec = CT.run_case(c['case'], drv)
        r = {'evaluated': 1, 'nontrivial': rec.get('nvars', 0) > 0, 'features': rec.get('features', []), 'violations': [],
             'disagreements': [{'component': 'contract-builders', 'detail': d} for d in rec.get('disagreements', [])]}
    else:
        r = ST.run_case(c['case'], drv, solve=False)
    r.setdefault('features', []).append('stream:' + c['stream'])
    r['disagreements'] = [d if isinstance(d, dict) else {'component': c['stream'], 'detail': d} for d in r.get('disagreements', [])]
    return r
