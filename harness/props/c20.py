"""C20 Order book."""
import random
from ..comp import orderbook as OB
from ..comp import obseq as OBS

ID = 'C20'
P = 'EAO.Properties.C20'
THEOREMS = [
    (P, 'EAO.C20.build_ok', 'the builder never fails on typed orders'),
    (P, 'EAO.C20.order_rows', 'one variable per order with bounds [0,1], no restriction rows, boolean exactly under full execution (for orders covering a step)'),
    (P, 'EAO.C20.order_feasible', 'x is feasible for the order book\'s own problem iff every execution fraction lies in [0,1]'),
    (P, 'EAO.C20.order_bools_portfolio', 'the boolean variables seen by the portfolio are those of the order book'),
    (P, 'EAO.C20.order_delivery', 'delivery at a step = sum over orders covering it of fraction * capacity * step length'),
    (P, 'EAO.C20.order_delivery_elsewhere', 'no delivery at other nodes or steps'),
    (P, 'EAO.C20.order_cash', 'cash = - sum_o fraction_o * capa_o * price_o * sum over covered steps of dt * discount'),
    (P, 'EAO.C20.order_report', 'the special table lists the live orders in order with fraction and fraction * cost'),
    (P, 'EAO.C20.order_outside_inert', 'an order with no step in the horizon has zero cost, no mapping row, no restriction, occurs in no nodal row; cost and dispatch do not depend on its variable'),
    (P, 'EAO.C20.order_flow', 'flow of the order-book problem into any node at any step = delivered volume of the per-order formulation'),
    (P, 'EAO.C20.order_cost', 'minus the cost of the order-book problem = minus the textbook payment'),
    (P, 'EAO.C20.order_refines', 'partial execution: the asset problem and the textbook per-order book have exactly the same attainable (flows, cash) pairs, on any grid'),
    (P, 'EAO.C20.order_refines_full', 'full execution: the pairs attainable with the declared booleans in {0,1} are exactly those of the textbook book with every fraction in {0,1} (orders outside the horizon change neither flows nor cash)'),
    (P, 'EAO.C20.orderbook_composable', 'the order book meets the premises (WF, Local) of the composition theorems'),
    (P, 'EAO.C20.order_refines_portfolio', 'a portfolio containing the order book at any position among assets that refine their textbook semantics has the same upper bounds of its (relaxed) value set as the textbook portfolio with the per-order formulation; feasible points correspond both ways with equal flows'),
    (P, 'EAO.C20.portfolio_refines_bool', 'boolean analogue of C02.portfolio_refines: for assets that are well-formed, local, with mapping rows in range and RefinesBool their semantics, the assembled MIP (Problem.Feasible, flags enforced) and the textbook portfolio match point by point and have the same upper bounds of their value sets'),
    (P, 'EAO.C20.orderbook_mapInRange', 'every mapping row of the order book points at one of its variables'),
    (P, 'EAO.C20.order_refinesBool', 'the full-execution order book refines (with its booleans enforced) the textbook book with every fraction in {0,1}'),
    (P, 'EAO.C20.order_refines_portfolio_full', 'full execution at PORTFOLIO level: a portfolio containing a full-execution order book at any position among assets that RefinesBool their textbook semantics (they may carry booleans themselves) has the same optimum bounds as the textbook portfolio with one 0/1 execution variable per order; feasible points correspond both ways with equal flows'),
    (P, 'EAO.C20.order_refines_portfolio_full_lp_others', 'corollary for other assets without boolean variables that Refines their semantics (all LP assets of C02)'),
    (P, 'EAO.C20.orderbook_wf', 'the built problem is well-formed (sizes, names, steps on the grid, row-less variables have zero cost)'),
]
PARTIAL = []
COMPONENTS = ['orderbook builder vs OrderBook.setup_optim_problem', 'orderbook read-out (dispatch, DCF, special rows) vs io.extract_output']
RULE = ('1-6 orders of 18 placement kinds (inside, straddling, outside before/after, off-grid, touching, zero-length, reversed), dates naive/strings/zone-aware, '
        'capacities and prices as floats (eighths), whole numbers given as Python ints, whole floats or entry-wise mixed (about 30% of the cases all ints in both columns, half of those on a grid '
        'drawn from the 15min/30min and main-time-unit d/min combinations and half with wacc > 0, so that whole numbers meet fractional discounted durations); orders as dict of lists / tuples / numpy arrays (int64, float64, object) / lists of numpy scalars / Series, '
        'or as DataFrame with int64 / float64 / object columns; 15 grids incl. MS and DST days, 5 zones, wacc, NaN/length malformations; '
        'half of the cases embedded in a portfolio (market, sometimes storage) and optimised; non-trivial = some order executed / covering a step; distinct by case hash. '
        'Stream `books` (comp/obseq.py, 240 cases quick): 1-3 order books (own order numbering from 0, names drawn from a pool, columns as lists / numpy arrays / DataFrame, own wacc and '
        'full_exec each) in ONE portfolio on one or two nodes (two market places at one node, one book per node, random), a market contract per node, sometimes a fixed load and a '
        'one-directional link between the nodes, assets in shuffled order; 1-4 stages on the SAME asset and portfolio objects: before each later stage 1-2 edits drawn from '
        '{main time unit of the grid with start/end/frequency unchanged, order list of a book replaced, wacc of a book, full_exec of a book, price arrays, time zone of the grid, '
        'another horizon, new Portfolio object from the same assets in another order, costs_only set-up of one book alone, nothing}, the grid object reused or built anew; '
        'every stage is judged per book: rows of the special table = orders with a step in the horizon, fractions in [0,1] / {0,1}, dispatch column = sum reported fraction x capacity x '
        'step length, cash flow = - sum reported fraction x capacity x price x discounted covered duration, optimum = independent LP with one execution variable per order of every book; '
        'each book\'s own problem of each stage is also compared with the model\'s builder. '
        'Stream `forms` (comp/obforms.py, 320 cases quick): the cases of the first stream (55% DataFrame, mostly 2-6 orders, also a single order; 60% in a portfolio) with the order list '
        'in a CONTAINER form: DataFrame with RangeIndex / labels starting again (pd.concat of 2-3 frames without ignore_index) / one label for all rows / repeated integers / integers not from 0, '
        'with holes, not ascending / strings unique or repeated / non-integer numbers / DatetimeIndex unique, repeated, zone-aware, the start column as index / MultiIndex unique or repeated / '
        'a larger frame filtered with a boolean mask / a frame re-sorted with sort_values; further columns (strings, numbers, booleans) and the columns in another order; dict whose entries are '
        'pandas Series (default index, string / date labels, named; a small share with numeric labels other than 0..n-1), pandas Index / DatetimeIndex, pandas extension arrays, numpy datetime64 '
        'arrays, tuples, per column or all four over one index, with further keys and the keys in another order.  The orders are the rows BY POSITION; judged by oracles order_count (execution '
        'variables = orders given, bounds [0,1]), order_cost / order_delivery on the book\'s own problem (cost and covered steps of variable i = those of the i-th order given, computed by the '
        'harness from the plain columns), order_container (a container must not raise when the plain form of the same orders is set up) and by all portfolio oracles of the first stream '
        '(independent per-order LP, tables, inert orders, wrapper) built through the same container')
ASSUMPTIONS = ['independent reference LP solved with scipy linprog (full execution: enumeration of 0/1 patterns, one LP each)', 'tolerance 1e-9 where the implementation computes with non-dyadic numbers',
               'stream `books`: step lengths, discount factors and covers of the reference are computed from the description of the stage\'s grid (date_range of start/end/frequency in the zone, '
               'seconds per main time unit), not read from grid or asset objects; parameters of an existing order book are changed by assigning its attributes orders / wacc / full_exec '
               '(the set-up reads them at every call); at most 6 orders in full-execution books per case (pattern enumeration)',
               'stream `forms`: the orders of a DataFrame or of array-like dict entries are its rows / entries by position (row labels, column order and further columns carry no meaning); '
               'the container is built by the pandas operation it is named after (pd.concat, boolean mask, sort_values, set_index), the recipe is independent of the number of orders']
EXPLANATION = ('theorems about the model of the OrderBook builder and the order read-out; correspondence; oracles on the real code incl. an independent per-order formulation and the inertness metamorphic test; '
               'the model and the oracles take the exact rational values of the orders, whatever the numeric type and container in which the implementation receives them; '
               'stream `books`: the statement of C20 evaluated per order book of a portfolio with several books, and again after every change of the same objects '
               '(a set-up must depend on the present orders, wacc, full_exec and grid only, never on an earlier set-up), against the independent per-order formulation of the whole portfolio; '
               'stream `forms`: the statement of C20 (one execution variable per order, optimum = per-order formulation, reported fractions reproduce dispatch and cash) must hold for every '
               'container in which the same list of orders can be handed over: the number of variables is counted against the number of orders given and the reference is computed from the plain columns')


def scenarios(seed, tier):
    n = 640 if tier == 'quick' else 3840
    rnd = random.Random(seed * 7919 + 20)
    for i in range(n):
        yield 'ob%d' % i, OB.gen_case(random.Random(rnd.getrandbits(48)), with_portfolio=(rnd.random() < 0.5))
    # several order books in one portfolio, the same objects set up again after edits (comp/obseq.py)
    rnd2 = random.Random(seed * 7919 + 2020)
    for i in range(240 if tier == 'quick' else 1440):
        yield 'books%d' % i, OBS.gen_case(random.Random(rnd2.getrandbits(48)))
    # container forms of the order list (comp/obforms.py)
    rnd3 = random.Random(seed * 7919 + 202020)
    for i in range(320 if tier == 'quick' else 1920):
        yield 'forms%d' % i, OB.gen_case_forms(random.Random(rnd3.getrandbits(48)))


def run_case(case, drv):   # stream `forms` runs through OB.run_case (case['container'] shapes the order list)
    if case.get('stream') == 'books':
        return OBS.run_case(case, drv)
    return OB.run_case(case, drv)
