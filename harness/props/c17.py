"""C17 Stochastic and robust problems."""
from ..comp import slp as S

ID = 'C17'
P = 'EAO.Properties.C17'
THEOREMS = [
    (P, 'EAO.C17.makeSlp_ok_iff', 'exact success condition of make_slp (non-empty future, future labels in range, bounds and samples of the right length)'),
    (P, 'EAO.C17.makeSlp_error', 'every failure is an index error'),
    (P, 'EAO.C17.makeSlp_eq', 'shape of the SLP problem: cost, bounds, rows, mapping'),
    (P, 'EAO.C17.slp_n', 'n_slp = n + S * n_future'),
    (P, 'EAO.C17.slp_structure', 'a point of the SLP problem is (x_present, x_future^0 .. x_future^S): it is feasible iff every recombined (x_present, x_future^s) is feasible for the original problem; its value is value_present + mean over scenarios of value_future^s. Present-stage decisions are common to all scenarios by construction'),
    (P, 'EAO.C17.value_split', 'value = present part + future part'),
    (P, 'EAO.C17.slp_value_mean', 'if the samples share the present costs the SLP value is the mean of the full scenario values'),
    (P, 'EAO.C17.slp_mapping_faithful', 'the mapping of the SLP problem keeps the original rows and gives every copy the label of its new variable; first rows and boolean variables are the original ones plus the copies'),
    (P, 'EAO.C17.slp_dispatch_mean', 'the dispatch reported for an SLP result = mean over scenarios of the dispatch of the recombined points: present variables count once (also where they reach into the future), future variables are averaged'),
    (P, 'EAO.C17.slp_dispatch_balance', 'hence the reported SLP dispatch balances at every node and step where every recombined point does'),
    (P, 'EAO.C17.slp_le_wait_and_see', 'abstract two-stage lemma: SLP value <= mean of per-scenario upper bounds'),
    (P, 'EAO.C17.ev_le_slp', 'abstract: fixing the first stage to any decision that admits recourse in every scenario gives an SLP-feasible point; its mean value is <= every upper bound of the SLP value'),
    (P, 'EAO.C17.slp_eq_det_of_equal', 'abstract: all scenarios equal => SLP optimum = deterministic optimum'),
    (P, 'EAO.C17.slp_le_wait_and_see_problem', 'instance for makeSlp'),
    (P, 'EAO.C17.slp_eq_det_of_equal_problem', 'instance for makeSlp'),
    (P, 'EAO.C17.robust_bounds', 'worst case of any feasible x <= smallest per-scenario upper bound; the maximiser of the worst case dominates the worst case of every feasible point'),
    (P, 'EAO.C17.robust_bounds_problem', 'instance for the robust target (robustObjective)'),
    (P, 'EAO.C17.robust_reported_value', 'if the problem\'s own cost vector is among the samples the worst case is at most the reported value'),
    ('EAO.Properties.C03', 'EAO.C03.robust_epigraph', 'the epigraph value handed to the solver is the minimum over the samples of -c_s.x'),
]
PARTIAL = ['ev_le_slp is proved in abstract form; its concrete instance for makeSlp (fixing the present variables) is a TARGET comment in C17.lean and covered by the oracle chain EEV <= SLP <= WS on the real code']
COMPONENTS = ['makeSlp vs stoch_lin_prog.make_slp (full problem incl. mapping labels and slp column)', 'SLP read-out (dispatch of future steps averaged) vs io.extract_output', 'robust value']
RULE = ('small LP portfolios (one row per variable, several rows per variable, row-less variables, scaled asset), boundary at first/last step/off-grid, 1-4 samples; per case: make_slp correspondence, chain EEV_k <= SLP <= wait-and-see, SLP = deterministic for equal scenarios, read-out (DCF total, nodal balance, mean dispatch), robust bounds; '
        'non-trivial = SLP solved with a strict inequality somewhere in the chain or robust bounds; distinct by case hash')
ASSUMPTIONS = ['values compared with tolerance 2e-6 relative']
EXPLANATION = 'structure theorem about the model of make_slp + abstract two-stage/robust lemmas; correspondence; oracle chain on the real code'


def scenarios(seed, tier):
    n = 250 if tier == 'quick' else 2500
    return S.cases(n, seed)


def run_case(case, drv):
    return S.run_case(case, drv)
