"""C17 Stochastic and robust problems."""
from ..comp import slp as S

ID = 'C17'
P = 'EAO.Properties.C17'
THEOREMS = S.THEOREMS_C17
PARTIAL = S.PARTIAL_C17
COMPONENTS = ['makeSlp vs stoch_lin_prog.make_slp (full problem incl. mapping labels and slp column)', 'SLP read-out (dispatch of future steps averaged) vs io.extract_output', 'robust value']
RULE = ('small LP portfolios (one row per variable, several rows per variable, row-less variables, scaled asset), boundary at first/last step/off-grid, 1-4 samples; per case: make_slp correspondence, chain EEV_k <= SLP <= wait-and-see, SLP = deterministic for equal scenarios, read-out (DCF total, nodal balance, mean dispatch), robust bounds; '
        'non-trivial = SLP solved with a strict inequality somewhere in the chain or robust bounds; distinct by case hash')
ASSUMPTIONS = ['values compared with tolerance 2e-6 relative']
EXPLANATION = 'structure theorem about the model of make_slp + abstract two-stage/robust lemmas; correspondence; oracle chain on the real code'


def scenarios(seed, tier):
    n = 500 if tier == 'quick' else 3000
    return S.cases(n, seed)


def run_case(case, drv):
    return S.run_case(case, drv)
