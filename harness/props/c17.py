"""C17 Stochastic and robust problems."""
from ..comp import slp as S
from ..comp import costsonly as CO

ID = 'C17'
P = 'EAO.Properties.C17'
from ..comp import costsonly2 as CO2
THEOREMS = S.THEOREMS_C17 + CO.THEOREMS_C17_COSTS + CO2.THEOREMS_C17_COSTS2
PARTIAL = S.PARTIAL_C17
COMPONENTS = ['makeSlp vs stoch_lin_prog.make_slp (full problem incl. mapping labels and slp column)', 'SLP read-out (dispatch of future steps averaged) vs io.extract_output', 'robust value']
RULE = ('small LP portfolios (one row per variable, several rows per variable, row-less variables, scaled asset), boundary at first/last step/off-grid, 1-4 samples; '
        'family "keyed": cost parameters other than `price` given as keys into the price dict (extra_costs of contracts and plants, Transport costs_time_series, start/running costs of plants) '
        'and sample modes in which the `price` series are common to the samples while these other series differ (aux_only), the other way round (price_only), or every series picks one of a few variants per sample (variants); '
        'family "linked" (a few per cent): a LinkedAsset (CHP with on-variables + second unit, time_back / time_forward) in the portfolio, mixed integer - evaluated like the MIP plants of the other streams (correspondence, structure, cost samples); '
        'start_future is handed over in a form drawn with the case (zone-aware grids, incl. grids crossing a DST switch: Timestamp in the zone of the grid / naive datetime / naive date / Timestamp of the same instant in another zone; naive grids: datetime / Timestamp / date) '
        'and on every zone-aware grid all forms of the instant must give the same SLP problem (or the same error class); '
        'probe "zero_aux" (a handful of cases per run): a sampled extra_costs / start_costs series identically zero in some scenarios and not in others (known finding F-17m); '
        'per case: make_slp correspondence, cost vector of create_cost_samples == c of the separately set-up problem of every sample, chain EEV_k <= SLP <= wait-and-see, SLP = deterministic for equal scenarios, '
        'read-out (DCF total, nodal balance, mean dispatch), robust bounds - the scenarios of the chain and of the robust worst case are the separately set-up problems of the samples; '
        'non-trivial = SLP solved with a strict inequality somewhere in the chain or robust bounds; distinct by case hash')
ASSUMPTIONS = ['values compared with tolerance 2e-6 relative',
               'outside the probe stream zero_aux, sampled extra_costs / start_costs series are kept strictly positive (a series that vanishes on the whole window of the asset changes the number of variables of the asset: F-17m, see comp/slp.py positive_aux)',
               'LinkedAsset: all wrapped assets live on the whole horizon']
EXPLANATION = ('structure theorem about the model of make_slp + abstract two-stage/robust lemmas; correspondence; oracle chain on the real code, '
               'with per-scenario problems set up one by one through Portfolio.setup_optim_problem (not taken from create_cost_samples)')


def scenarios(seed, tier):
    n = 500 if tier == 'quick' else 3000
    yield from S.cases(n, seed)
    # the costs_only branch of every builder and create_cost_samples against their model and against the cost vector of the full set-up (comp/costsonly.py)
    import random
    rnd = random.Random(seed * 104729 + 1717)
    for i in range(n // 3):
        yield 'co%d' % i, {'_stream': 'costsonly', 'case': CO.gen_case(random.Random(rnd.getrandbits(48)))}


def run_case(case, drv):
    if isinstance(case, dict) and case.get('_stream') == 'costsonly':
        rec = CO.run_case(case['case'], drv)
        return {'evaluated': 1, 'nontrivial': rec.get('status') == 'ok', 'features': list(rec.get('features', [])) + ['status:' + str(rec.get('status'))],
                'disagreements': [d if isinstance(d, dict) else {'component': 'costs_only', 'detail': d} for d in rec['disagreements']],
                'violations': rec['violations']}
    return S.run_case(case, drv)
