"""C05 Storage physics."""
import random
from ..comp import storage as ST

ID = 'C05'
P = 'EAO.Properties.C05'
THEOREMS = [
    (P, 'EAO.C05.storage_rates', 'for every x within the bounds: -cap_in*dt <= x_in <= 0 <= x_out <= cap_out*dt (one-variable form: -cap_in*dt <= x <= cap_out*dt), with any options'),
    (P, 'EAO.C05.storage_blocks', 'for every block list, with or without maximum holding duration: 0 <= physical level <= size at every step, level = end level at the window end and at every block end'),
    (P, 'EAO.C05.storage_level_bounds', 'the same without blocks'),
    (P, 'EAO.C05.no_simult', 'with the no-simultaneous option and the flagged booleans in {0,1}: x_in,t = 0 or x_out,t = 0'),
    (P, 'EAO.C05.max_hold_indicator', 'maximum holding duration: indicator 0 implies physical level 0'),
    (P, 'EAO.C05.max_hold', 'maximum holding duration: in every window that exceeds the limit the level is 0 at some step, i.e. the level is never non-zero for longer than the limit'),
    (P, 'EAO.C05.fill_level_reported', 'the reported fill level is start + cumulative (max(0,-x)*eff + min(0,-x)) + inflow, for all x'),
    (P, 'EAO.C05.fill_level_true', 'the reported fill level equals the physical level when x_in <= 0 <= x_out'),
    (P, 'EAO.C05.fill_level_true_feasible', 'hence for every point within the storage\'s bounds'),
    (P, 'EAO.C05.storage_wf', 'the built problem is well-formed (sizes, column indices, mapping variables, names, nodes), incl. the empty window'),
    (P, 'EAO.C05.old_witness_now_rejected', 'the witness of the repaired defect F-05d is infeasible for the repaired rows'),
]
PARTIAL = ['the equality of the reported charge/discharge columns with -x_in / -x_out is covered by the read-out correspondence and the oracle, not by a theorem', 'level theorems assume 0 <= end_level <= size, which the constructor does not check (end_level > size is accepted by the code and feasible with the last level above size)']
COMPONENTS = ['storage builder vs Storage.setup_optim_problem (cost, bounds, rows in order, mapping)', 'storage read-out (fill level, charge, discharge) vs Storage.fill_level / io.extract_output', 'block start positions for tick block sizes vs pandas']
RULE = ('storages over (size, rates, efficiency, start/end level, inflow, three costs, price, 1|2 nodes, windows, blocks, both MIP options, grids with unequal steps (DST), several units), each embedded in a small portfolio with a market per node and optimised; '
        'non-trivial = solved with non-zero charge and discharge; distinct by case hash')
ASSUMPTIONS = ['oracle tolerance 1e-6 scaled; MIP cases solved with HiGHS']
MODELLED = ['block boundaries for calendar block sizes are an input of the model (computed with the same pandas expression as the code); tick block sizes are modelled and cross-checked']
EXPLANATION = 'theorems about the model of the Storage builder and the reported series; correspondence; oracle recomputing the physical level from x and the PARAMETERS'


def scenarios(seed, tier):
    n = 300 if tier == 'quick' else 3000
    rnd = random.Random(seed * 7919 + 5)
    for i in range(n):
        r1 = random.Random(rnd.getrandbits(48))
        c = ST.gen_case(r1)
        ok = not any(f.startswith('malformed') for f in c.get('features', []))
        if ok and i % 10 == 3:
            c = ST.focus_blocks(c, r1)
        elif ok and i % 10 == 7:
            c = ST.focus_holding(c, r1)
        yield 'st%d' % i, c


def run_case(case, drv):
    return ST.run_case(case, drv)
