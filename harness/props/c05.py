"""C05 Storage physics."""
import random
from ..comp import storage as ST
from ..comp import storageread as SR
from ..comp import coarseread as CR
from ..comp import storeseq as SQ

ID = 'C05'
P = 'EAO.Properties.C05'
THEOREMS = [
    (P, 'EAO.C05.storage_rates', 'for every x within the bounds: -cap_in*dt <= x_in <= 0 <= x_out <= cap_out*dt (one-variable form: -cap_in*dt <= x <= cap_out*dt), with any options'),
    (P, 'EAO.C05.storage_blocks', 'for every block list, with or without maximum holding duration: 0 <= physical level <= size at every step, level = end level at the window end and at every block end'),
    (P, 'EAO.C05.storage_level_bounds', 'the same without blocks'),
    (P, 'EAO.C05.no_simult', 'with the no-simultaneous option and the flagged booleans in {0,1}: x_in,t = 0 or x_out,t = 0'),
    (P, 'EAO.C05.max_hold_indicator', 'maximum holding duration: indicator 0 implies physical level 0'),
    (P, 'EAO.C05.max_hold', 'maximum holding duration: in every window that exceeds the limit the level is 0 at some step, i.e. the level is never non-zero for longer than the limit'),
    (P, 'EAO.C05.fill_level_reported', 'the reported fill level is start + cumulative (max(0,-x)*eff + min(0,-x)) + inflow, for all x'),
    (P, 'EAO.C05.fill_level_true', 'the reported fill level equals the physical level when x_in <= 0 <= x_out'),
    (P, 'EAO.C05.fill_level_true_feasible', 'hence for every point within the storage\'s bounds'),
    (P, 'EAO.C05.storage_wf', 'the built problem is well-formed (sizes, column indices, mapping variables, names, nodes), incl. the empty window'),
    (P, 'EAO.C05.old_witness_now_rejected', 'the witness of the repaired defect F-05d is infeasible for the repaired rows'),
]
THEOREMS = THEOREMS + SR.THEOREMS_C05_READOUT + CR.THEOREMS_C05_COARSE
PARTIAL = ['level theorems assume 0 <= end_level <= size, which the constructor does not check (end_level > size is accepted by the code and feasible with the last level above size)']
COMPONENTS = ['storage object re-used over several horizons / split intervals (oracle only)', 'storage builder vs Storage.setup_optim_problem (cost, bounds, rows in order, mapping)', 'storage read-out (fill level, charge, discharge) vs Storage.fill_level / io.extract_output', 'block start positions for tick block sizes vs pandas']
RULE = ('storages over (size, rates, efficiency, start/end level, inflow, three costs, price, 1|2 nodes, windows, blocks, both MIP options, grids with unequal steps (DST), several units; number FORMS: every numeric parameter whose value is whole is handed to the constructor as Python int / np.int64 / np.int32 / float / np.float64 and whole-valued price series as int64 / int32 / float64 arrays (market series also as lists of ints), drawn per parameter from the seed while model and oracle keep the exact values; focus stream with whole size / start level next to a fractional end level and vice versa, whole rates, costs, inflow, holding limit, mostly without inflow and blocks), each embedded in a small portfolio with a market per node and optimised; '
        'non-trivial = solved with non-zero charge and discharge; distinct by case hash; '
        'stream sequence (comp/storeseq.py): ONE storage object inside ONE portfolio object set up and optimised in several stages - rolling horizons of equal or different length shifted by a few grid steps '
        '(mostly not by whole blocks), the same horizon again, other uses of the objects in between (cost samples, asset-level set-up, set_timegrid), or the consecutive intervals of '
        'Portfolio.setup_split_optim_problem with interval sizes that are no multiple of the block size - for storages whose calendar features do not sit on the horizon start: time blocks with a calendar anchor '
        '(W, MS), blocks of plain durations anchored at the storage\'s own start, grids d / 12h / 6h / h with and without time zone and clock changes inside the horizons, own windows fixed in the calendar '
        '(starting before / inside, ending inside / beyond the horizon), own coarser frequency whose first / last coarse step is covered by the horizon only in part (cuts also off the grid points), with '
        'start level != end level, inflow, charging loss, costs, one or two nodes (no MIP options in this stream)')
ASSUMPTIONS = ['oracle tolerance 1e-6 scaled; MIP cases solved with HiGHS',
               'stream sequence: the active steps of a storage are those that carry its variables (a coarse storage drops the grid steps after its last coarse cut: finding F-19b of C13/C19); the reported fill level over the whole horizon of a SPLIT problem is compared only when start level = end level and no interval dropped such steps (every interval restarts at the start level: finding F-14b of C14) - the per-interval statements are checked in all cases', 'number forms explored: Python int/float, np.int32/int64/float64 (no float32, no Decimal/Fraction); the price series of the storage itself always as numpy array (the code indexes it as one; lists only for the market contracts)']
MODELLED = ['block boundaries for calendar block sizes are an input of the model (computed with the same pandas expression as the code); tick block sizes are modelled and cross-checked']
EXPLANATION = ('theorems about the model of the Storage builder and the reported series; correspondence; oracle recomputing the physical level from x and the PARAMETERS (their exact values, whatever number form - int, numpy integer, float - the constructor received); '
               'stream sequence: the same oracle (level within [0, size], end level at the last active step, at every block end and in every split interval, rates, window, reported level / charge / discharge / dispatch = physical) '
               'after EVERY set-up of the same objects, with step lengths recomputed from the time points and block positions computed on grid objects the storage never saw')


def scenarios(seed, tier):
    n = 600 if tier == 'quick' else 3600
    rnd = random.Random(seed * 7919 + 5)
    rndf = random.Random(seed * 7919 + 505)     # input forms: own stream of random numbers, the values of the cases stay as they were
    for i in range(n):
        r1 = random.Random(rnd.getrandbits(48))
        rf = random.Random(rndf.getrandbits(48))
        c = ST.gen_case(r1)
        ok = not any(f.startswith('malformed') for f in c.get('features', []))
        if ok and i % 10 == 3:
            c = ST.focus_blocks(c, r1)
        elif ok and i % 10 == 7:
            c = ST.focus_holding(c, r1)
        # number FORMS: whole numbers reach the constructor as int / numpy integer, price series as integer arrays ...
        if ok and i % 10 in (1, 5, 9):
            c = ST.focus_forms(c, rf)           # many whole-number parameters next to fractional ones
        elif rf.random() < 0.5:
            c = ST.draw_forms(c, rf)            # the case as drawn, whole numbers (if any) in integer forms
        yield 'st%d' % i, c
    from .. import gen
    for i in range(n // 10):
        r1 = random.Random(rnd.getrandbits(48))
        sc = gen.gen_portfolio(r1, kinds=['simple'], tmax=12, tz_prob=0.1, allow_mip=False, max_assets=2, nodes_max=1, allow_freq=False, allow_periodic=False)
        g = sc['grid']
        T = g['T_nominal']
        base = gen.gen_storage(r1, g, sc['prices'], T, 'ssto_b', [sc['nodes'][0]], False, False)
        base['args'].setdefault('start_level', gen.q8(r1, 0, base['args']['size']))
        base['args'].setdefault('end_level', base['args']['start_level'])
        s_, nrm = r1.choice([0.5, 1.0, 2.0, 3.0]), r1.choice([0.5, 2.0, 4.0, 8.0])
        sc['assets'].append({'type': 'ScaledAsset', 'name': 'ssto', 'base': base, 'args': {'min_scale': s_, 'max_scale': s_, 'norm_scale': nrm, 'fix_costs': 0.0}})
        yield 'sc%d' % i, {'_stream': 'scaled', 'scn': sc, 'args': dict(base['args']), 'k': s_ / nrm}
    from ..comp import periodic as PE
    for i in range(n // 6):
        r1 = random.Random(rnd.getrandbits(48))
        c = PE.gen_case(r1, oracle=True, atype='Storage', kind=r1.choice(['freq', 'per', 'perdur', 'freq']))
        c['focus']['args'].pop('cost_store', None)
        yield 'pe%d' % i, {'_stream': 'pe', 'case': c}
    # the storage at the first / a middle / the last position of a portfolio with other assets; end level inside, above, below [0, size] (comp/storageread.py)
    rnd5 = random.Random(seed * 7919 + 5 + 300007)
    for i in range(n // 6):
        yield 'ro%d' % i, {'_stream': 'readout', 'case': SR.gen_case(random.Random(rnd5.getrandbits(48)))}
    # ONE storage / portfolio object optimised on several horizons (rolling, split intervals); blocks, windows and coarse steps tied to the calendar (comp/storeseq.py)
    rnd6 = random.Random(seed * 7919 + 5 + 600011)
    for i in range(n // 4):
        yield 'sq%d' % i, {'_stream': 'seq', 'case': SQ.gen_case(random.Random(rnd6.getrandbits(48)))}


def run_pe(case):
    """a storage with periodicity or on a coarser frequency, optimised in a portfolio: physical level (start level +
    efficiency x charged - discharged + inflow, per FINE step, from the solution vector and the dispatch rows of the
    storage) within [0, size], back at the end level, and equal to the reported fill level"""
    import numpy as np
    from ..comp import periodic as PE
    from .. import impl
    r = {'evaluated': 1, 'nontrivial': False, 'features': ['stream:coarse-or-periodic', 'opt:' + '+'.join(sorted(case['opt']))], 'disagreements': [], 'violations': []}
    try:
        portf, tg, prices = PE.real_portfolio(case)
        op, res, out = PE.solve_portfolio(portf, tg, prices)
    except Exception as e:
        r['features'].append('setup-error:' + impl.err_class(e))
        return r
    if out is None:
        r['features'].append('unsolved')
        return r
    a = case['focus']['args']
    eff = float(a.get('eff_in', 1.0))
    m = op.mapping
    mm = m[(m['asset'] == 'X') & (m['type'] == 'd')]
    fac = mm['disp_factor'].fillna(1.).values if 'disp_factor' in mm.columns else np.ones(len(mm))
    flow = np.zeros(tg.T)
    x = np.asarray(res.x, dtype=float)
    for i, t, f in zip(mm.index, mm['time_step'].values, fac):
        v = -x[int(i)] * f
        flow[int(t)] += v * eff if v > 0 else v
    infl = float(a.get('inflow', 0.0))
    level = float(a.get('start_level', 0.0)) + np.cumsum(flow + infl * np.asarray(tg.dt, dtype=float))
    size = float(a['size'])
    tol = 1e-6 * max(1.0, size)
    facts = {'opt': sorted(case['opt']), 'kind': 'coarse_or_periodic'}

    def viol(orc, msg):
        r['violations'].append({'oracle': orc, 'detail': msg, 'facts': facts})
    steps = sorted(set(int(t) for t in mm['time_step'].values))
    if steps and steps == list(range(tg.T)) and 'start' not in a and 'end' not in a:
        bad = np.where((level < -tol) | (level > size + tol))[0]
        if len(bad):
            viol('storage.level_bounds', 'physical level %.6g at step %d outside [0, %g] (%s)' % (level[bad[0]], int(bad[0]), size, case['opt']))
        if abs(level[-1] - float(a.get('end_level', 0.0))) > tol:
            viol('storage.end_level', 'physical level at the last step %.6g, end level %g (%s)' % (level[-1], float(a.get('end_level', 0.0)), case['opt']))
        col = 'X_fill_level'
        iv = out.get('internal_variables')
        if iv is not None and col in iv.columns:
            rep = iv[col].values.astype(float)
            d = np.abs(rep - level)
            if d.max() > tol:
                t = int(np.argmax(d))
                viol('storage.reported', 'reported fill level %.6g at step %d, physical level %.6g (%s)' % (rep[t], t, level[t], case['opt']))
            r['features'].append('reported-level-compared')
        r['nontrivial'] = bool(np.abs(flow).max() > 1e-7)
    else:
        r['features'].append('skip:partial-cover')
    return r


def run_scaled(case):
    """a storage inside a scaled asset held at a fixed scale s (normalisation N): it is the storage with size, levels, inflow
    and rates times s/N - physical level within [0, size s/N], back at end_level s/N, charge/discharge within rate s/N x dt"""
    import numpy as np
    from .. import pf, impl
    r = {'evaluated': 1, 'nontrivial': False, 'features': ['stream:scaled-storage'], 'disagreements': [], 'violations': []}
    try:
        rec = pf.setup_mono(case['scn'])
        pf.solve_rec(rec)
    except Exception as e:
        r['features'].append('setup-error:' + impl.err_class(e))
        return r
    if isinstance(rec['res'], str):
        r['features'].append('unsolved')
        return r
    a, k = case['args'], case['k']
    op, x, tg = rec['op'], np.asarray(rec['res'].x, dtype=float), rec['tg']
    m = op.mapping
    mm = m[(m['asset'] == 'ssto') & (m['type'] == 'd')]
    if not len(mm):
        return r
    eff = float(a.get('eff_in', 1.0))
    steps = sorted(set(int(t) for t in mm['time_step'].values))
    dt = np.asarray(tg.dt, dtype=float)
    flow = np.zeros(tg.T)
    for i, t in zip(mm.index, mm['time_step'].values):
        v = -x[int(i)]
        flow[int(t)] += v * eff if v > 0 else v
        cap = (float(a['cap_in']) if v > 0 else float(a['cap_out'])) * k * dt[int(t)]
        if abs(v) > cap + 1e-6 * max(1.0, cap):
            r['violations'].append({'oracle': 'storage.rates', 'detail': 'scaled storage (factor %g): step %d moves %.6g, rate x factor x dt = %.6g' % (k, int(t), v, cap), 'facts': {'kind': 'scaled_storage'}})
            break
    infl = float(a.get('inflow', 0.0)) * k
    level = float(a.get('start_level', 0.0)) * k + np.cumsum((flow + infl * dt)[steps[0]:steps[-1] + 1])
    size = float(a['size']) * k
    tol = 1e-6 * max(1.0, size)
    bad = np.where((level < -tol) | (level > size + tol))[0]
    if len(bad):
        r['violations'].append({'oracle': 'storage.level_bounds', 'detail': 'scaled storage (factor %g): physical level %.6g at step %d outside [0, %g]' % (k, level[bad[0]], steps[0] + int(bad[0]), size), 'facts': {'kind': 'scaled_storage'}})
    if abs(level[-1] - float(a.get('end_level', 0.0)) * k) > tol:
        r['violations'].append({'oracle': 'storage.end_level', 'detail': 'scaled storage (factor %g): physical level at the last step %.6g, end level x factor %g' % (k, level[-1], float(a.get('end_level', 0.0)) * k), 'facts': {'kind': 'scaled_storage'}})
    r['nontrivial'] = bool(np.abs(flow).max() > 1e-7)
    return r


def run_case(case, drv):
    if case.get('_stream') == 'pe':
        return run_pe(case['case'])
    if case.get('_stream') == 'scaled':
        return run_scaled(case)
    if case.get('_stream') == 'seq':
        return SQ.run_case(case['case'], drv)
    if case.get('_stream') == 'readout':
        r = SR.run_case(case['case'], drv)
        r['nontrivial'] = bool(r.get('solved'))
        r['features'] = ['stream:readout'] + list(r.get('features', []))
        return r
    return ST.run_case(case, drv)
