"""C04 Value accounting."""
import random
import numpy as np
from .. import gen, pf, impl

ID = 'C04'
THEOREMS = [
    ('EAO.Properties.C04', 'EAO.C04.asset_dcf_total', 'per asset: the DCF row sums over all steps equal minus the cost of the asset\'s own block of variables times their values (first mapping row per variable decides the step; row-less variables have zero cost)'),
    ('EAO.Properties.C04', 'EAO.C04.value_accounting', 'the sum over all assets and steps of the DCF table equals -c.x, for every x, any number of assets, steps and rows per variable'),
    ('EAO.Properties.C04', 'EAO.C04.value_accounting_split', 'the same for split problems: interval by interval, summed'),
    ('EAO.Properties.C03', 'EAO.C03.blockSum_value', 'value of the block-diagonal sum of interval problems = sum of interval values'),
]
from ..comp import resultvalue as _RV
THEOREMS = THEOREMS + _RV.THEOREMS_C04_RESULT
COMPONENTS = ['hypotheses of the assembly theorems (well-formedness of asset problems) evaluated on every captured real asset problem', 'assemble (cost, mapping) on captured real asset problems', 'readout.dcf vs Asset.dcf / io.extract_output["DCF"] (MIP / LP optimum and the relaxed solution of problems with booleans)']
RULE = ('random portfolios incl. periodic, coarse-frequency, scaled, structured assets and order books; mono and split; '
        'every split solution is re-optimised as a split problem with whole intervals pinned to it through fix_time_window (a prefix = the past, a subset, or all; '
        'window as mask, index array or date; prices of the other steps changed) and the accounting identity checked on that result too; '
        'plus (one more case per 8) portfolios of assets pinned by min_cap == max_cap with non-zero prices (fixed-rate / fixed-profile contracts, multi-commodity '
        'contracts, fixed-flow transports; balanced per node or not by a seed-drawn choice), alone or next to a flexible market contract active in part of the '
        'horizon, optimised in one go and split into intervals some of which have no free variable but non-zero cash flows; '
        'plus (one more case per 6 each, mono and split, comp/c04gen.py) (a) portfolios on grids from hourly to weekly steps in which every order book discounts '
        '(wacc 0.05 .. 1.0; the market of its node with the same, another or no wacc) and, in four of five books, has orders priced against the market of its node '
        '(three in four of them attractive, i.e. executed; else the generic generator\'s orders), (b) scaled assets paying fixed costs for their size (profitable base or min_scale > 0) with a window of their own '
        '(start after the first step, end before the last, off the grid points, ...) over a base with or without window, directly in the portfolio or wrapped '
        '(at the external or an internal node) in a structured asset that has a window itself; '
        'ways a result is produced and read out (comp/c04read.py): every problem with boolean variables (mono and split) is also optimised relaxed '
        '(optimize(make_soft_problem=True)); (c) one more case per 6: portfolios in which yes/no decisions carry costs (plants / CHPs with a minimum load and start, running, '
        'minimum-load costs; order books with fully executed orders priced around the market) next to markets of small capacity, so that the relaxed booleans are fractional; '
        '(d) one case per 5: results of two-stage stochastic programmes (stoch_lin_prog.make_slp over the generators of comp/slp.py: all families, straddling coarse assets, '
        '0..4 samples, LP and MIP); (e) in every third generic case, every second case of (c) and every case of (d) each result (mono, robust, split, relaxed, SLP) is read out '
        '2..4 more times in a seed-drawn sequence of io.extract_output without / with prices, Asset.dcf of every asset called directly, Storage.fill_level, and the '
        'statement is evaluated on every table against the solution as optimize returned it; '
        '(f) one case per 4 (comp/c04call.py): the forms in which optimize accepts its arguments - generic portfolios and those of (c), monolithic and (every second) split '
        'on the same objects; per problem 3..4 calls (mono) / 2..3 calls (split) in forms drawn from the seed: the target \'value\' / \'robust\' in any letter case '
        '(lower, upper, capitalised, letter by letter) or left at its default, the cost samples (from perturbed prices, i.e. different from the cost vector of the problem) as list, '
        'tuple or 2-d array (also next to the value target), 0..5 leading arguments positionally, interface spelled out or defaulted, an explicit solver among the installed exact ones '
        '(LP: SCIPY, CLARABEL; MIP: SCIPY, SCIP), make_soft_problem as True / 1 / numpy bool / False positionally or by keyword; split problems: every form but the robust target '
        '(unless there is a single interval); the robust run of the other streams draws its call form (letter case, container, positional) from the seed as well; '
        'non-trivial = solved scenario with >= 2 assets having non-zero cash flow (relaxed: a fractional boolean with non-zero cost; SLP: non-zero cash flow on sampled future variables; '
        'call forms: >= 2 assets with cash flow and a solved call in another form than the documented plain one); distinct by scenario hash')
ASSUMPTIONS = ['oracle tolerance 1e-6 * max(1,|value|, sum|DCF| over the filled cells)',
               'the sum of the DCF table is read as out["DCF"].sum().sum() (pandas skips empty cells); an empty / non-finite cell counts as a '
               'violation by itself only inside the asset\'s own start/end',
               'the optimal values / the reported value the statement speaks about are those `optimize` returned: a copy of x, value and cost vector is taken when '
               'optimize returns, before anything is read out, and every table (first or later) is compared with that copy',
               'call forms: only forms the code accepts are generated - solver names and the interface are compared as written (no letter-case variants), a split problem hands the '
               'same samples to every interval (robust target only with a single interval), the ortools interface is not installed; a call whose cost samples '
               '(Portfolio.create_cost_samples) do not have the size of the problem raises in cvxpy and counts as not evaluated (feature call-error; sizes of cost samples are C17\'s statement)',
               'SLP results: an asset\'s own variables are its block of the original problem plus the copies of those of its variables whose first mapping row '
               '(original problem) lies at or after start_future, at the positions make_slp documents (n + s * n_f + rank)']
EXPLANATION = ('theorems about the model of Asset.dcf and the assembly; correspondence on captured problems; oracle: value vs DCF table vs -c_a.x_a with asset blocks taken from the sizes '
               'of the captured asset problems (independent of the mapping), on the result of every way the problem is built and solved: one go, robust, split, split re-optimised '
               'with pinned intervals (fix_time_window), reordered, called in every accepted form of the arguments (letter case of the target, container of the samples, positional / keyword, '
               'explicit interface / solver, truthy forms of make_soft_problem; comp/c04call.py), relaxed (make_soft_problem; the model\'s DCF read-out of the relaxed solution is tied to the real table as well), '
               'two-stage SLP; also for problems and intervals without any free variable; and of every way it is read out: the same (portfolio, problem, result) objects '
               'read out repeatedly (output tables without / with prices, per-asset Asset.dcf after the tables, fill levels in between), each table compared with the copy of the '
               'solution taken when optimize returned (value = sum of the table = -c.x, per asset and in total; the value the result object carries is still the returned one). '
               'The oracle (comp/c04gen.orc_value_accounting) '
               'sums the table as a user does (empty cells skipped), so a cash flow that is blanked out of the table shows as value != sum and as column total != -c_a.x_a; '
               'empty cells inside an asset\'s own window are reported as such')


def scenarios(seed, tier):
    n = 600 if tier == 'quick' else 3600
    rnd = random.Random(seed * 7919 + 4)
    rnd2 = random.Random(seed * 7919 + 4 + 500009)      # own stream for the additions (the portfolios drawn from rnd stay what they were)
    rnd4 = random.Random(seed * 7919 + 4 + 1300021)     # read-out sequences, relaxed problems
    for i in range(n):
        s = gen.gen_portfolio(random.Random(rnd.getrandbits(48)), tmax=12 if tier == 'quick' else 20,
                              kinds=['simple', 'contract', 'transport', 'storage', 'storage2', 'multi', 'orderbook', 'orderbook',
                                     'scaled', 'structured', 'plant', 'ext_transport'])
        s['mode'] = 'split' if i % 3 == 2 else 'mono'
        if s['mode'] == 'split':
            s['refix_seed'] = rnd2.getrandbits(30)      # rolling re-optimisation of the split solution with whole intervals pinned
        if i % 5 == 1:
            s['robust_seed'] = rnd.getrandbits(30)      # additionally optimised with the robust target over perturbed price samples
        if i % 3 == 1:
            s['reads_seed'] = rnd4.getrandbits(30)      # every result of the case is read out several times (comp/c04read.py)
        yield 'gen%d' % i, s
    # results of two-stage stochastic programmes are optimised portfolios too: the accounting identity on the SLP read-out
    from ..comp import slp as S
    for i in range(n // 10):
        r1 = random.Random(rnd.getrandbits(48))
        yield 'slp%d' % i, {'_stream': 'slp', 'case': S.gen_straddle_case(r1) if i % 2 else S.gen_case(r1), 'reads_seed': rnd4.getrandbits(30)}
    for i in range(n // 10):
        # further SLP results from the general generator (all families, start_future in all positions and forms, MIP allowed)
        yield 'slpr%d' % i, {'_stream': 'slp', 'case': S.gen_case(random.Random(rnd4.getrandbits(48))), 'reads_seed': rnd4.getrandbits(30)}
    # problems (and single intervals of split problems) in which every variable is pinned by its bounds and carries cash flows
    from ..comp import fixedpf as F
    for i in range(n // 8):
        s = F.gen_case(random.Random(rnd2.getrandbits(48)), tmax=12 if tier == 'quick' else 20)
        s['mode'] = 'split'
        s['refix_seed'] = rnd2.getrandbits(30)
        yield 'fixed%d' % i, s
    # order books that discount (wacc != 0) on horizons where discounting shows, orders priced against the node's market;
    # scaled assets with fixed costs and a window of their own (directly in the portfolio / wrapped in a structured asset with a window)
    from ..comp import c04gen as G
    rnd3 = random.Random(seed * 7919 + 4 + 900001)
    for i in range(n // 6):
        s = G.gen_discounted_books(random.Random(rnd3.getrandbits(48)), tmax=12 if tier == 'quick' else 20)
        s['mode'] = 'split' if i % 2 else 'mono'
        if s['mode'] == 'split' and i % 4 == 1:
            s['refix_seed'] = rnd3.getrandbits(30)
        yield 'books%d' % i, s
    for i in range(n // 6):
        s = G.gen_scaled_windows(random.Random(rnd3.getrandbits(48)), tmax=12 if tier == 'quick' else 20)
        s['mode'] = 'split' if i % 2 else 'mono'
        if s['mode'] == 'split' and i % 4 == 1:
            s['refix_seed'] = rnd3.getrandbits(30)
        if i % 5 == 2:
            s['robust_seed'] = rnd3.getrandbits(30)
        yield 'scawin%d' % i, s
    # yes/no decisions that cost money (start / running / minimum-load costs behind a minimum load, fully executed orders):
    # solved as MIP and as relaxed problem (make_soft_problem), in one go and split; results read out several times
    from ..comp import c04read as R
    for i in range(n // 6):
        s = R.gen_costly_bools(random.Random(rnd4.getrandbits(48)), tmax=10 if tier == 'quick' else 16)
        s['mode'] = 'split' if i % 3 == 1 else 'mono'
        if i % 2 == 0:
            s['reads_seed'] = rnd4.getrandbits(30)
        yield 'cbool%d' % i, s
    # the same kind of portfolio through the other doors of the package (io.optimize with the data in several containers,
    # run_from_json, set_param): comp/entry.py
    from ..comp import entry as EN
    yield from EN.stream(seed, n // 12, ('io', 'io_split', 'json'), tmax=10 if tier == 'quick' else 16)
    # the forms in which optimize accepts its arguments (target in any letter case, samples as list / tuple / array, arguments
    # positionally or by keyword, interface / solver spelled out, make_soft_problem in its truthy forms): comp/c04call.py
    from ..comp import c04call as CF
    rnd5 = random.Random(seed * 7919 + 4 + 1700017)
    for i in range(n // 4):
        yield 'call%d' % i, CF.gen_case(random.Random(rnd5.getrandbits(48)), tmax=10 if tier == 'quick' else 16)
    # how optimize fills results.value (model EAO/Model/ResultValue.lean): its defining equations on the real code, targets in any letter case
    for i in range(6 if tier == 'quick' else 30):
        yield 'rv%d' % i, {'_stream': 'resultvalue', 'seed': seed * 1000 + i, 'n': 25}


def run_case(scn, drv):
    if scn.get('_stream') == 'resultvalue':
        r0 = _RV.selftest(scn['n'], scn['seed'])
        return {'evaluated': r0['counts']['cases'], 'nontrivial': r0['counts']['solved'] > 0, 'features': ['stream:resultvalue'],
                'disagreements': [{'component': 'result value', 'detail': d['detail']} for d in r0['disagreements']],
                'violations': [{'oracle': v.get('oracle', 'result_value'), 'detail': v.get('detail'), 'facts': v.get('facts', {})} for v in r0['violations']]}
    if scn.get('_stream') == 'entry':
        from ..comp import entry as EN
        return EN.run_stream_case(scn, ('value_accounting',))
    from ..comp import c04gen as G
    from ..comp import c04read as R
    from ..comp import c04call as CF
    if scn.get('stream') == 'call-forms':
        return CF.run_case(scn, drv)
    if scn.get('_stream') == 'slp':
        # the result of the two-stage programme read out several times, C04's statement on every table (per asset: own variables
        # plus the copies of its future ones); the tie of makeSlp and the other SLP oracles belong to C17
        return R.run_slp_case(scn, drv)
    r = {'evaluated': 1, 'nontrivial': False, 'features': [], 'disagreements': [], 'violations': []}
    feats = r['features']
    if scn.get('stream'):
        feats.append('stream:' + scn['stream'])
    for a in scn['assets']:
        feats.append('asset:' + a['type'])
        tgt = a.get('base', a).get('args', {})
        for o in ('freq', 'periodicity', 'wacc'):
            if o in tgt or o in a.get('args', {}):
                feats.append('opt:' + o)
    rs = None
    try:
        rec = pf.setup_mono(scn)
    except Exception as e:
        feats.append('setup-error:' + impl.err_class(e))
        return r
    r['disagreements'] += pf.hyp_wf(rec)
    feats.append('hypotheses-evaluated')
    r['disagreements'] += pf.corr_assemble(rec, drv, aspects=('c', 'mapping'))
    reads = scn.get('reads_seed')
    R.solve_snap(rec)
    if isinstance(rec['res'], str):
        feats.append('unsolved:' + rec['res'])
    else:
        feats.append('solved')
        r['disagreements'] += pf.corr_readout(rec, drv, what=('dcf',))
        r['violations'] += G.orc_value_accounting(rec, 'mono', pf.asset_blocks(rec))
        if reads is not None and not r['violations']:
            v, f = R.read_sequence(rec, 'mono', pf.asset_blocks(rec), reads)
            r['violations'] += v
            feats.extend(f)
            r['evaluated'] += 1
        nz = int((np.abs(rec['out']['DCF'].values).sum(axis=0) > 1e-9).sum())
        r['nontrivial'] = nz >= 2
        r['observed'] = {'value': float(rec['res'].value), 'assets_with_cash_flow': nz}
        feats.extend(G.features(rec, pf.asset_blocks(rec)))
    if pf.is_mip(rec['op']):
        # the same problem with the booleans relaxed (also where the MIP itself has no solution)
        try:
            v, f, k = R.relaxed(rec, 'relaxed', pf.asset_blocks(rec), None if reads is None else reads + 1, drv=drv, dis=r['disagreements'])
            r['violations'] += v
            feats.extend(f)
            r['evaluated'] += k
            r['nontrivial'] = r['nontrivial'] or 'relaxed:fractional-boolean-with-cost' in f
        except Exception as e:
            feats.append('relaxed-error:' + impl.err_class(e))
    if scn.get('robust_seed') is not None and not isinstance(rec.get('res'), str) and rec.get('out') is not None:
        # robust target over cost samples from perturbed prices (LP and MIP alike): reported value = sum of the DCF table
        try:
            rr = random.Random(scn['robust_seed'])
            cs = CF.cost_samples(rec, rr)
            # the call in a form drawn from the seed (letter case of the target, container of the samples, positional / keyword)
            form = CF.draw_form(random.Random(scn['robust_seed'] + 7), robust=True, mip=pf.is_mip(rec['op']), soft=False)
            with impl.Quiet():
                op_r = rec['portf'].setup_optim_problem(rec['prices'], rec['tg'])
            res_r = CF.call_optimize(op_r, form, cs)
            r['evaluated'] += 1
            if not isinstance(res_r, str):
                import eaopack as eao
                snap_r = R.Snap(op_r, res_r)
                with impl.Quiet():
                    out_r = eao.io.extract_output(rec['portf'], op_r, res_r, rec['prices'])
                feats.append('robust-mip' if pf.is_mip(op_r) else 'robust-lp')
                feats.extend(CF.form_features(form, 'robust'))
                rec_r = {'out': out_r, 'res': res_r, 'snap': snap_r, 'op': op_r, 'portf': rec['portf'], 'tg': rec['tg'], 'prices': rec['prices']}
                vr = G.orc_value_accounting(rec_r, 'robust [optimize(%s)]' % CF.form_tag(form), pf.asset_blocks(rec))
                for w in vr:
                    w['facts'].update({'mode': 'robust', 'call_form': dict(form)})
                r['violations'] += vr
                if reads is not None and not r['violations']:
                    v, f = R.read_sequence(rec_r, 'robust', pf.asset_blocks(rec), reads + 2)
                    r['violations'] += v
                    feats.extend('robust:' + q for q in f)
        except Exception as e:
            feats.append('robust-error:' + impl.err_class(e))
    if scn.get('mode') == 'split':
        try:
            # on the SAME portfolio / asset / grid objects that were just optimised monolithically
            rs = pf.setup_split(scn, scn.get('split_interval') or pf.split_interval(scn, rec['tg']), objects=(rec['portf'], rec['tg'], rec['prices']))
            R.solve_snap(rs)
            feats.append('split')
            r['evaluated'] += 1
            if not isinstance(rs['res'], str):
                r['violations'] += G.orc_value_accounting(rs, 'split', pf.asset_blocks(rs))
                if reads is not None and not r['violations']:
                    v, f = R.read_sequence(rs, 'split', pf.asset_blocks(rs), reads + 3)
                    r['violations'] += v
                    feats.extend('split:' + q for q in f)
            if pf.is_mip(rs['op']):
                v, f, k = R.relaxed(rs, 'split-relaxed', pf.asset_blocks(rs), None if reads is None else reads + 4)
                r['violations'] += v
                feats.extend(f)
                r['evaluated'] += k
                feats.extend('split:' + f for f in G.features(rs, pf.asset_blocks(rs)))
                if any(len(o.l) and bool(np.all(o.l == o.u)) for o in rs['op'].ops):
                    feats.append('split-with-interval-without-free-variable')
        except Exception as e:
            feats.append('split-error:' + impl.err_class(e))
        # rolling re-optimisation: the same portfolio set up again as a split problem, whole intervals pinned to the split
        # solution through fix_time_window, prices of the other steps changed.  The result is an optimised portfolio like any other
        if rs is not None and not isinstance(rs.get('res'), str) and rs.get('out') is not None and scn.get('refix_seed') is not None:
            try:
                from ..comp import fixedpf as F
                rf = F.refix_split(rs, scn['refix_seed'])
                if rf is not None:
                    feats.extend(F.refix_features(rf))
                    r['evaluated'] += 1
                    if not isinstance(rf['res'], str):
                        r['violations'] += G.orc_value_accounting(rf, 'split-refixed', pf.asset_blocks(rf))
            except Exception as e:
                feats.append('refix-error:' + impl.err_class(e))
    if scn.get('stream') == 'fixedpf':
        from ..comp import fixedpf as F
        feats.extend(F.features(scn, rec, rs))
    # the same asset objects in a second portfolio with another order (same sizes, other variable layout)
    if len(scn['assets']) >= 2 and not isinstance(rec.get('res'), str):
        try:
            import eaopack as eao
            assets2 = list(reversed(rec['portf'].assets))
            rec3 = {'portf': eao.Portfolio(assets2), 'tg': rec['tg'], 'prices': rec['prices'], 'scn': scn}
            with impl.Quiet(), impl.Capture(rec3['portf']) as cap:
                rec3['op'] = rec3['portf'].setup_optim_problem(rec['prices'], rec['tg'])
            rec3['captured'] = {k: v[-1] for k, v in cap.caught.items()}
            R.solve_snap(rec3)
            r['evaluated'] += 1
            feats.append('same-objects-reordered')
            if not isinstance(rec3['res'], str):
                r['violations'] += G.orc_value_accounting(rec3, 'reordered', pf.asset_blocks(rec3))
        except Exception as e:
            feats.append('reorder-error:' + impl.err_class(e))
    return r
