"""C09 Names and order."""
import copy
import random
import numpy as np
from .. import gen, pf, impl, scen

ID = 'C09'
THEOREMS = [
    ('EAO.Properties.C09', 'EAO.C09.assemble_rename', 'assembling renamed assets (injective node renaming, any asset renaming) gives the renamed assembled problem: same cost, bounds, rows'),
    ('EAO.Properties.C09', 'EAO.C09.dispatch_rename', 'dispatch read-out of the renamed problem = read-out of the original under the new labels'),
    ('EAO.Properties.C09', 'EAO.C09.dcf_rename', 'cash-flow read-out likewise'),
    ('EAO.Properties.C09', 'EAO.C09.assemble_feasible_iff', 'composition principle: feasibility of the assembled problem = every asset feasible on its block + flows balance at every (node, step); no reference to the order'),
    ('EAO.Properties.C09', 'EAO.C09.assemble_value', 'value = sum of the assets\' values on their blocks'),
    ('EAO.Properties.C09', 'EAO.C09.assemble_perm', 'for a permutation of the asset list every feasible point rearranges block-wise into a feasible point of the permuted problem with the same value and the same block per asset (assets whose rows mention only their own variables)'),
]
COMPONENTS = ['hypotheses of the assembly theorems (well-formedness of asset problems) evaluated on every captured real asset problem', 'assemble on captured asset problems for the original, the renamed and the permuted portfolio']
RULE = ('random portfolios, each re-run (a) under an adversarial injective renaming of assets and nodes (numeric names, prefixes/suffixes of each other, names containing " (", "_internal_", "nan") and (b) under a random permutation of the assets; '
        'values compared and the solution of each variant transported block-wise into the original problem; non-trivial = solved, >= 3 assets, value != 0; distinct by scenario hash')
ASSUMPTIONS = ['ties between optimal solutions are allowed: solutions are compared by transporting them into the other problem (feasibility + value), not entry by entry']
EXPLANATION = 'theorems about the model assemble; metamorphic oracle on the real code'

ADV = ['1', '11', '111', 'A', 'AA', 'a b', '0', '00', 'x_internal_y', 'n (m)', '10', '01', 'disp', 'nan', 'None', 'N1', '2', '12', '21', 'asset', 'node', 'mkt1 (N1)', 'é', ' ',
       # names that look like columns / labels the package itself writes
       'slp_step_0', 'index_assets', 'my_slp_step', 'time_step', 'bool', 'internal_asset']


def scenarios(seed, tier):
    n = 400 if tier == 'quick' else 2400
    rnd = random.Random(seed * 7919 + 9)
    for i in range(n):
        r2 = random.Random(rnd.getrandbits(48))
        s = gen.gen_portfolio(r2, tmax=8 if tier == 'quick' else 14, tz_prob=0.05, max_assets=5)
        names = [a['name'] for a in scen.all_asset_specs(s)]
        pool = r2.sample(ADV, min(len(ADV), len(names))) + ['z%d' % k for k in range(len(names))]
        s['amap'] = {nm: pool[k] for k, nm in enumerate(names)}
        # wrapping assets write their own name into column names of the mapping: give them the most suspicious names
        for a in s['assets']:
            if a['type'] == 'StructuredAsset' and r2.random() < 0.7:
                cand = r2.choice(['slp_step_0', 'my_slp_step', 'index_assets'])
                if cand not in s['amap'].values():
                    s['amap'][a['name']] = cand
        npool = r2.sample(ADV, min(len(ADV), len(s['nodes']))) + ['y%d' % k for k in range(len(s['nodes']))]
        s['nmap'] = {nm: npool[k] for k, nm in enumerate(s['nodes'])}
        for a in s['assets']:
            if a['type'] == 'StructuredAsset' and r2.random() < 0.6:
                if 'start' not in a['args'] and 'end' not in a['args']:
                    gen.put_window(a['args'], gen.window(r2, s['grid'], kinds=['inside', 'start_only', 'end_only', 'straddle_end']))
                for ia in a.get('inner', [])[:1]:
                    if 'start' not in ia['args'] and 'end' not in ia['args'] and ia['type'] != 'OrderBook':
                        gen.put_window(ia['args'], gen.window(r2, s['grid'], kinds=['inside', 'start_only', 'end_only']))
        perm = list(range(len(s['assets'])))
        r2.shuffle(perm)
        s['perm'] = perm
        yield 'gen%d' % i, s


def transport_back(rec_var, rec_orig, order):
    """x of the variant arranged in the order of the original problem; order[k] = position in the original list of the variant's k-th asset"""
    bv = pf.asset_blocks(rec_var)
    bo = pf.asset_blocks(rec_orig)
    x = np.zeros(len(rec_orig['op'].c))
    av = rec_var['portf'].assets
    ao = rec_orig['portf'].assets
    for k, a in enumerate(av):
        lo, hi = bv[a.name][0]
        lo2, hi2 = bo[ao[order[k]].name][0]
        if hi - lo != hi2 - lo2:
            return None
        x[lo2:hi2] = rec_var['res'].x[lo:hi]
    return x


def run_case(scn, drv):
    r = {'evaluated': 1, 'nontrivial': False, 'features': [], 'disagreements': [], 'violations': []}
    feats = r['features']
    base = {k: v for k, v in scn.items() if k not in ('amap', 'nmap', 'perm')}
    for a in base['assets']:
        feats.append('asset:' + a['type'])
    try:
        rec = pf.setup_mono(base)
    except Exception as e:
        feats.append('setup-error:' + impl.err_class(e))
        return r
    r['disagreements'] += pf.hyp_wf(rec)
    feats.append('hypotheses-evaluated')
    r['disagreements'] += pf.corr_assemble(rec, drv)
    pf.solve_rec(rec)
    if isinstance(rec['res'], str):
        feats.append('unsolved:' + rec['res'])
    V = None if isinstance(rec['res'], str) else float(rec['res'].value)
    nA = len(base['assets'])
    variants = [('rename', scen.rename_scenario(base, scn['amap'], scn['nmap']), list(range(nA)))]
    sp_ = copy.deepcopy(base)
    sp_['assets'] = [base['assets'][i] for i in scn['perm']]
    variants.append(('permute', sp_, list(scn['perm'])))
    both = scen.rename_scenario(sp_, scn['amap'], scn['nmap'])
    variants.append(('rename+permute', both, list(scn['perm'])))
    if any(a['type'] == 'StructuredAsset' and len(a.get('inner', [])) >= 2 for a in base['assets']):
        # the order of the assets INSIDE a structured asset is as irrelevant as the order in the portfolio (value only: the
        # variable layout inside the wrapper changes)
        si = copy.deepcopy(base)
        for a in si['assets']:
            if a['type'] == 'StructuredAsset':
                a['inner'] = list(reversed(a['inner']))
        variants.append(('permute-inner', si, None))

    def viol(msg, **facts):
        r['violations'].append({'oracle': 'names_and_order', 'detail': msg, 'facts': facts})
    for tag, sv, order in variants:
        r['evaluated'] += 1
        try:
            rv = pf.setup_mono(sv)
        except Exception as e:
            viol('%s: set-up raises %s (%s) although the original portfolio sets up' % (tag, type(e).__name__, str(e)[:120]), variant=tag, what='raises')
            continue
        r['disagreements'] += pf.corr_assemble(rv, drv)
        # problems must have the same numbers up to the block permutation
        if len(rv['op'].c) != len(rec['op'].c) or len(rv['op'].cType) != len(rec['op'].cType):
            viol('%s: problem has %d variables / %d rows, original %d / %d' % (tag, len(rv['op'].c), len(rv['op'].cType), len(rec['op'].c), len(rec['op'].cType)), variant=tag, what='size')
            continue
        pf.solve_rec(rv)
        if isinstance(rv['res'], str) != isinstance(rec['res'], str):
            viol('%s: optimisation status differs (%s vs %s)' % (tag, rv['res'] if isinstance(rv['res'], str) else 'successful', rec['res'] if isinstance(rec['res'], str) else 'successful'), variant=tag, what='status')
            continue
        if V is None:
            continue
        Vv = float(rv['res'].value)
        tol = 2e-6 * max(1.0, abs(V))
        if abs(Vv - V) > tol:
            viol('%s: optimal value %.8g, original %.8g' % (tag, Vv, V), variant=tag, what='value')
            continue
        if order is None:
            continue
        x = transport_back(rv, rec, order)
        if x is None:
            viol('%s: an asset has a different number of variables' % tag, variant=tag, what='size')
            continue
        worst, what = pf.feasibility_violation(rec['op'], x)
        val = -float(np.dot(rec['op'].c, x))
        if worst > 1e-5 or abs(val - V) > tol:
            viol('%s: the solution, rearranged asset by asset, is not an optimal solution of the original problem (violates %s by %.3g; value %.8g vs %.8g)' % (tag, what, worst, val, V), variant=tag, what='transport')
        # per-asset dispatch up to relabelling: the dispatch table read out under the new labels still balances at every node
        # and step (the solution itself was compared above; this is about what is REPORTED under the new names)
        try:
            vb, _ = pf.orc_nodal_balance(rv, tag=tag)
            for v_ in vb[:1]:
                viol('%s: %s' % (tag, v_['detail']), variant=tag, what='reported_dispatch')
        except Exception as e:
            viol('%s: reading the dispatch output raises %s' % (tag, type(e).__name__), variant=tag, what='output_raises')
        # per-asset cash flows up to relabelling: the cash flow reported under the new label equals minus the cost of the
        # asset's own variables (costs of the ORIGINAL problem, solution of the variant) - independent of ties
        try:
            d1 = rv['out']['DCF']
            ao = rec['portf'].assets
            bo = pf.asset_blocks(rec)
            for k, a in enumerate(rv['portf'].assets):
                lo, hi = bo[ao[order[k]].name][0]
                want = -float(np.dot(rec['op'].c[lo:hi], x[lo:hi]))
                got = float(d1[a.name].sum())
                if abs(want - got) > 1e-6 * max(1.0, abs(V), abs(want)):
                    viol('%s: cash flow reported for asset %r is %.8g but its own variables cost %.8g' % (tag, a.name, got, -want), variant=tag, what='dcf')
                    break
        except Exception as e:
            viol('%s: reading the output raises %s' % (tag, type(e).__name__), variant=tag, what='output_raises')
    r['nontrivial'] = V is not None and nA >= 3 and abs(V) > 1e-9
    r['observed'] = {'value': V, 'assets': nA}
    return r
