"""C09 Names and order."""
import copy
import random
import numpy as np
from .. import gen, pf, impl, scen
from ..comp import c09wide as wide
from ..comp import c09long as long_

ID = 'C09'
THEOREMS = [
    ('EAO.Properties.C09', 'EAO.C09.assemble_rename', 'assembling renamed assets (injective node renaming, any asset renaming) gives the renamed assembled problem: same cost, bounds, rows'),
    ('EAO.Properties.C09', 'EAO.C09.dispatch_rename', 'dispatch read-out of the renamed problem = read-out of the original under the new labels'),
    ('EAO.Properties.C09', 'EAO.C09.dcf_rename', 'cash-flow read-out likewise'),
    ('EAO.Properties.C09', 'EAO.C09.assemble_feasible_iff', 'composition principle: feasibility of the assembled problem = every asset feasible on its block + flows balance at every (node, step); no reference to the order'),
    ('EAO.Properties.C09', 'EAO.C09.assemble_value', 'value = sum of the assets\' values on their blocks'),
    ('EAO.Properties.C09', 'EAO.C09.assemble_perm', 'for a permutation of the asset list every feasible point rearranges block-wise into a feasible point of the permuted problem with the same value and the same block per asset (assets whose rows mention only their own variables)'),
]
from ..comp import nestedperm as NP
from ..comp import scaledperm as SPM
THEOREMS = THEOREMS + NP.THEOREMS_C09_NESTED + SPM.THEOREMS_C09_SCALED
COMPONENTS = ['assemble also on the captured asset problems of the portfolios that went through a door (json, set_param) and of the nested streams', 'hypotheses of the assembly theorems (well-formedness of asset problems) evaluated on every captured real asset problem', 'assemble on captured asset problems for the original, the renamed, the permuted and the renamed-in-place portfolio (hypotheses also on the latter)']
RULE = ('random portfolios, each re-run (a) under an adversarial injective renaming of assets and nodes (numeric names, prefixes/suffixes of each other, names containing " (", "_internal_", "nan") and (b) under a random permutation of the assets, '
        '(c) rename-inplace: the objects are built once under the original names and, as drawn, optimised / set up / left alone; then the very same Node and Asset objects (incl. base assets of scaled and wrapped assets of structured assets) '
        'get the names of (a) by assignment to .name and are given to a new Portfolio (as drawn: permuted, on a new time grid object); same comparison as for (a); '
        'values compared and the solution of each variant transported block-wise into the original problem; non-trivial = solved, >= 3 assets, value != 0; distinct by scenario hash; '
        'second stage of every variant (rename, permute, rename+permute, permute-inner, rename-inplace; both streams): re-optimisation with fix_time_window - the same portfolio object set up again with a window drawn '
        'from the seed (prefix of k steps given as date / boolean mask / index array / index list, a window in the middle, or a drawn subset of the steps) pinned to the FIRST-stage solution of the original, '
        'carried over into the variant\'s variable order (block-wise; permute-inner: through the wrapped asset a variable belongs to), with changed prices on the free steps; compared with the same second stage of the '
        'original exactly as in the first stage: raises in one and not the other, size, status, value, solution transported into the original second-stage problem (feasible, same value), reported dispatch balances, '
        'reported cash flow per asset = cost of its own variables; '
        'LinkedAsset stream (own generator gen_linked): small MIP portfolios around a LinkedAsset wrapping a CHPAsset/Plant with on-variable and a second asset (plant, contract at the power node or at an internal node behind a transport), '
        'link given by names or by objects, all wrapped assets on the same window (none / the wrapper\'s / a common own one); variants rename, permute, rename+permute, permute-inner, rename-inplace; same oracle; '
        'probe linked-inner-order: one of the two linked wrapped assets gets a shorter window (drawn: which, start or end, which one comes last); set up in the drawn and in the reversed inner order, outcomes compared (finding F-09e); '
        'confusable names (comp/c09wide.py; drawn for about half of the cases of stream gen, fewer / more in the other streams, instead of the adversarial pool): the node names of a case come from ONE family around one drawn stem - '
        'blanks around (blank, two blanks, tab, no-break space, em space, newline; leading / trailing / both), blanks inside, case only, unicode spelling (composed / decomposed accents, sharp s / ss, ligature, dotted and dotless i, '
        'Ohm / Omega, Kelvin sign, micro sign / mu), numbers (1, 1.0, 01, 1e0, +1, blank + 1, full-width digits, 0x1, ...), literals (nan, None, null, true, inf, <NA>, ...) - the asset names from one family as well (as drawn the same one, an asset may bear the name of a node); '
        'variant rename-door (one door drawn per case; stream net: all three): the renamed portfolio goes through a door of the public API before it is optimised - json: built in code, to_json, load_from_json (string or file; as drawn with its own time grid inside and set up without one), '
        'set_param: built under the ORIGINAL names and renamed name by name with io.set_param (every asset and node name of the parameter tree, drawn order, over temporary names when a new name is an old one or when drawn), '
        'run_from_json: to_json + run_from_json (only the output tables come back: status, value, dispatch reported under every (asset, node) label of the renamed portfolio and balanced per node and step, a cash flow reported under every asset name, cash flows sum to the value); '
        'json / set_param compared exactly like the variant rename; a difference is blamed on the names only if the portfolio under its ORIGINAL names passes the same door without that kind of difference (otherwise feature door-changes-original); '
        'variant permute-inner generalised: the wrapped assets of EVERY structured / linked asset at any level of nesting (also inside the base asset of a scaled asset, inside a structured asset) get another order (reversed or drawn), and the comparison is the full one '
        '(solution carried back variable by variable through the layout of the blocks = sizes of the problems of the assets at every level; reported dispatch and cash flow per outer asset; second stage); '
        'price sample (variants with another order of assets, every variant of stream nest): the cost vector for another set of prices (setup_optim_problem(costs_only=True), what create_cost_samples returns) of variant and original; where they differ under the variable matching: '
        'cash flow per asset of the SAME dispatch (first solution of the original) under the sample, then the optimal values of both problems with the sample costs; '
        'stream nest (gen_nested, 60 quick): wrappers around wrappers - ScaledAsset with fix costs (min_scale 0 / 0.5 / = max_scale) over a StructuredAsset, over a StructuredAsset that wraps a further ScaledAsset / StructuredAsset, a ScaledAsset inside a StructuredAsset, '
        'a StructuredAsset inside a StructuredAsset, a ScaledAsset over a LinkedAsset (wrapped assets on one window) - the wrapped assets with their own, differing windows (start only, end only, inside, straddling), wrappers with own windows as drawn; all variants; '
        'stream net (gen_network, 60 quick): LP portfolios over 2..4 nodes with a market per node (contracts, transports, storages, multi-commodity, scaled, structured), mostly confusable names, all three doors, no second stage; '
        'stream long (comp/c09long.py, 100 quick): LONG grids (12..60 steps; thorough up to 130) with tiny LP portfolios - 2..3 nodes, a market per node at its own price level (two-way or buy-only), one or two further cheap assets '
        '(fixed demand, cheap supply, storage, contract with takes, seldom a transport; some on their own window) - under node AND asset names that are confusable THROUGH CONCATENATION, each set from one family around a drawn stem X: '
        'chain (X, X+digits, X+"1"+digits, X+digits+digits), digits (pure digit strings that are prefixes / suffixes of each other), tail (names ending in digits next to names that are digits), '
        'paren (X, "X (", "X)", "X (Y)", "X) (Y", ...: the separators of the dispatch labels), sep (X__Y, X_internal_Y, "__", "_internal_", ...), nan (X, Xnan, nan, nan+digits, None, inf, ...), '
        'step (X_3, X.3, X-3, "X 3", X_t3, X_step_3, X[3], X3.0, ...: suffixes that look like an appended step number); for ANY family a drawn member gets drawn digits appended once more, and names that are a chosen name '
        'followed / preceded by digits are preferred when the names of a case are picked; as drawn the assets use the family and stem of the nodes (an asset may bear the name of a node); the base scenario bears plainly distinct '
        'names (N1, N2, mkt_N1, a1, ...) and is compared with the variants rename, rename+permute, rename-inplace and one door exactly as in the other streams (raises, size, status, optimal value, solution carried back, '
        'reported dispatch balances, reported cash flow per asset; second stage for every other case)')
ASSUMPTIONS = ['ties between optimal solutions are allowed: solutions are compared by transporting them into the other problem (feasibility + value), not entry by entry',
               'second stage (re-optimisation with fix_time_window): original and variant are pinned to the SAME first-stage solution (that of the original, relabelled), so that ties of the first stage do not '
               'enter; WHICH variables a window pins is C15\'s subject - here only that it does not depend on names and order; a set-up with fix_time_window that raises for the original AND for the variant is not reported here',
               'rename-inplace: what is renamed are Node.name and Asset.name (public attributes); a Portfolio files its nodes under their names when it is created, so after the renaming '
               'every Portfolio object - the outer one and the one wrapped by a structured asset - is created anew from the same asset objects (re-using a Portfolio created before the renaming is not claimed to work); '
               'rename-inplace with a LinkedAsset: LinkedAsset.__init__ turns the two nodes of its link into name strings (for a node that is not one of its own nodes: <own name>_internal_<node name>), and set-up raises IndexError '
               'when these no longer match; renaming the NODES of a LinkedAsset (own and wrapped) in place is therefore out of scope and these nodes keep their names in this variant (other nodes and all assets are renamed); '
               'TODO, decision pending: for the same reason a LinkedAsset whose link names an internal node keeps its OWN name in this variant. The rebuilt variants (rename, rename+permute) rename everything',
               'rename-door: what a door does to a portfolio WHATEVER it is called (e.g. a LinkedAsset cannot be loaded from JSON: no door variant in the LinkedAsset streams) is the subject of C11: the same door is passed with the original names, '
               'and only kinds of difference that do not occur there are reported (the others are counted as feature door-changes-original); run_from_json returns tables only, so the per-asset comparison there is: a column under every new label, balance per node, cash flows sum to the value (no comparison of columns that ties may change)',
               'price sample: a cost vector (costs_only) whose length differs from the number of variables of the ORIGINAL portfolio is not used (feature sample:original-length-differs; C17\'s subject); cost vectors that differ without any effect on cash flows of the first solution or on the optimal value under the sample are counted (feature sample:costs-differ-without-effect), not reported',
               'stream long: the grids have at most 60 steps in the quick tier (130 in the thorough tier), so a step number has at most two (three) digits; the variant permute on its own is left to the other streams',
               'LinkedAsset stream: all wrapped assets live on the same window; with differing windows the set-up depends on the order of the wrapped assets (probe linked-inner-order, finding F-09e) - the other variants are not run there']
EXPLANATION = 'theorems about the model assemble; metamorphic oracle on the real code (optimisation, re-optimisation with a fixed time window, price samples through costs_only) under renaming (in code, in place, through JSON / run_from_json / set_param; confusable names; on long grids names confusable through concatenation with numbers and with the separators the package writes) and permutation (outer list and wrapped assets at any level of nesting)'

# second stage (re-optimisation with fix_time_window) of every variant; development switch
STAGE2 = True

ADV = ['1', '11', '111', 'A', 'AA', 'a b', '0', '00', 'x_internal_y', 'n (m)', '10', '01', 'disp', 'nan', 'None', 'N1', '2', '12', '21', 'asset', 'node', 'mkt1 (N1)', 'é', ' ',
       # names that look like columns / labels the package itself writes
       'slp_step_0', 'index_assets', 'my_slp_step', 'time_step', 'bool', 'internal_asset']


def scenarios(seed, tier):
    n = 370 if tier == 'quick' else 2400
    rnd = random.Random(seed * 7919 + 9)
    for i in range(n):
        r2 = random.Random(rnd.getrandbits(48))
        s = gen.gen_portfolio(r2, tmax=8 if tier == 'quick' else 14, tz_prob=0.05, max_assets=5)
        names = [a['name'] for a in scen.all_asset_specs(s)]
        pool = r2.sample(ADV, min(len(ADV), len(names))) + ['z%d' % k for k in range(len(names))]
        s['amap'] = {nm: pool[k] for k, nm in enumerate(names)}
        # wrapping assets write their own name into column names of the mapping: give them the most suspicious names
        for a in s['assets']:
            if a['type'] == 'StructuredAsset' and r2.random() < 0.7:
                cand = r2.choice(['slp_step_0', 'my_slp_step', 'index_assets'])
                if cand not in s['amap'].values():
                    s['amap'][a['name']] = cand
        npool = r2.sample(ADV, min(len(ADV), len(s['nodes']))) + ['y%d' % k for k in range(len(s['nodes']))]
        s['nmap'] = {nm: npool[k] for k, nm in enumerate(s['nodes'])}
        for a in s['assets']:
            if a['type'] == 'StructuredAsset' and r2.random() < 0.6:
                if 'start' not in a['args'] and 'end' not in a['args']:
                    gen.put_window(a['args'], gen.window(r2, s['grid'], kinds=['inside', 'start_only', 'end_only', 'straddle_end']))
                for ia in a.get('inner', [])[:1]:
                    if 'start' not in ia['args'] and 'end' not in ia['args'] and ia['type'] != 'OrderBook':
                        gen.put_window(ia['args'], gen.window(r2, s['grid'], kinds=['inside', 'start_only', 'end_only']))
        perm = list(range(len(s['assets'])))
        r2.shuffle(perm)
        s['perm'] = perm
        # variant 'rename-inplace': what happened to the objects before they were renamed, and what the second run is given
        s['inplace'] = {'first': r2.choice(['optimise', 'optimise', 'setup', 'none']), 'new_grid': r2.random() < 0.5,
                        'permute': r2.random() < 0.3}
        draw_stage2(r2, s)
        draw_wide(r2, s)
        yield 'gen%d' % i, s
    for cid, s in linked_scenarios(seed, tier):
        yield cid, s
    for cid, s in wide_scenarios(seed, tier):
        yield cid, s
    for cid, s in long_scenarios(seed, tier):
        yield cid, s
    # permutations and renamings INSIDE wrappers: model vs real structured problems and the statements of EAO.C09N on both (comp/nestedperm.py)
    _rnp = random.Random(seed * 104729 + 909)
    for i in range(80 if tier == 'quick' else 500):
        yield 'np%d' % i, {'_stream': 'nestedperm', 'case': NP.gen_case(random.Random(_rnp.getrandbits(48))), 'solve': i % 4 == 0}
    # a ScaledAsset over a structure whose inner list is permuted: VarPerm of the two real scaled problems (comp/scaledperm.py)
    _rsp = random.Random(seed * 104729 + 910)
    for i in range(40 if tier == 'quick' else 300):
        yield 'spm%d' % i, {'_stream': 'scaledperm', 'case': SPM.gen_case(random.Random(_rsp.getrandbits(48))), 'solve': i % 4 == 0}
    # probe at the point outside the hypothesis of EAO.C09N.var_labels_injective: wrapped asset names containing '__' (finding F-09f)
    yield 'np_probe', {'_stream': 'nestedperm_probe'}


def finish_case(r2, s, adv_prob=0.3):
    """what every case of the newer streams carries besides the portfolio: renamings, permutation, in-place options, second stage"""
    names = [a['name'] for a in scen.all_asset_specs(s)]
    apool = list(dict.fromkeys(ADV + LK_ADV))
    pool = (r2.sample(apool, min(len(apool), len(names))) + ['z%d' % k for k in range(len(names))]) if r2.random() < adv_prob else ['z%d' % k for k in range(len(names))]
    s['amap'] = {nm: pool[k] for k, nm in enumerate(names)}
    npool = r2.sample(apool, min(len(apool), len(s['nodes']))) + ['y%d' % k for k in range(len(s['nodes']))]
    s['nmap'] = {nm: npool[k] for k, nm in enumerate(s['nodes'])}
    perm = list(range(len(s['assets'])))
    r2.shuffle(perm)
    s['perm'] = perm
    s['inplace'] = {'first': r2.choice(['optimise', 'optimise', 'setup', 'none']), 'new_grid': r2.random() < 0.5,
                    'permute': r2.random() < 0.3}
    draw_stage2(r2, s)


def draw_wide(r2, s, names_prob=0.5, door=True):
    """drawn AFTER everything else of a case (own generator, so that the rest of the case is what it was): the order the wrapped
    assets get in the variant permute-inner, the door the variant rename-door goes through, and - as drawn - confusable names
    instead of the adversarial pool"""
    rn = random.Random(r2.getrandbits(48))
    s['iperm'] = rn.getrandbits(32)
    if door:
        s['door'] = wide.draw_door(rn)
    if rn.random() < names_prob:
        names = [a['name'] for a in scen.all_asset_specs(s)]
        s['amap'], s['nmap'], s['names'] = wide.draw_names(rn, names, s['nodes'])


def wide_scenarios(seed, tier):
    """streams 'nest' (wrappers around wrappers whose wrapped assets live on different windows) and 'net' (cheap networks with a
    market per node; every door)"""
    n, m = (60, 60) if tier == 'quick' else (400, 400)
    rnd = random.Random(seed * 7919 + 9009)
    for i in range(n):
        r2 = random.Random(rnd.getrandbits(48))
        s = wide.gen_nested(r2, tier, gen_linked=gen_linked)
        s['stream'] = 'nest'
        finish_case(r2, s)
        draw_wide(r2, s, names_prob=0.4, door=s.get('nested') != 'scaled_linked')
        yield 'nest%d' % i, s
    for i in range(m):
        r2 = random.Random(rnd.getrandbits(48))
        s = wide.gen_network(r2, tier)
        s['stream'] = 'net'
        finish_case(r2, s)
        draw_wide(r2, s, names_prob=0.8)
        s['doors'] = 'all'
        s.pop('stage2', None)       # (the price sample 'prices2' stays)
        yield 'net%d' % i, s


def long_scenarios(seed, tier):
    """stream 'long' (comp/c09long.py): tiny LP portfolios (2..3 nodes, a market per node, one or two cheap assets) on LONG grids
    (12..60 steps; thorough: up to 130) under node and asset names that are confusable through concatenation with numbers and with
    the package's own separators; the base scenario bears plainly distinct names"""
    n = 100 if tier == 'quick' else 800
    rnd = random.Random(seed * 7919 + 90009)
    for i in range(n):
        r2 = random.Random(rnd.getrandbits(48))
        s = long_.gen_long(r2, tier)
        s['stream'] = 'long'
        finish_case(r2, s)
        draw_wide(r2, s, names_prob=0.0)
        names = [a['name'] for a in scen.all_asset_specs(s)]
        s['amap'], s['nmap'], s['names'] = long_.draw_names(random.Random(r2.getrandbits(48)), names, s['nodes'])
        # the names are the subject here (the order alone is that of the other streams): no variant 'permute' on its own, and the
        # second stage for half of the cases (a case stays cheap on a long grid)
        s['variants'] = ['rename', 'rename+permute', 'rename-inplace']
        if i % 2:
            s.pop('stage2', None)
        yield 'long%d' % i, s


# ------------------------------------------------------------------ second stage: re-optimisation with a fixed time window
def draw_stage2(r2, s):
    """second stage of a case (a re-optimisation with `fix_time_window` and changed prices), drawn AFTER everything else of the case so
    that the first stage is what it was: the window (a prefix of k steps = "the past", a window in the middle, or a drawn subset of the
    steps), the form in which it is handed over (a prefix also as date; boolean mask, integer array, list of indices) and the prices
    of the second optimisation (used on the free steps)."""
    T = s['grid']['T_nominal']
    mode = r2.choice(['prefix', 'prefix', 'prefix', 'middle', 'middle', 'subset'])
    form = r2.choice(['date', 'date', 'bool', 'array', 'list'] if mode == 'prefix' else ['bool', 'bool', 'array', 'list'])
    a = r2.randint(1, max(1, T - 2))
    s['stage2'] = {'mode': mode, 'form': form, 'k': r2.randint(1, max(1, T - 1)), 'a': a, 'b': r2.randint(a + 1, max(a + 1, T - 1)),
                   'bits': [r2.random() < 0.4 for _ in range(T + 2)], 'one': r2.randint(0, max(0, T - 1))}
    s['prices2'] = {key: [v + gen.q8(r2, -4, 4) for v in vals] if key.startswith('p') else list(vals) for key, vals in s['prices'].items()}


def stage2_window(st, tg):
    """(mask over the steps of the grid, a FRESH object for fix_time_window['I'] in the drawn form)"""
    T = tg.T
    mask = np.zeros(T, dtype=bool)
    if st['mode'] == 'prefix':
        mask[:max(1, min(st['k'], T - 1))] = True
    elif st['mode'] == 'middle':
        a = min(st['a'], T - 1)
        mask[a:max(a + 1, min(st['b'], T))] = True
    else:
        bits = list(st['bits'])[:T]
        mask[:len(bits)] = bits
        if not mask.any():
            mask[min(st['one'], T - 1)] = True
    if st['form'] == 'date' and st['mode'] == 'prefix':
        # a date: all time points up to and including it (as the package defines it); zone-aware on a zone-aware grid
        k = int(mask.sum())
        d = tg.timepoints[k - 1]
        mask = np.asarray(tg.timepoints <= d)
        return mask, d.to_pydatetime()
    if st['form'] == 'array':
        return mask, np.flatnonzero(mask).astype(np.int64)
    if st['form'] == 'list':
        return mask, [int(i) for i in np.flatnonzero(mask)]
    return mask, mask.copy()


def stage2_prices(rec, raw, mask):
    """prices of the second optimisation: the drawn ones on the free steps, the old ones on the pinned steps (and wherever a
    container is not a plain series over the steps of the grid)"""
    out = {}
    for k, v in rec['prices'].items():
        v = np.asarray(v, dtype=float)
        w = np.asarray(raw.get(k, v), dtype=float)
        out[k] = np.where(mask, v, w) if (v.shape == mask.shape and w.shape == mask.shape) else v.copy()
    return out


def solve_only(rec):
    """pf.solve_rec without reading the output tables"""
    rec['out'] = None
    if len(rec['op'].c) == 0:
        rec['res'] = 'empty problem'
        return rec
    try:
        rec['res'] = impl.solve(rec['op'])
    except Exception as e:
        if type(e).__name__ != 'SolverError':
            raise
        try:
            rec['res'] = impl.solve(rec['op'], solver='SCIPY')
        except Exception:
            rec['res'] = 'solver error'
    return rec


def run_stage2(rec, x_pin, st, raw, output=True):
    """the re-optimisation a user of the package does: the SAME portfolio object set up again with fix_time_window (window of the
    scenario, pinned to x_pin = a first-stage solution in the variable order of THIS portfolio) and the changed prices, solved, output
    extracted (output=False: not extracted - of the original only problem and solution are used).
    Returns {'raises': text or None, 'rec': record like pf.setup_mono + solve_rec}"""
    tg, portf = rec['tg'], rec['portf']
    mask, I_arg = stage2_window(st, tg)
    prices2 = stage2_prices(rec, raw, mask)
    rec2 = {'portf': portf, 'tg': tg, 'prices': prices2, 'scn': rec['scn'], 'captured': rec['captured'], 'mask': mask}
    try:
        with impl.Quiet():
            rec2['op'] = portf.setup_optim_problem(prices2, tg, fix_time_window={'I': I_arg, 'x': np.array(x_pin, dtype=float)})
    except Exception as e:
        return {'raises': '%s (%s)' % (type(e).__name__, str(e)[:100]), 'rec': None}
    if output:
        pf.solve_rec(rec2)
    else:
        solve_only(rec2)
    return {'raises': None, 'rec': rec2}


def var_perm(rv, rec, order):
    """sigma (array over the variables of the variant) with: variable j of the variant IS variable sigma[j] of the original.
    order[k] = position in the original list of the variant's k-th asset (block-wise, from the SIZES of the captured asset problems);
    order None = variant 'permute-inner': the outer order is the same and the variables of a wrapper are matched through the
    wrapped asset they belong to (column 'internal_asset' of the wrapper's own mapping; each wrapped asset keeps its own layout).
    None when the blocks do not match."""
    if order is None:
        # wrapped assets in another order at any level of nesting: the layout of every block from the sizes of the problems of
        # the assets inside it (wide.layout); the mapping column 'internal_asset' (first level only) is the fallback
        sg = wide.nested_sigma(rv, rec)
        if sg is not None:
            return sg
    bv = pf.asset_blocks(rv)
    bo = pf.asset_blocks(rec)
    av = rv['portf'].assets
    ao = rec['portf'].assets
    n = len(rec['op'].c)
    if len(rv['op'].c) != n:
        return None
    sigma = -np.ones(n, dtype=np.int64)
    for k, a in enumerate(av):
        o = ao[order[k] if order is not None else k]
        lo, hi = bv[a.name][0]
        lo2, hi2 = bo[o.name][0]
        if hi - lo != hi2 - lo2:
            return None
        sigma[lo:hi] = np.arange(lo2, hi2)
        if order is None:
            mv = rv['captured'][a.name].mapping
            mo = rec['captured'][o.name].mapping
            if 'internal_asset' in mv.columns and 'internal_asset' in mo.columns:
                for nm in mv['internal_asset'].unique():
                    iv = np.unique(mv.index[(mv['internal_asset'] == nm).values].values.astype(np.int64))
                    io = np.unique(mo.index[(mo['internal_asset'] == nm).values].values.astype(np.int64))
                    if len(iv) != len(io):
                        return None
                    sigma[lo + iv] = lo2 + io
    if len(np.unique(sigma)) != n or (n and (sigma.min() != 0 or sigma.max() != n - 1)):
        return None
    return sigma


# ------------------------------------------------------------------ LinkedAsset stream (the generic generator has no LinkedAsset)
LK_ADV = ['__', 'a__b', 'disp', 'bool_on', 'disp__lk_a', 'bool_on__lk_a', 'lk_internal_N1', '_internal_', 'x_internal_y', '1', '11', 'N1', 'nan']


def gen_linked(r2, tier, differing=False):
    """a small portfolio (MIP) around a LinkedAsset as in tests/test_portfolio.py::test_linked_asset: the wrapped portfolio holds a
    CHPAsset / Plant with on-variable (asset 2 of the link, 'lk_a') and a second asset (asset 1, 'lk_b': another CHPAsset / Plant, or a
    SimpleContract - at the power node or at an INTERNAL node behind a Transport); outside: power market, demand, heat sink, fuel market.
    differing=False: all wrapped assets live on the same window (none / that of the LinkedAsset / a common own one).
    differing=True : exactly one of the two linked wrapped assets gets a shorter window (probe 'linked-inner-order', finding F-09e)."""
    g = gen.gen_grid(r2, tmin=3, tmax=6 if tier == 'quick' else 9, tz_prob=0.05)
    T = scen.make_grid(g).T
    prices = {}
    fuel = r2.random() < 0.3
    nodes = ['N1', 'N2'] + (['N3'] if fuel else [])
    out = [{'type': 'SimpleContract', 'name': 'mkt1', 'nodes': ['N1'],
            'args': {'min_cap': -40.0, 'max_cap': 40.0, 'price': gen.price_key(r2, prices, T, lo=0, hi=20), 'extra_costs': gen.q8(r2, 0.125, 4)}}]
    if r2.random() < 0.6:
        d = gen.q8(r2, 1, 6)
        out.append({'type': 'SimpleContract', 'name': 'dem2', 'nodes': ['N1'], 'args': {'min_cap': -d, 'max_cap': -d}})
    hs = {'type': 'SimpleContract', 'name': 'heat3', 'nodes': ['N2'], 'args': {'min_cap': -40.0, 'max_cap': 0.0}}
    if r2.random() < 0.5:
        hs['args']['price'] = gen.price_key(r2, prices, T, lo=0, hi=6)
    out.append(hs)
    if fuel:
        out.append({'type': 'SimpleContract', 'name': 'fuel4', 'nodes': ['N3'],
                    'args': {'min_cap': 0.0, 'max_cap': 40.0, 'price': gen.price_key(r2, prices, T, lo=0, hi=6)}})

    def plant(name):
        chp = r2.random() < 0.65
        nn = (['N1', 'N2'] if chp else ['N1']) + (['N3'] if fuel and r2.random() < 0.6 else [])
        return gen.gen_plant(r2, g, prices, T, name, nn, chp=chp, allow_mip=True)
    a2 = plant('lk_a')
    a2['args'].setdefault('min_cap', gen.q8(r2, 0.5, 2))            # guarantees the on-variable
    v2 = 'bool_start' if ('start_costs' in a2['args'] and r2.random() < 0.25) else 'bool_on'
    inner = [a2]
    k1 = r2.choice(['plant', 'plant', 'simple', 'simple_internal'])
    node1 = 'N1'
    if k1 == 'plant':
        a1 = plant('lk_b')
    else:
        node1 = 'N1' if k1 == 'simple' else 'lk_i'
        a1 = {'type': 'SimpleContract', 'name': 'lk_b', 'nodes': [node1],
              'args': {'min_cap': 0.0, 'max_cap': gen.q8(r2, 1, 6), 'price': gen.price_key(r2, prices, T, lo=0, hi=10)}}
        if k1 == 'simple_internal':
            nodes.append('lk_i')
            inner.append({'type': 'Transport', 'name': 'lk_t', 'nodes': ['lk_i', 'N1'],
                          'args': {'min_cap': 0.0, 'max_cap': gen.q8(r2, 1, 6), 'efficiency': r2.choice([1.0, 0.75, 0.5])}})
    inner.insert(r2.randint(0, len(inner)), a1)
    if r2.random() < 0.3:   # a third wrapped asset that takes no part in the link
        inner.insert(r2.randint(0, len(inner)), gen.gen_simple_contract(r2, g, prices, T, 'lk_c', r2.choice(['N1', 'N2']), allow_opts=False))
    largs = {'asset1_variable': ['lk_b', 'disp', node1], 'asset2_variable': ['lk_a', v2, None],
             'time_back': r2.choice([0, 0, 1, 2]), 'time_forward': r2.choice([0, 0, 0, 1])}
    if r2.random() < 0.4:
        largs['asset2_time_already_running'] = float(r2.choice([0, 1, 2]))
    linked = {'type': 'LinkedAsset', 'name': 'lk', 'nodes': ['N1', 'N2'], 'inner': inner, 'args': largs,
              'refs': r2.choice(['names', 'objects'])}    # the link is given by names or by the Asset / Node objects
    info = {}
    if not differing:
        wk = r2.choice(['none'] * 5 + ['linked', 'linked', 'inner', 'inner', 'inner_start'])
        kinds = ['end_only', 'end_only', 'straddle_start', 'equal', 'covering', 'start_only', 'inside'] if wk != 'inner_start' else ['start_only', 'inside']
        if wk != 'none':
            w = gen.window(r2, g, kinds=kinds)
            for tgt in ([linked] if wk == 'linked' else inner):
                gen.put_window(tgt['args'], w)
            wk = wk + ':' + w[0]
        info['window'] = wk
    else:
        which = r2.choice(['lk_a', 'lk_b'])
        side = r2.choice(['start', 'end', 'end'])
        k = r2.randint(1, max(1, g['T_nominal'] - 1))
        pt = gen.P(g, k)
        if gen.ok_local(pt, g):
            [x for x in inner if x['name'] == which][0]['args'][side] = gen.dtv(pt)
        # the two linked assets at the two ends of the wrapped list (which one comes last is drawn; the probe reverses the list)
        ends = [x for x in inner if x['name'] in ('lk_a', 'lk_b')]
        r2.shuffle(ends)
        inner[:] = [ends[0]] + [x for x in inner if x['name'] not in ('lk_a', 'lk_b')] + [ends[1]]
        info = {'shorter': which, 'side': side, 'step': k, 'last': ends[1]['name']}
    out.insert(r2.randint(0, len(out)), linked)
    if r2.random() < 0.3:
        out.append(gen.gen_storage(r2, g, prices, T, 'st9', [r2.choice(['N1', 'N2'])], False, False))
    return {'grid': g, 'nodes': nodes, 'prices': prices, 'assets': out, 'linked': info}


def linked_scenarios(seed, tier):
    n, m = (90, 12) if tier == 'quick' else (500, 40)
    rnd = random.Random(seed * 7919 + 909)
    for i in range(n):
        r2 = random.Random(rnd.getrandbits(48))
        s = gen_linked(r2, tier)
        names = [a['name'] for a in scen.all_asset_specs(s)]
        apool = list(dict.fromkeys(ADV + LK_ADV))
        pool = r2.sample(apool, len(names)) if r2.random() < 0.8 else ['z%d' % k for k in range(len(names))]
        s['amap'] = {nm: pool[k] for k, nm in enumerate(names)}
        npool = r2.sample(apool, len(s['nodes']))
        s['nmap'] = {nm: npool[k] for k, nm in enumerate(s['nodes'])}
        perm = list(range(len(s['assets'])))
        r2.shuffle(perm)
        s['perm'] = perm
        s['inplace'] = {'first': r2.choice(['optimise', 'optimise', 'setup', 'none']), 'new_grid': r2.random() < 0.5,
                        'permute': r2.random() < 0.3}
        draw_stage2(r2, s)
        draw_wide(r2, s, names_prob=0.3, door=False)
        yield 'linked%d' % i, s
    for i in range(m):
        r2 = random.Random(rnd.getrandbits(48))
        s = gen_linked(r2, tier, differing=True)
        s['probe'] = 'linked-inner-order'
        yield 'linked-inner-order%d' % i, s


def is_wrapper(spec):
    return spec['type'] in ('StructuredAsset', 'LinkedAsset')


def has_linked(scn):
    return any(a['type'] == 'LinkedAsset' for a in scn['assets'])


def build(scn):
    """scen.build, and LinkedAsset specs built here: the link given by names (scen.build_asset does that) or, spec['refs'] ==
    'objects', by the Asset and Node objects themselves"""
    if not has_linked(scn):
        return scen.build(scn)
    from eaopack.portfolio import Portfolio, LinkedAsset
    tg = scen.make_grid(scn['grid'])
    nodes = scen.make_nodes(scn['nodes'])
    assets = []
    for sp in scn['assets']:
        if sp['type'] != 'LinkedAsset':
            assets.append(scen.build_asset(sp, nodes))
            continue
        inner = [scen.build_asset(x, nodes) for x in sp['inner']]
        args = scen.dec(copy.deepcopy(sp['args']))
        if sp.get('refs') == 'objects':
            by = {x.name: x for x in inner}
            for k in ('asset1_variable', 'asset2_variable'):
                a, v, n = args[k]
                args[k] = (by[a], v, nodes[n] if n is not None else None)
        assets.append(LinkedAsset(portfolio=Portfolio(inner), name=sp['name'], nodes=[nodes[n] for n in sp['nodes']], **args))
    prices = {k: np.asarray(v, dtype=float) for k, v in scn.get('prices', {}).items()}
    return Portfolio(assets), tg, prices, nodes


def rename_scn(scn, amap, nmap):
    """scen.rename_scenario, and the names inside the link of a LinkedAsset"""
    s = scen.rename_scenario(scn, amap, nmap)
    for a in scen.all_asset_specs(s):
        if a['type'] == 'LinkedAsset':
            for k in ('asset1_variable', 'asset2_variable'):
                an, v, nn = a['args'][k]
                a['args'][k] = [amap.get(an, an), v, None if nn is None else nmap.get(nn, nn)]
    return s


def setup_portf(portf, tg, prices, scn):
    """set up a portfolio object, keeping what every outermost asset returned (impl.Capture) and the size of the problem of every
    asset at any level of nesting (wide.DeepSizes); tg None: the portfolio's own grid"""
    rec = {'portf': portf, 'tg': tg, 'prices': prices, 'scn': scn}
    with impl.Quiet(), wide.DeepSizes(portf) as ds, impl.Capture(portf) as cap:
        rec['op'] = portf.setup_optim_problem(prices, tg)
    rec['captured'] = {k: v[-1] for k, v in cap.caught.items()}
    rec['sizes'] = ds.sizes
    if tg is None:
        rec['tg'] = portf.timegrid
    return rec


def setup_rec(scn):
    """pf.setup_mono with the builder of this file"""
    portf, tg, prices, nodes = build(scn)
    return setup_portf(portf, tg, prices, scn)


def setup_door(base, amap, nmap, opts, named):
    """variants 'rename-door': the renamed portfolio (named False: the portfolio under its original names) taken through a door of
    the public API before it is set up: 'json' = built in code under the new names, to_json, load_from_json (string or file; as
    drawn with its own time grid inside); 'set_param' = built under the ORIGINAL names and renamed name by name with io.set_param"""
    am, nm = (amap, nmap) if named else ({}, {})
    sv = rename_scn(base, am, nm)
    if opts['door'] == 'json':
        portf, tg, prices, nodes = build(sv)
        if opts.get('own_grid'):
            portf.set_timegrid(tg)
        with impl.Quiet():
            portf2 = wide.dump_load(portf, opts)
        return setup_portf(portf2, None if opts.get('own_grid') else tg, prices, sv)
    portf, tg, prices, nodes = build(base)
    with impl.Quiet():
        portf2 = wide.rename_by_set_param(portf, am, nm, opts)
    return setup_portf(portf2, tg, prices, sv)


def transport_back(rec_var, rec_orig, order):
    """x of the variant arranged in the order of the original problem; order[k] = position in the original list of the variant's k-th asset"""
    bv = pf.asset_blocks(rec_var)
    bo = pf.asset_blocks(rec_orig)
    x = np.zeros(len(rec_orig['op'].c))
    av = rec_var['portf'].assets
    ao = rec_orig['portf'].assets
    for k, a in enumerate(av):
        lo, hi = bv[a.name][0]
        lo2, hi2 = bo[ao[order[k]].name][0]
        if hi - lo != hi2 - lo2:
            return None
        x[lo2:hi2] = rec_var['res'].x[lo:hi]
    return x


def link_is_internal(a):
    """LinkedAsset whose link names a node that is not one of its own (outer) nodes"""
    return any(n is not None and n not in a.node_names for n in (a.node1_name, a.node2))


def rename_objects(portf, nodes, amap, nmap):
    """rename the very Node and Asset objects of a portfolio in place (`Node.name` and `Asset.name` are plain public attributes):
    every node, every asset of the portfolio, the base asset of a scaled asset and the assets wrapped by a structured asset - each
    object exactly once, by its own present name.  A `Portfolio` object files its nodes under their names when it is created, so the
    portfolio wrapped by a structured asset is created anew from the same (renamed) asset objects, exactly as the outer one.
    Returns the list of the (same) outer asset objects."""
    from eaopack.assets import Asset
    from eaopack.portfolio import Portfolio, LinkedAsset
    # a LinkedAsset keeps the NAMES of the two nodes of its link as strings from its construction: renaming its nodes (own and
    # wrapped) in place is out of scope (ASSUMPTIONS); nodes that no LinkedAsset touches are renamed
    keep = set()
    everyone = wide.walk_assets(portf.assets)       # (LinkedAssets at any level of nesting, e.g. as the base asset of a scaled asset)
    for a in everyone:
        if isinstance(a, LinkedAsset):
            keep |= set(id(n) for n in a.nodes) | set(id(n) for x in wide.walk_assets(a.portfolio.assets) for n in x.nodes)
    used = set(n.name for n in nodes.values() if id(n) in keep)     # (names stay distinct: a new name that a kept node bears is varied)
    for n in nodes.values():
        if id(n) not in keep:
            new = nmap.get(n.name, n.name)
            while new in used:
                new += "'"
            used.add(new)
            n.name = new
    seen = set()
    kept_assets = set(a.name for a in everyone if isinstance(a, LinkedAsset) and link_is_internal(a))

    def ren(a):
        if id(a) in seen:
            return
        seen.add(id(a))
        if isinstance(a, LinkedAsset) and link_is_internal(a):
            # TODO (reported, decision pending): the link refers to an INTERNAL node; LinkedAsset.__init__ stores that as the string
            # <own name>_internal_<node name> (portfolio.py, node1_name / node2), so renaming the LinkedAsset itself in place makes
            # its set-up raise IndexError.  Same mechanism as for its nodes; until decided such a LinkedAsset keeps its own name
            # in this variant (its wrapped assets and all other assets are renamed).  The rebuilt variants rename it.
            pass
        else:
            new = amap.get(a.name, a.name)
            while new in kept_assets:
                new += "'"
            a.name = new
        b = a.__dict__.get('base_asset')
        if isinstance(b, Asset):
            ren(b)
        p = a.__dict__.get('portfolio')
        if isinstance(p, Portfolio):
            for x in p.assets:
                ren(x)
            a.portfolio = Portfolio(list(p.assets))
    for a in portf.assets:
        ren(a)
    return list(portf.assets)


def setup_inplace(base, amap, nmap, opts, perm):
    """variant 'rename-inplace': the objects are built ONCE under the original names and used (optimised / set up / left alone),
    then the same objects are renamed in place and handed to a new Portfolio; returns a record like pf.setup_mono"""
    from eaopack.portfolio import Portfolio
    portf, tg, prices, nodes = build(base)
    first = opts.get('first', 'optimise')
    if first != 'none':
        rec0 = {'portf': portf, 'tg': tg, 'prices': prices, 'scn': base}
        with impl.Quiet():
            rec0['op'] = portf.setup_optim_problem(prices, tg)
        if first == 'optimise':
            pf.solve_rec(rec0)
    assets = rename_objects(portf, nodes, amap, nmap)
    if perm is not None:
        assets = [assets[i] for i in perm]
    portf2 = Portfolio(assets)
    tg2 = scen.make_grid(base['grid']) if opts.get('new_grid') else tg
    rec = {'portf': portf2, 'tg': tg2, 'prices': prices, 'scn': rename_scn(base, amap, nmap)}
    with impl.Quiet(), impl.Capture(portf2) as cap:
        rec['op'] = portf2.setup_optim_problem(prices, tg2)
    rec['captured'] = {k: v[-1] for k, v in cap.caught.items()}
    return rec


def probe_linked_inner_order(scn, drv):
    """probe 'linked-inner-order' (finding F-09e): a LinkedAsset whose two linked wrapped assets live on DIFFERENT windows, set up with
    the wrapped assets in the drawn order and in the reversed order.  The order of the wrapped assets is no more part of the input's
    meaning than the order of the assets of a portfolio: same outcome (sets up or not, size, status, value) is expected."""
    r = {'evaluated': 2, 'nontrivial': False, 'features': ['probe:linked-inner-order'], 'disagreements': [], 'violations': []}
    base = {k: v for k, v in scn.items() if k not in ('probe', 'linked')}
    info = scn.get('linked', {})
    res = []
    for rev in (False, True):
        sv = copy.deepcopy(base)
        for a in sv['assets']:
            if rev and a['type'] == 'LinkedAsset':
                a['inner'] = list(reversed(a['inner']))
        order = [[x['name'] for x in a['inner']] for a in sv['assets'] if a['type'] == 'LinkedAsset'][0]
        try:
            rec = setup_rec(sv)
        except Exception as e:
            res.append({'order': order, 'raises': '%s (%s)' % (type(e).__name__, str(e)[:80])})
            continue
        pf.solve_rec(rec)
        res.append({'order': order, 'raises': None, 'size': (len(rec['op'].c), len(rec['op'].cType)),
                    'value': None if isinstance(rec['res'], str) else float(rec['res'].value)})
    a, b = res
    r['features'].append('probe-outcome:%s/%s' % tuple('raises' if x['raises'] else 'sets-up' for x in res))
    r['nontrivial'] = not (a['raises'] and b['raises'])
    r['observed'] = res
    what = None
    if bool(a['raises']) != bool(b['raises']):
        ok_, bad = (a, b) if b['raises'] else (b, a)
        what = 'raises'
        msg = 'wrapped assets in the order %s: sets up (value %s); in the order %s: set-up raises %s' % (ok_['order'], ok_['value'], bad['order'], bad['raises'])
    elif not a['raises']:
        if a['size'] != b['size']:
            what, msg = 'size', 'wrapped assets in the order %s: %d variables / %d rows; in the order %s: %d / %d' % ((a['order'],) + a['size'] + (b['order'],) + b['size'])
        elif (a['value'] is None) != (b['value'] is None):
            what, msg = 'status', 'wrapped assets in the order %s: value %s; in the order %s: value %s' % (a['order'], a['value'], b['order'], b['value'])
        elif a['value'] is not None and abs(a['value'] - b['value']) > 2e-6 * max(1.0, abs(a['value'])):
            what, msg = 'value', 'wrapped assets in the order %s: optimal value %.8g; in the order %s: %.8g' % (a['order'], a['value'], b['order'], b['value'])
    if what:
        r['violations'].append({'oracle': 'names_and_order',
                                'detail': 'linked-inner-order (wrapped asset %r has its own %s at step %s, the other linked one has not): %s' % (
                                    info.get('shorter'), info.get('side'), info.get('step'), msg),
                                'facts': {'kind': 'linked_inner_windows', 'variant': 'permute-inner', 'what': what,
                                          'shorter': info.get('shorter'), 'side': info.get('side')}})
    return r


INFO_KEYS = ('amap', 'nmap', 'perm', 'inplace', 'linked', 'stage2', 'prices2', 'iperm', 'door', 'doors', 'names', 'nested', 'stream', 'variants')


def run_case(scn, drv):
    if isinstance(scn, dict) and scn.get('_stream') == 'scaledperm':
        r0 = SPM.run_case(scn['case'], drv, with_oracle=True, solve=bool(scn.get('solve')))
        return {'evaluated': 1, 'nontrivial': True, 'features': ['stream:scaledperm'],
                'disagreements': [d if isinstance(d, dict) else {'component': 'scaled over permuted structure', 'detail': d} for d in r0['disagreements']],
                'violations': r0['violations']}
    if isinstance(scn, dict) and scn.get('_stream') == 'nestedperm_probe':
        v_c, n_c = NP.collision_demo('c')
        v_x, n_x = NP.collision_demo('a__b')
        vio = []
        if abs(v_c - v_x) > 1e-6 * max(1.0, abs(v_c)):
            vio.append({'oracle': 'names_and_order', 'detail': 'LinkedAsset L around [structure b around plant a, plant X, contract c1] with c1 linked to bool_on of X: optimal value %.6g with X named "c" '
                        '(look-up finds %d variable at step 0) but %.6g with X named "a__b" (finds %d: the name written for plant a inside b is bool_on__a__b as well) - an injective renaming changes the optimum' % (v_c, n_c, v_x, n_x),
                        'facts': {'kind': 'var_label_collision', 'stream': 'nestedperm_probe'}})
        return {'evaluated': 2, 'nontrivial': True, 'features': ['stream:nestedperm_probe'], 'disagreements': [], 'violations': vio}
    if isinstance(scn, dict) and scn.get('_stream') == 'nestedperm':
        r0 = NP.run_case(scn['case'], drv, with_oracle=True, solve=bool(scn.get('solve')))
        return {'evaluated': 1, 'nontrivial': bool(r0.get('compared')), 'features': ['stream:nestedperm', 'kind:' + str(scn['case'].get('kind'))],
                'disagreements': [d if isinstance(d, dict) else {'component': 'nested wrappers', 'detail': d} for d in r0['disagreements']],
                'violations': r0['violations']}
    r = {'evaluated': 1, 'nontrivial': False, 'features': [], 'disagreements': [], 'violations': []}
    feats = r['features']
    if scn.get('probe') == 'linked-inner-order':
        return probe_linked_inner_order(scn, drv)
    base = {k: v for k, v in scn.items() if k not in INFO_KEYS}
    for a in base['assets']:
        feats.append('asset:' + a['type'])
        if a['type'] == 'LinkedAsset':
            feats.append('linked:window=%s' % scn.get('linked', {}).get('window'))
            feats.append('linked:refs=%s' % a.get('refs'))
            feats.append('linked:node1=%s' % ('internal' if a['args']['asset1_variable'][2] not in a['nodes'] else 'external'))
    if scn.get('stream'):
        feats.append('stream:%s' % scn['stream'])
    if scn.get('nested'):
        feats.append('nested:%s' % scn['nested'])
    if scn.get('names'):
        feats.append('names:nodes=%s' % scn['names'].get('nodes'))
        feats.append('names:assets=%s' % scn['names'].get('assets'))
    try:
        rec = setup_rec(base)
    except Exception as e:
        feats.append('setup-error:' + impl.err_class(e))
        return r
    r['disagreements'] += pf.hyp_wf(rec)
    feats.append('hypotheses-evaluated')
    r['disagreements'] += pf.corr_assemble(rec, drv)
    pf.solve_rec(rec)
    if isinstance(rec['res'], str):
        feats.append('unsolved:' + rec['res'])
    V = None if isinstance(rec['res'], str) else float(rec['res'].value)
    nA = len(base['assets'])
    ident = list(range(nA))
    nested = scn.get('stream') == 'nest'
    variants = [('rename', rename_scn(base, scn['amap'], scn['nmap']), ident)]
    sp_ = copy.deepcopy(base)
    sp_['assets'] = [base['assets'][i] for i in scn['perm']]
    variants.append(('permute', sp_, list(scn['perm'])))
    both = rename_scn(sp_, scn['amap'], scn['nmap'])
    variants.append(('rename+permute', both, list(scn['perm'])))
    if any(wide.has_permutable(a) for a in base['assets']):
        # the order of the assets INSIDE a structured asset - at any level of nesting: wrapped by the base asset of a scaled asset,
        # by a structured asset inside a structured asset - is as irrelevant as the order in the portfolio
        variants.append(('permute-inner', wide.permute_inner(base, scn.get('iperm')), None))
    # the same objects renamed in place (not rebuilt from the scenario): names that an object kept from its construction or from
    # an earlier set-up show only here
    ipo = scn.get('inplace') or {'first': 'optimise', 'new_grid': False, 'permute': False}
    ip_perm = list(scn['perm']) if ipo.get('permute') else None
    variants.append(('rename-inplace', ('inplace', ipo, ip_perm), ip_perm or ident))
    feats.append('inplace:first=%s' % ipo.get('first'))
    if scn.get('variants'):
        variants = [v for v in variants if v[0] in scn['variants']]
    # the renamed portfolio taken through a door of the public API (JSON string / file, run_from_json, set_param)
    doors = []
    if scn.get('door'):
        if scn.get('doors') == 'all':
            doors = [dict(scn['door'], door=d) for d in ('json', 'set_param', 'run_from_json')]
        else:
            doors = [dict(scn['door'])]

    def viol(msg, **facts):
        r['violations'].append({'oracle': 'names_and_order', 'detail': msg, 'facts': facts})
    # ---- second stage: the re-optimisation with a fixed time window (fix_time_window) is a result like any other.  The original is
    # set up again with the window of the scenario pinned to its first-stage solution x1 and with changed prices on the free steps;
    # every variant likewise, pinned to THE SAME solution x1 carried over into the variant's variable order (so both second-stage
    # problems are the same problem up to the relabelling, whatever ties the first stage had); then the comparison of the first stage
    st2 = scn.get('stage2') if (STAGE2 and V is not None) else None
    s2o = None
    x1 = None if V is None else np.array(rec['res'].x, dtype=float)
    if st2 is not None:
        s2o = run_stage2(rec, x1, st2, scn.get('prices2', {}), output=False)
        r['evaluated'] += 1
        feats.append('stage2:window=%s/%s' % (st2['mode'], st2['form']))
        if s2o['raises']:
            feats.append('stage2:original-raises')
        elif len(s2o['rec']['op'].c) != len(rec['op'].c):
            feats.append('stage2:original-size-changed')
            s2o = None
        else:
            feats.append('stage2:original-' + ('unsolved' if isinstance(s2o['rec']['res'], str) else 'solved'))
            m_ = s2o['rec']['mask']
            feats.append('stage2:pinned-steps=%s' % ('all' if m_.all() else 'some'))

    def second_stage(tag, rv, order, sigma, viol):
        if s2o is None:
            return
        if sigma is None:
            feats.append('stage2:no-variable-matching:' + tag)
            return
        r['evaluated'] += 1
        s2v = run_stage2(rv, x1[sigma], st2, scn.get('prices2', {}))
        ro = s2o['rec']
        if bool(s2v['raises']) != bool(s2o['raises']):
            viol('%s, re-optimisation with fix_time_window (%s window as %s, steps %s): set-up %s although the same re-optimisation of the original portfolio %s' % (
                tag, st2['mode'], st2['form'], [int(i) for i in np.flatnonzero(stage2_window(st2, rec['tg'])[0])],
                ('raises ' + s2v['raises']) if s2v['raises'] else 'works', ('raises ' + s2o['raises']) if s2o['raises'] else 'sets up'),
                variant=tag, what='stage2_raises', stage=2)
            return
        if s2v['raises']:
            return
        r2v = s2v['rec']
        where = '%s, re-optimisation with fix_time_window (%s window as %s, steps %s pinned to the first solution, other prices changed)' % (
            tag, st2['mode'], st2['form'], [int(i) for i in np.flatnonzero(ro['mask'])])
        if len(r2v['op'].c) != len(ro['op'].c) or len(r2v['op'].cType) != len(ro['op'].cType):
            viol('%s: problem has %d variables / %d rows, original %d / %d' % (where, len(r2v['op'].c), len(r2v['op'].cType), len(ro['op'].c), len(ro['op'].cType)), variant=tag, what='stage2_size', stage=2)
            return
        if 'inaccurate' in (r2v['res'], ro['res']):
            feats.append('stage2-solver-inaccurate')      # the solver makes no claim about one of the two re-optimisations: nothing to compare
            return
        if isinstance(r2v['res'], str) != isinstance(ro['res'], str):
            viol('%s: optimisation status differs (%s vs %s for the original)' % (where, r2v['res'] if isinstance(r2v['res'], str) else 'successful', ro['res'] if isinstance(ro['res'], str) else 'successful'),
                 variant=tag, what='stage2_status', stage=2)
            return
        if isinstance(ro['res'], str):
            return
        V2 = float(ro['res'].value)
        V2v = float(r2v['res'].value)
        tol2 = 2e-6 * max(1.0, abs(V2), abs(V))
        if abs(V2v - V2) > tol2:
            viol('%s: optimal value %.8g, original %.8g' % (where, V2v, V2), variant=tag, what='stage2_value', stage=2)
            return
        x2 = np.zeros(len(ro['op'].c))
        x2[sigma] = r2v['res'].x
        worst, what = pf.feasibility_violation(ro['op'], x2)
        val = -float(np.dot(ro['op'].c, x2))
        if worst > 1e-5 or abs(val - V2) > tol2:
            viol('%s: the solution, rearranged variable by variable, is not an optimal solution of the original re-optimisation (violates %s by %.3g; value %.8g vs %.8g)' % (where, what, worst, val, V2),
                 variant=tag, what='stage2_transport', stage=2)
        try:
            vb, _ = pf.orc_nodal_balance(r2v, tag=tag)
            for v_ in vb[:1]:
                viol('%s: %s' % (where, v_['detail']), variant=tag, what='stage2_reported_dispatch', stage=2)
        except Exception as e:
            viol('%s: reading the dispatch output raises %s' % (where, type(e).__name__), variant=tag, what='stage2_output_raises', stage=2)
        try:
            d2 = r2v['out']['DCF']
            ao_ = rec['portf'].assets
            bo_ = pf.asset_blocks(rec)
            for k, a in enumerate(r2v['portf'].assets):
                lo, hi = bo_[ao_[order[k] if order is not None else k].name][0]
                want = -float(np.dot(ro['op'].c[lo:hi], x2[lo:hi]))
                got = float(d2[a.name].sum())
                if abs(want - got) > 1e-6 * max(1.0, abs(V2), abs(V), abs(want)):
                    viol('%s: cash flow reported for asset %r is %.8g but its own variables cost %.8g' % (where, a.name, got, -want), variant=tag, what='stage2_dcf', stage=2)
                    break
        except Exception as e:
            viol('%s: reading the output raises %s' % (where, type(e).__name__), variant=tag, what='stage2_output_raises', stage=2)

    # ---- price samples: the cost vector the portfolio hands out for another set of prices (setup_optim_problem(costs_only=True),
    # create_cost_samples - what robust / stochastic optimisation is fed with) leads to results like any other: the cash flow per
    # asset of a given dispatch under the sample and the optimal value under the sample depend neither on names nor on the order
    sample = {'prices': None, 'c': None, 'tried': False}

    def sample_costs(rr):
        if sample['prices'] is None:
            raw = scn.get('prices2', {})
            sample['prices'] = {k: (np.asarray(raw[k], dtype=float) if k in raw and np.shape(raw[k]) == np.shape(v) else np.array(v, dtype=float))
                                for k, v in rec['prices'].items()}
        with impl.Quiet():
            return np.atleast_1d(np.asarray(rr['portf'].setup_optim_problem(sample['prices'], rr['tg'], costs_only=True), dtype=float))

    def sample_stage(tag, rv, order, sigma, viol):
        n = len(rec['op'].c)
        if not sample['tried']:
            sample['tried'] = True
            try:
                sample['c'] = sample_costs(rec)
            except Exception as e:
                feats.append('sample:original-raises:' + impl.err_class(e))
            if sample['c'] is not None and len(sample['c']) != n:
                feats.append('sample:original-length-differs')      # (cost vector of another length than the problem: C17's subject)
                sample['c'] = None
        co = sample['c']
        if co is None or sigma is None:
            return
        r['evaluated'] += 1
        try:
            cv = sample_costs(rv)
        except Exception as e:
            viol('%s: the cost vector for another price sample (costs_only) raises %s (%s) although that of the original portfolio is built' % (tag, type(e).__name__, str(e)[:100]),
                 variant=tag, what='sample_raises')
            return
        if len(cv) != n:
            viol('%s: the cost vector for another price sample (costs_only) has %d entries, that of the original portfolio %d' % (tag, len(cv), n), variant=tag, what='sample_size')
            return
        tolc = 1e-9 * max(1.0, float(np.abs(co).max()) if n else 1.0)
        if n == 0 or float(np.abs(cv - co[sigma]).max()) <= tolc:
            feats.append('sample:same-costs')
            return
        j = int(np.argmax(np.abs(cv - co[sigma])))
        if V is not None:
            # (a) the dispatch x1 (first solution of the original, carried over): cash flow per asset under the sample
            xv = x1[sigma]
            bv = pf.asset_blocks(rv)
            bo = pf.asset_blocks(rec)
            ao = rec['portf'].assets
            for k, a in enumerate(rv['portf'].assets):
                lo, hi = bv[a.name][0]
                lo2, hi2 = bo[ao[order[k] if order is not None else k].name][0]
                cash_v = -float(np.dot(cv[lo:hi], xv[lo:hi]))
                cash_o = -float(np.dot(co[lo2:hi2], x1[lo2:hi2]))
                if abs(cash_v - cash_o) > 1e-6 * max(1.0, abs(cash_o), abs(V)):
                    viol('%s: under another price sample (cost vector from costs_only) the cash flow of asset %r for the SAME dispatch is %.8g, in the original portfolio %.8g (cost of variable %d: %.8g vs %.8g)' % (
                        tag, a.name, cash_v, cash_o, j, cv[j], co[sigma][j]), variant=tag, what='sample_dcf', asset_type=type(a).__name__)
                    return
            # (b) the optimal values under the sample
            vals = []
            for rr, cc in ((rv, cv), (rec, co)):
                o2 = copy.copy(rr['op'])
                o2.c = np.array(cc, dtype=float)
                q = solve_only({'op': o2})
                vals.append('inaccurate' if q['res'] == 'inaccurate' else None if isinstance(q['res'], str) else float(q['res'].value))
            if 'inaccurate' in vals:
                feats.append('sample-solver-inaccurate')
                return
            if (vals[0] is None) != (vals[1] is None):
                viol('%s: under another price sample (cost vector from costs_only) the optimisation status differs (%s vs %s)' % (tag, vals[0], vals[1]), variant=tag, what='sample_status')
                return
            if vals[0] is not None and abs(vals[0] - vals[1]) > 2e-6 * max(1.0, abs(vals[1])):
                viol('%s: under another price sample (cost vector from costs_only) the optimal value is %.8g, for the original portfolio %.8g' % (tag, vals[0], vals[1]), variant=tag, what='sample_value')
                return
        feats.append('sample:costs-differ-without-effect:' + tag)

    def check(tag, sv, order, viol, light=False):
        """one variant against the original: raises, size, status, value, the solution carried back, what is reported; light: without
        the second stage and the price sample"""
        r['evaluated'] += 1
        try:
            if isinstance(sv, tuple) and sv[0] == 'inplace':
                rv = setup_inplace(base, scn['amap'], scn['nmap'], sv[1], sv[2])
            elif isinstance(sv, tuple) and sv[0] == 'door':
                rv = setup_door(base, scn['amap'], scn['nmap'], sv[1], sv[2])
            else:
                rv = setup_rec(sv)
        except Exception as e:
            viol('%s: set-up raises %s (%s) although the original portfolio sets up' % (tag, type(e).__name__, str(e)[:120]), variant=tag, what='raises')
            return
        if isinstance(sv, tuple) and sv[0] == 'inplace':
            # asset problems of objects with a past: the hypotheses of the assembly theorems once more (e.g. dispatch rows only at
            # the asset's own - present - nodes)
            r['disagreements'] += pf.hyp_wf(rv)
        r['disagreements'] += pf.corr_assemble(rv, drv)
        # problems must have the same numbers up to the block permutation
        if len(rv['op'].c) != len(rec['op'].c) or len(rv['op'].cType) != len(rec['op'].cType):
            msg = '%s: problem has %d variables / %d rows, original %d / %d' % (tag, len(rv['op'].c), len(rv['op'].cType), len(rec['op'].c), len(rec['op'].cType))
            # what that means for the results, where it can be said: status and optimal value of the variant
            try:
                solve_only(rv)
                if isinstance(rv['res'], str) != isinstance(rec['res'], str):
                    msg += '; optimisation status %s vs %s' % (rv['res'] if isinstance(rv['res'], str) else 'successful', rec['res'] if isinstance(rec['res'], str) else 'successful')
                elif V is not None and abs(float(rv['res'].value) - V) > 2e-6 * max(1.0, abs(V)):
                    viol(msg + '; optimal value %.8g, original %.8g' % (float(rv['res'].value), V), variant=tag, what='value', size_differs=True)
                    return
            except Exception:
                pass
            viol(msg, variant=tag, what='size')
            return
        pf.solve_rec(rv)
        if 'inaccurate' in (rv['res'], rec['res']):
            feats.append('solver-inaccurate')      # no claim by the solver about one of the two runs
            return
        if isinstance(rv['res'], str) != isinstance(rec['res'], str):
            viol('%s: optimisation status differs (%s vs %s)' % (tag, rv['res'] if isinstance(rv['res'], str) else 'successful', rec['res'] if isinstance(rec['res'], str) else 'successful'), variant=tag, what='status')
            return
        if V is None:
            return
        Vv = float(rv['res'].value)
        tol = 2e-6 * max(1.0, abs(V))
        if abs(Vv - V) > tol:
            viol('%s: optimal value %.8g, original %.8g' % (tag, Vv, V), variant=tag, what='value')
            return
        sigma = var_perm(rv, rec, order)
        if not light:
            second_stage(tag, rv, order, sigma, viol)
            if nested or order is None or list(order) != ident:
                sample_stage(tag, rv, order, sigma, viol)
        if order is None:
            # wrapped assets in another order: the solution carried back variable by variable
            if sigma is None:
                feats.append('no-variable-matching:' + tag)
                return
            x = np.zeros(len(rec['op'].c))
            x[sigma] = rv['res'].x
            order = ident
        else:
            x = transport_back(rv, rec, order)
        if x is None:
            viol('%s: an asset has a different number of variables' % tag, variant=tag, what='size')
            return
        worst, what = pf.feasibility_violation(rec['op'], x)
        val = -float(np.dot(rec['op'].c, x))
        if worst > 1e-5 or abs(val - V) > tol:
            viol('%s: the solution, rearranged asset by asset, is not an optimal solution of the original problem (violates %s by %.3g; value %.8g vs %.8g)' % (tag, what, worst, val, V), variant=tag, what='transport')
        # per-asset dispatch up to relabelling: the dispatch table read out under the new labels still balances at every node
        # and step (the solution itself was compared above; this is about what is REPORTED under the new names)
        try:
            vb, _ = pf.orc_nodal_balance(rv, tag=tag)
            for v_ in vb[:1]:
                viol('%s: %s' % (tag, v_['detail']), variant=tag, what='reported_dispatch')
        except Exception as e:
            viol('%s: reading the dispatch output raises %s' % (tag, type(e).__name__), variant=tag, what='output_raises')
        # per-asset cash flows up to relabelling: the cash flow reported under the new label equals minus the cost of the
        # asset's own variables (costs of the ORIGINAL problem, solution of the variant) - independent of ties
        try:
            d1 = rv['out']['DCF']
            ao = rec['portf'].assets
            bo = pf.asset_blocks(rec)
            for k, a in enumerate(rv['portf'].assets):
                lo, hi = bo[ao[order[k]].name][0]
                want = -float(np.dot(rec['op'].c[lo:hi], x[lo:hi]))
                got = float(d1[a.name].sum())
                if abs(want - got) > 1e-6 * max(1.0, abs(V), abs(want)):
                    viol('%s: cash flow reported for asset %r is %.8g but its own variables cost %.8g' % (tag, a.name, got, -want), variant=tag, what='dcf')
                    break
        except Exception as e:
            viol('%s: reading the output raises %s' % (tag, type(e).__name__), variant=tag, what='output_raises')

    def check_run_json(tag, opts, named, viol):
        """door run_from_json: only the output tables come back.  Stated on them: optimisation successful as for the original, same
        value, dispatch reported under every (asset, node) label of the renamed portfolio and balanced at every node and step, a
        cash flow reported for every asset, all cash flows together = the value"""
        r['evaluated'] += 1
        am, nm = (scn['amap'], scn['nmap']) if named else ({}, {})
        portf, tg, prices, nodes = build(rename_scn(base, am, nm))
        try:
            out = wide.run_json(portf, prices, tg)
        except Exception as e:
            viol('%s: run_from_json raises %s (%s) although the original portfolio, set up in code, is optimised' % (tag, type(e).__name__, str(e)[:120]), variant=tag, what='raises')
            return
        if (out is None) != (V is None):
            viol('%s: optimisation status differs (%s vs %s)' % (tag, 'not successful' if out is None else 'successful', 'not successful' if V is None else 'successful'), variant=tag, what='status')
            return
        if out is None:
            return
        val = float(out['summary'].loc['value', 'Values'])
        tol = 2e-6 * max(1.0, abs(V))
        if abs(val - V) > tol:
            viol('%s: optimal value %.8g, original %.8g' % (tag, val, V), variant=tag, what='value')
            return
        cols = impl.disp_cols(portf)
        missing = [c for c in cols.values() if c not in out['dispatch'].columns]
        if missing:
            viol('%s: no dispatch reported under the label %r (columns %s)' % (tag, missing[0], [str(c) for c in out['dispatch'].columns][:8]), variant=tag, what='reported_dispatch')
            return
        try:
            vb, _ = pf.orc_nodal_balance({'out': out, 'portf': portf}, tag=tag)
            for v_ in vb[:1]:
                viol('%s: %s' % (tag, v_['detail']), variant=tag, what='reported_dispatch')
        except Exception as e:
            viol('%s: reading the dispatch output raises %s' % (tag, type(e).__name__), variant=tag, what='output_raises')
        dcf = out['DCF']
        lost = [a.name for a in portf.assets if a.name not in dcf.columns]
        if lost:
            viol('%s: no cash flow reported for asset %r (columns %s)' % (tag, lost[0], [str(c) for c in dcf.columns][:8]), variant=tag, what='dcf')
        elif abs(float(np.nansum(np.asarray(dcf[[a.name for a in portf.assets]].values, dtype=float))) - V) > 1e-6 * max(1.0, abs(V), float(np.nansum(np.abs(np.asarray(dcf.values, dtype=float))))):
            viol('%s: the cash flows reported for the assets sum to %.8g, value %.8g' % (tag, float(np.nansum(np.asarray(dcf.values, dtype=float))), V), variant=tag, what='dcf')

    for tag, sv, order in variants:
        check(tag, sv, order, viol)

    for opts in doors:
        # names are blamed only for what the door does not do to the portfolio under its ORIGINAL names as well (what a door does
        # to a portfolio whatever it is called is the subject of C11; recorded as a feature)
        d = opts['door']
        tag = 'rename-door:%s' % (d + ('(file)' if d == 'json' and opts.get('file') else '') + ('(own grid)' if d == 'json' and opts.get('own_grid') else ''))
        feats.append('door:' + d)
        got, ref = [], []
        coll = lambda acc: (lambda msg, **facts: acc.append({'oracle': 'names_and_order', 'detail': msg, 'facts': dict(facts, door=d)}))
        if d == 'run_from_json':
            check_run_json(tag, opts, True, coll(got))
            if got:
                check_run_json(tag + ' [original names]', opts, False, coll(ref))
        else:
            check(tag, ('door', opts, True), ident, coll(got), light=True)
            if got:
                check(tag + ' [original names]', ('door', opts, False), ident, coll(ref), light=True)
        if ref:
            feats.append('door-changes-original:%s:%s' % (d, ref[0]['facts'].get('what')))
        whats = set(v['facts'].get('what') for v in ref)
        r['violations'] += [v for v in got if v['facts'].get('what') not in whats]
    r['nontrivial'] = V is not None and nA >= 3 and abs(V) > 1e-9
    r['observed'] = {'value': V, 'assets': nA}
    return r
