"""C18 Nodal prices are supergradients."""
import copy
import random
from fractions import Fraction
import numpy as np
from .. import gen, pf, impl
from ..lean import fs

ID = 'C18'
THEOREMS = [
    ('EAO.Properties.C18', 'EAO.C18.lagrangian_bound', 'weak duality for boxed problems: any sign-correct multiplier vector bounds the value of every relaxed-feasible point'),
    ('EAO.Properties.C18', 'EAO.C18.lagrangian_affine', 'the bound is affine in a row\'s right-hand side with slope the row\'s multiplier'),
    ('EAO.Properties.C18', 'EAO.C18.price_supergradient', 'for multipliers carrying minus the reported prices on the nodal rows: every point feasible after an injection d at a (node, step) has value <= V + price*d + gap, gap = exact Lagrangian gap of the reported optimum'),
]
COMPONENTS = ['nodalPrices vs io.extract_output["prices"]', 'assemble nodal record', 'exact Lagrangian gap of the reported price table (driver op lagrangian)']
RULE = ('random LP portfolios (no booleans); per scenario the exact gap of the reported price table and up to 6 re-optimisations with perturbed nodal right-hand side (both signs); '
        'non-trivial = some reported nodal price differs across steps or nodes and at least one perturbed problem is feasible; distinct by scenario hash')
ASSUMPTIONS = ['tolerance 2e-6 * max(1,|V|) on the exact gap and on the re-optimised values (solver accuracy)']
EXPLANATION = 'price_supergradient reduces the property to gap = 0; the run evaluates the gap of the REPORTED table exactly (rationals) and cross-checks by re-optimisation'


def scenarios(seed, tier):
    n = 500 if tier == 'quick' else 3000
    rnd = random.Random(seed * 7919 + 18)
    for i in range(n):
        # every fifth case on a zone-aware grid, half of them across a daylight-saving switch (a repeated or missing local hour)
        import pandas as pd
        dstc = (i % 5 == 1)
        solver_i = [None, None, None, 'SCIPY', None, 'CLARABEL', None, 'SCS', None, None, 'SCS', None][i % 12]
        s = gen.gen_portfolio(random.Random(rnd.getrandbits(48)), tmax=(8 if not dstc else 11) if tier == 'quick' else 14, allow_mip=False,
                              tz_prob=0.05 if not dstc else 1.0, tmin=2 if not dstc else 8,
                              grids=None if not dstc else [('h', 'h', pd.Timedelta(hours=1)), ('h', 'h', pd.Timedelta(hours=1)), ('2h', 'h', pd.Timedelta(hours=2))],
                              kinds=['simple', 'contract', 'transport', 'ext_transport', 'storage', 'storage2', 'multi', 'orderbook', 'scaled', 'structured'])
        if i % 3 == 2:
            # uncoupled portfolio, also run split (some with nothing active in the first part of the horizon)
            r3 = random.Random(rnd.getrandbits(48))
            s = gen.gen_portfolio(r3, tmax=9 if tier == 'quick' else 14, allow_mip=False, tz_prob=0.05, kinds=['simple', 'transport', 'multi_nt', 'simple'],
                                  allow_periodic=False, allow_freq=False)
            s['split'] = r3.choice([2, 3])
            if r3.random() < 0.5:
                T = s['grid']['T_nominal']
                st = gen.P(s['grid'], r3.randint(max(1, T // 2), max(1, T - 1)))
                if gen.ok_local(st, s['grid']):
                    for a in s['assets']:
                        a['args']['start'] = gen.dtv(st)
                        a['args'].pop('end', None)
        if solver_i is not None and not s.get('split'):
            s['solver'] = solver_i
        yield 'gen%d' % i, s


def multipliers(op, res, prices_by_pair):
    """sign-correct y in row order: solver duals on U/L/S rows, minus the REPORTED price on nodal rows"""
    cnt = {'U': 0, 'L': 0, 'S': 0, 'N': 0}
    y = []
    for k in op.cType:
        i = cnt[k]
        cnt[k] += 1
        if k == 'N':
            t, n = op.map_nodal_restr[i]
            y.append(-float(prices_by_pair[(int(t), str(n))]))
            continue
        d = res.duals.get(k)
        v = float(np.atleast_1d(d)[i]) if d is not None else 0.0
        if k == 'U':
            y.append(max(0.0, v))
        elif k == 'L':
            y.append(min(0.0, -v))
        else:
            y.append(v)
    return y


def run_case(scn, drv):
    r = {'evaluated': 1, 'nontrivial': False, 'features': [], 'disagreements': [], 'violations': []}
    feats = r['features']
    for a in scn['assets']:
        feats.append('asset:' + a['type'])
    try:
        rec = pf.setup_mono(scn)
    except Exception as e:
        feats.append('setup-error:' + impl.err_class(e))
        return r
    op = rec['op']
    if pf.is_mip(op):
        feats.append('skip:mip')
        return r
    r['disagreements'] += pf.corr_assemble(rec, drv, aspects=('nodalrows', 'nodal'))
    solver = scn.get('solver')
    try:
        pf.solve_rec(rec, solver=solver)
    except Exception as e:
        feats.append('solver-exception:%s:%s' % (solver, type(e).__name__))
        return r
    feats.append('solver:%s' % solver)
    res = rec['res']
    if isinstance(res, str):
        feats.append('unsolved:' + res)
        return r
    if res.duals is None or res.duals.get('N') is None:
        feats.append('no-duals')
        return r
    r['disagreements'] += pf.corr_readout(rec, drv, what=('prices',))
    out = rec['out']
    tg = rec['tg']
    V = float(res.value)
    tol = 2e-6 * max(1.0, abs(V), float(np.abs(op.c).max()) * float(np.abs(res.x).max() if len(res.x) else 1))
    if solver in ('SCS', 'OSQP'):
        tol = tol * 5000.0 + 0.05 * max(1.0, float(np.abs(op.c).max()))    # first-order solvers: values and duals to about 1e-3 .. 1e-2 relative
    pr = out['prices']
    prices_by_pair = {}
    for (t, n) in op.map_nodal_restr:
        col = 'nodal price: ' + str(n)
        if col not in pr.columns:
            r['violations'].append({'oracle': 'nodal_price_table', 'detail': 'no price column for node %s' % n, 'facts': {'what': 'missing_column'}})
            return r
        prices_by_pair[(int(t), str(n))] = float(pr[col].values[int(t)])
    # reading the output a second time from the same result object gives the same table
    try:
        import eaopack as eao
        with impl.Quiet():
            out2 = eao.io.extract_output(rec['portf'], op, res, rec['prices'])
        for (t, n), v in prices_by_pair.items():
            w = float(out2['prices']['nodal price: ' + str(n)].values[int(t)])
            if abs(w - v) > 1e-9 * max(1.0, abs(v)):
                r['violations'].append({'oracle': 'nodal_price_table', 'detail': 'second extraction of the same result reports nodal price %.8g at node %s step %d, the first %.8g' % (w, n, t, v), 'facts': {'what': 'second_extraction'}})
                break
    except Exception as e:
        r['violations'].append({'oracle': 'nodal_price_table', 'detail': 'second extraction of the same result raises %s' % type(e).__name__, 'facts': {'what': 'second_extraction_raises'}})
    # exact gap of the reported table
    opj = rec.get('op_json') or impl.problem_json(op)
    y = multipliers(op, res, prices_by_pair)
    m = drv.ok({'op': 'lagrangian', 'problem': opj, 'y': [fs(v) for v in y]})
    if not m['signok']:
        r['disagreements'].append({'component': 'lagrangian', 'detail': 'multiplier vector not sign-correct'})
    gap = float(Fraction(m['ub']) - Fraction(V))
    r['observed'] = {'value': V, 'exact_gap_of_reported_prices': gap, 'n_nodal_rows': len(op.map_nodal_restr)}
    if gap > tol:
        r['violations'].append({'oracle': 'nodal_price_gap', 'detail': 'the reported nodal prices leave an exact Lagrangian gap of %.6g (value %.8g, tolerance %.2g): they are not marginal values of the optimum' % (gap, V, tol),
                                'facts': {'what': 'gap'}})
    # perturbation oracle
    rnd = random.Random(len(op.c) * 31 + len(op.cType))
    Nrows = [i for i, k in enumerate(op.cType) if k == 'N']
    feasible_pert = 0
    for _ in range(min(3, len(Nrows))):
        k = rnd.randrange(len(Nrows))
        t, n = op.map_nodal_restr[k]
        price = prices_by_pair[(int(t), str(n))]
        for delta in (0.25, -0.25):
            op2 = copy.deepcopy(op)
            op2.b = np.array(op2.b, dtype=float)
            op2.b[Nrows[k]] = -delta     # injection delta at the node: the assets together take delta out
            res2 = impl.solve(op2)
            r['evaluated'] += 1
            if isinstance(res2, str):
                continue
            feasible_pert += 1
            if res2.value > V + price * delta + tol:
                r['violations'].append({'oracle': 'nodal_price_perturbation',
                                        'detail': 'injection %+g at node %s step %d: re-optimised value %.8g exceeds V + price*d = %.8g + %.6g*%g = %.8g' % (
                                            delta, n, t, res2.value, V, price, delta, V + price * delta),
                                        'facts': {'what': 'supergradient', 'sign': 'pos' if delta > 0 else 'neg'}})
    # split optimisation: prices are reported at ORIGINAL steps; with nothing coupling the intervals the price table of the
    # split run must itself be a set of marginal values of the unsplit optimum (exact gap with the split table)
    if scn.get('split'):
        try:
            rs = pf.setup_split(scn, pf.split_interval(scn, tg, parts=scn['split']))
            pf.solve_rec(rs)
            r['evaluated'] += 1
            feats.append('split')
            if not isinstance(rs['res'], str) and rs['res'].duals is not None and rs['res'].duals.get('N') is not None:
                prs = rs['out']['prices']
                pb = {}
                ok = True
                for (t, n) in op.map_nodal_restr:
                    col = 'nodal price: ' + str(n)
                    v = prs[col].values[int(t)] if col in prs.columns else float('nan')
                    if v != v:
                        r['violations'].append({'oracle': 'nodal_price_split', 'detail': 'split run reports no nodal price for node %s step %d although there is dispatch' % (n, t), 'facts': {'what': 'missing_price'}})
                        ok = False
                        break
                    pb[(int(t), str(n))] = float(v)
                if ok and abs(float(rs['res'].value) - V) <= tol:
                    y2 = multipliers(op, res, pb)
                    m2 = drv.ok({'op': 'lagrangian', 'problem': opj, 'y': [fs(v) for v in y2]})
                    gap2 = float(Fraction(m2['ub']) - Fraction(V))
                    if gap2 > 5 * tol:
                        r['violations'].append({'oracle': 'nodal_price_split', 'detail': 'the nodal prices reported by the split run (same optimal value, nothing couples the intervals) leave a Lagrangian gap of %.6g in the unsplit problem: they sit at wrong steps or nodes' % gap2,
                                                'facts': {'what': 'split_gap'}})
        except Exception as e:
            feats.append('split-error:' + impl.err_class(e))
    vals = list(prices_by_pair.values())
    r['nontrivial'] = len(set(round(v, 6) for v in vals)) >= 2 and feasible_pert > 0
    feats.append('solved')
    return r
