"""C18 Nodal prices are supergradients."""
import copy
import random
from fractions import Fraction
import numpy as np
import pandas as pd
from .. import gen, pf, impl
from ..lean import fs

ID = 'C18'
THEOREMS = [
    ('EAO.Properties.C18', 'EAO.C18.lagrangian_bound', 'weak duality for boxed problems: any sign-correct multiplier vector bounds the value of every relaxed-feasible point'),
    ('EAO.Properties.C18', 'EAO.C18.lagrangian_affine', 'the bound is affine in a row\'s right-hand side with slope the row\'s multiplier'),
    ('EAO.Properties.C18', 'EAO.C18.price_supergradient', 'for multipliers carrying minus the reported prices on the nodal rows: every point feasible after an injection d at a (node, step) has value <= V + price*d + gap, gap = exact Lagrangian gap of the reported optimum'),
]
from ..comp import pricesplit as PS
from ..comp import pricelive as PL
THEOREMS = THEOREMS + PS.THEOREMS_C18_SPLIT
COMPONENTS = ['nodalPrices vs io.extract_output["prices"]', 'assemble nodal record', 'exact Lagrangian gap of the reported price table (driver op lagrangian)',
              'nodal record: as many rows of type N as entries of map_nodal_restr, all after the last asset row (else duals[N] cannot be read along the record)',
              'held problem object vs a freshly constructed OptimProblem with the same data (stream live*, comp/pricelive.py)']
RULE = ('random LP portfolios (no booleans), plus a stream of portfolios with MIXED discount rates (some assets wacc = 0, some not, list order shuffled) on horizons of 10-40 steps of up to a day, '
        'plus a stream of portfolios with STRUCTURES (stream struct*): hubs with markets and other assets at 1-3 outer nodes and one or two StructuredAssets wrapping a sub-system with its own price level '
        '(own internal nodes, local priced contracts, loads, storages, limited transports) that has no node to the outside (nodes = [], an island), one, or several external nodes, '
        'also nested in each other (a structure or an island inside a structure), some with a window of their own; '
        'per scenario the exact gap of the reported price table, up to 6 re-optimisations with perturbed nodal right-hand side (both signs) on a copy of the assembled problem, '
        'and 2-4 seed-drawn (node, step, d) for which the portfolio is RE-BUILT by the real code - the same asset objects plus a contract injecting the energy d in [t, t+1) at the node, '
        'set up on the same Timegrid object with the same prices - and re-optimised (statement of the property itself); '
        'plus a stream of CALL SEQUENCES ON THE HELD PROBLEM OBJECT (stream live*, comp/pricelive.py): a small LP portfolio is set up and optimised, then - as a user does who holds the OptimProblem - '
        'the right-hand side of a seed-drawn nodal row is lowered by d IN PLACE (item assignment, in-place subtraction, slice assignment) or by binding a new array to op.b, and THE SAME OBJECT '
        '(or a deepcopy / a pickle round trip / an attribute-wise copy of it taken after one or more solves) is optimised again, with a drawn solver; both signs at one (node, step) with the '
        'right-hand side restored in between (in place or by a new array, with or without a solve), single injections, injections that are kept (the injected problem becomes the base whose own '
        'prices are judged next); in between other data a sensitivity study touches are changed the same ways - a cost, a lower / upper bound, the right-hand side or a coefficient of an asset row - '
        'and the prices are read again from the held object (2-4 blocks per case, 240 cases quick); '
        'non-trivial = some reported nodal price differs across steps or nodes and at least one perturbed problem is feasible; distinct by scenario hash')
ASSUMPTIONS = ['tolerance 2e-6 * max(1,|V|) on the exact gap and on the re-optimised values (solver accuracy)',
               'stream live*: edits keep the problem well formed (shapes, l <= u); in-place edits only on writeable float arrays; an edit that leaves no optimum is taken back; where exactly one of '
               'held object / fresh problem reports an optimum the pair is repeated with HiGHS before it counts']
EXPLANATION = ('price_supergradient reduces the property to gap = 0 for the ASSEMBLED problem; the run evaluates the gap of the REPORTED table exactly (rationals), cross-checks by re-optimisation '
               'of the perturbed assembled problem, and evaluates the statement itself on the real code: V(d) of the re-built portfolio with an injection asset against V(0) + price*d '
               '(this also covers what the certificate cannot see: a re-build of the same objects that does not reproduce the original problem). '
               'Rows of type N which the record does not list (none in a consistent problem; reported as a broken tie, component nodal record) are treated as plain equalities '
               'with the solver\'s dual, the reported prices sit on the rows the portfolio itself appended. '
               'Stream live*: the statement is evaluated for the re-optimisation a user gets from the object he holds - oracle nodal_price_live: value returned by optimize() of the held object '
               '(and of a freshly constructed OptimProblem carrying the same data) <= V + price*d, V and price from the last solve of the held object without the injection; '
               'nodal_price_reoptimisation: the held object is optimised as it stands (same value as the fresh problem with the same data and solver; value back at V after the right-hand side is restored); '
               'nodal_price_gap on every price table read from the held object, against the data it holds at that time (price_supergradient applies to the problem as it stands at the time of the call). '
               'Not generated: LinkedAsset (needs a boolean variable, outside the LP scope of the property)')
INJ_NAME = 'c18_injection'
DISC_GRIDS = [('d', 'd', pd.Timedelta(days=1)), ('d', 'h', pd.Timedelta(days=1)), ('d', 'd', pd.Timedelta(days=1)), ('6h', 'd', pd.Timedelta(hours=6)),
              ('4h', 'h', pd.Timedelta(hours=4)), ('h', 'h', pd.Timedelta(hours=1))]
LP_KINDS = ['simple', 'contract', 'transport', 'ext_transport', 'storage', 'storage2', 'multi', 'orderbook', 'scaled', 'structured']


def draw_injections(rnd, k):
    """k seed-drawn injections: position u in [0,1) within the list of (step, node) pairs that carry a nodal row (known only after
    the set-up) and a small energy amount d of either sign"""
    return [[rnd.random(), rnd.choice([1, -1]) * rnd.choice([0.125, 0.25, 0.25, 0.5])] for _ in range(k)]


def mixed_wacc(s, rnd):
    """discount rates per top-level asset: some 0, some not (at least one of each where there are two assets that take a rate),
    and the order of the asset list shuffled, so that a discounted asset may come before or after an undiscounted one"""
    tgt = [a for a in s['assets'] if a['type'] != 'OrderBook']
    ws = [rnd.choice([0.0, 0.0, 0.05, 0.1, 0.5, 1.0]) for _ in tgt]
    if len(tgt) >= 2:
        i, j = rnd.sample(range(len(tgt)), 2)
        ws[i] = 0.0
        if ws[j] == 0.0:
            ws[j] = rnd.choice([0.05, 0.1, 0.5, 1.0])
    for a, w in zip(tgt, ws):
        for args in ([a['args'], a['base']['args']] if a['type'] == 'ScaledAsset' else [a['args']]):
            if w:
                args['wacc'] = w
            else:
                args.pop('wacc', None)
    rnd.shuffle(s['assets'])
    s['mixed_wacc'] = sorted(set(ws))


STRUCT_FORMS = ['island', 'one', 'several', 'nested', 'island', 'nested_island', 'one', 'island_pair', 'several', 'nested']
STRUCT_OUTER_KINDS = ['simple', 'contract', 'transport', 'storage', 'multi', 'scaled', 'structured', 'simple']


def gen_structure(rnd, g, prices, T, name, outside, n_ext, nest=None, depth=0):
    """spec of a StructuredAsset wrapping a sub-system with its OWN price level: one or two internal nodes, at each of them a local
    priced contract (own price array on a level of its own) and possibly a fixed load, a storage or a contract with takes; limited
    transports between the internal nodes and to each of the `n_ext` external nodes drawn from `outside` (n_ext = 0: nodes = [], a closed
    sub-system without any connection, an "island"); `nest` = None | 'any' | 'island': one of the wrapped assets is itself such a
    structure, connected to nodes of this one (or to none).  Returns (spec, all internal node names incl. those of nested structures)"""
    ext = rnd.sample(outside, min(n_ext, len(outside)))
    inner_nodes = ['%s_i%d' % (name, k + 1) for k in range(rnd.choice([1, 1, 2]))]
    all_inner = list(inner_nodes)
    inner = []
    level = rnd.choice([-3.0, 2.0, 6.0, 12.0, 25.0, 40.0])
    for k, nd in enumerate(inner_nodes):
        key = 'p%d' % len(prices)                      # the local price: a level of its own plus a profile
        prices[key] = [level + gen.q8(rnd, 0, 4) for _ in range(T)]
        mode = rnd.choice(['both', 'both', 'buy', 'sell'])
        lo, hi = -gen.q8(rnd, 0.5, 6), gen.q8(rnd, 0.5, 6)
        if mode == 'buy':
            lo = 0.0
        elif mode == 'sell':
            hi = 0.0
        loc = {'type': 'SimpleContract', 'name': '%s_loc%d' % (name, k + 1), 'nodes': [nd], 'args': {'min_cap': lo, 'max_cap': hi, 'price': key}}
        if rnd.random() < 0.3:
            loc['args']['extra_costs'] = gen.q8(rnd, 0.125, 1)
        if rnd.random() < 0.15:
            loc['args']['wacc'] = rnd.choice([0.05, 0.5])
        inner.append(loc)
        r = rnd.random()
        if r < 0.45:
            # a fixed load (or a fixed infeed) which the local contract can cover
            if hi > 0 and (lo == 0.0 or rnd.random() < 0.6):
                q = -gen.q8(rnd, 0.125, hi)
            else:
                q = gen.q8(rnd, 0.125, -lo)
            inner.append({'type': 'SimpleContract', 'name': '%s_ld%d' % (name, k + 1), 'nodes': [nd], 'args': {'min_cap': q, 'max_cap': q}})
        elif r < 0.6:
            inner.append(gen.gen_storage(rnd, g, prices, T, '%s_s%d' % (name, k + 1), [nd], False, False))
        elif r < 0.75:
            inner.append(gen.gen_contract(rnd, g, prices, T, '%s_c%d' % (name, k + 1), nd))
        elif r < 0.85:
            # a second priced offer at the node: the marginal value there switches between the two price arrays
            inner.append(gen.gen_simple_contract(rnd, g, prices, T, '%s_o%d' % (name, k + 1), nd))
    if len(inner_nodes) == 2:
        tr = gen.gen_transport(rnd, g, prices, T, name + '_ti', inner_nodes[0], inner_nodes[1])
        tr['args'].pop('costs_time_series', None)
        inner.append(tr)
    for k, e in enumerate(ext):
        a, b = rnd.choice(inner_nodes), e
        if rnd.random() < 0.3:
            a, b = b, a
        tr = gen.gen_transport(rnd, g, prices, T, '%s_tx%d' % (name, k + 1), a, b)
        tr['args'].pop('costs_time_series', None)
        if rnd.random() < 0.3:
            gen.put_window(tr['args'], gen.window(rnd, g, kinds=['inside', 'start_only', 'end_only', 'straddle_end', 'covering']))
        inner.append(tr)
    if ext and rnd.random() < 0.3:
        inner.append(gen.gen_simple_contract(rnd, g, prices, T, name + '_d', rnd.choice(ext)))
    if nest is not None and depth < 2:
        avail = inner_nodes + ext
        ne = 0 if nest == 'island' else rnd.choice([1, 1, 2, 0])
        sub, sub_nodes = gen_structure(rnd, g, prices, T, name + 'n', avail, ne, nest=('any' if rnd.random() < 0.25 else None), depth=depth + 1)
        inner.insert(rnd.randint(0, len(inner)), sub)
        all_inner += sub_nodes
    args = {}
    if rnd.random() < 0.25:
        gen.put_window(args, gen.window(rnd, g, kinds=['inside', 'start_only', 'end_only', 'straddle_start', 'straddle_end', 'covering', 'equal']))
    spec = {'type': 'StructuredAsset', 'name': name, 'nodes': ext, 'inner': inner, 'args': args, 'inner_nodes': all_inner}
    return spec, all_inner


def struct_scenario(r, form, tier):
    """a portfolio with hubs (markets and other assets at 1-3 outer nodes) and one or two structures of the given form"""
    s = gen.gen_portfolio(r, tmin=2, tmax=9 if tier == 'quick' else 14, allow_mip=False, tz_prob=0.1, kinds=STRUCT_OUTER_KINDS, nodes_max=3, max_assets=3,
                          market_prob=1.0)
    g, prices = s['grid'], s['prices']
    from .. import scen
    T = scen.make_grid(g).T
    outer = [n for n in s['nodes'] if not any(n in a.get('inner_nodes', []) for a in s['assets'])]
    if form == 'several' and len(outer) < 2:
        # a second hub with its own market
        outer.append('N%d' % (len(outer) + 1))
        s['nodes'].append(outer[-1])
        s['assets'].append({'type': 'SimpleContract', 'name': 'mktx', 'nodes': [outer[-1]],
                            'args': {'min_cap': -40.0, 'max_cap': 40.0, 'price': gen.price_key(r, prices, T)}})
    plan = {'island': [(0, None)], 'one': [(1, None)], 'several': [(r.choice([2, 2, 3]), None)], 'nested': [(r.choice([1, 1, 2, 0]), 'any')],
            'nested_island': [(r.choice([1, 1, 2]), 'island')], 'island_pair': [(0, None), (r.choice([0, 1]), None)]}[form]
    for k, (n_ext, nest) in enumerate(plan):
        spec, nodes_in = gen_structure(r, g, prices, T, 'isl%d' % (k + 1), outer, n_ext, nest=nest)
        s['assets'].insert(r.randint(0, len(s['assets'])), spec)
        s['nodes'] += [x for x in nodes_in if x not in s['nodes']]
    s['struct_form'] = form
    return s


def struct_features(specs, depth=0):
    """which kinds of structures a scenario holds (for the evidence): by number of external nodes, nesting"""
    out = []
    for a in specs:
        if a['type'] in ('StructuredAsset', 'LinkedAsset'):
            ne = len(a['nodes'])
            out.append('struct:%s%s' % ('nested-' if depth else '', 'island' if ne == 0 else ('ext%d' % ne if ne < 2 else 'ext2+')))
            out += struct_features(a.get('inner', []), depth + 1)
    return out


def scenarios(seed, tier):
    n = 500 if tier == 'quick' else 3000
    rnd = random.Random(seed * 7919 + 18)
    rinj = random.Random(seed * 7919 + 1818)      # own stream for the re-build injections: the portfolio stream stays as it was
    for i in range(n):
        # every fifth case on a zone-aware grid, half of them across a daylight-saving switch (a repeated or missing local hour)
        dstc = (i % 5 == 1)
        solver_i = [None, None, None, 'SCIPY', None, 'CLARABEL', None, 'SCS', None, None, 'SCS', None][i % 12]
        s = gen.gen_portfolio(random.Random(rnd.getrandbits(48)), tmax=(8 if not dstc else 11) if tier == 'quick' else 14, allow_mip=False,
                              tz_prob=0.05 if not dstc else 1.0, tmin=2 if not dstc else 8,
                              grids=None if not dstc else [('h', 'h', pd.Timedelta(hours=1)), ('h', 'h', pd.Timedelta(hours=1)), ('2h', 'h', pd.Timedelta(hours=2))],
                              kinds=['simple', 'contract', 'transport', 'ext_transport', 'storage', 'storage2', 'multi', 'orderbook', 'scaled', 'structured'])
        if i % 3 == 2:
            # uncoupled portfolio, also run split (some with nothing active in the first part of the horizon)
            r3 = random.Random(rnd.getrandbits(48))
            s = gen.gen_portfolio(r3, tmax=9 if tier == 'quick' else 14, allow_mip=False, tz_prob=0.05, kinds=['simple', 'transport', 'multi_nt', 'simple'],
                                  allow_periodic=False, allow_freq=False)
            s['split'] = r3.choice([2, 3])
            if r3.random() < 0.5:
                T = s['grid']['T_nominal']
                st = gen.P(s['grid'], r3.randint(max(1, T // 2), max(1, T - 1)))
                if gen.ok_local(st, s['grid']):
                    for a in s['assets']:
                        a['args']['start'] = gen.dtv(st)
                        a['args'].pop('end', None)
        if solver_i is not None and not s.get('split'):
            s['solver'] = solver_i
        s['inject'] = draw_injections(rinj, 2)
        yield 'gen%d' % i, s
    # mixed discount rates in one portfolio on horizons long enough for discounting to matter (10-40 steps of up to a day);
    # the re-built portfolio of the statement-level oracle shares Timegrid and asset objects with the original one
    rw = random.Random(seed * 7919 + 180018)
    for i in range(n // 3):
        r = random.Random(rw.getrandbits(48))
        s = gen.gen_portfolio(r, tmin=10, tmax=40 if tier == 'quick' else 90, allow_mip=False, tz_prob=0.1, grids=DISC_GRIDS, kinds=LP_KINDS,
                              nodes_max=r.choice([1, 2, 3]), max_assets=4)
        mixed_wacc(s, r)
        s['inject'] = draw_injections(r, r.randint(3, 4))
        yield 'wacc%d' % i, s
    # structures: sub-systems with their own price level wrapped in one asset - without any node to the outside (islands), with one,
    # with several external nodes, nested in each other - next to hubs with markets and other assets
    rs = random.Random(seed * 7919 + 181818)
    for i in range(n // 3):
        r = random.Random(rs.getrandbits(48))
        s = struct_scenario(r, STRUCT_FORMS[i % len(STRUCT_FORMS)], tier)
        if i % 4 == 3:
            s['solver'] = r.choice(['SCIPY', 'CLARABEL'])
        s['inject'] = draw_injections(r, r.randint(2, 3))
        yield 'struct%d' % i, s
    # the price table of split runs against the model of the split read-out; lagrangian_block_sum evaluated exactly on the real
    # interval problems; re-optimisation of single intervals with a perturbed nodal right-hand side (comp/pricesplit.py)
    _rps = random.Random(seed * 104729 + 1818)
    for i in range(60 if tier == 'quick' else 400):
        yield 'ps%d' % i, {'_stream': 'pricesplit', 'case': PS.gen_case(random.Random(_rps.getrandbits(48)))}
    # the re-optimisation done by a user who HOLDS the problem object: optimise, change the right-hand side of a nodal row (or a cost,
    # a bound, an asset row) in place or by replacing the array, optimise the same object (or a deepcopy / pickle of it taken after
    # a solve) again; judged by the statement itself and against a freshly constructed problem with the same data (comp/pricelive.py)
    _rpl = random.Random(seed * 104729 + 181801)
    for i in range(240 if tier == 'quick' else 1500):
        yield 'live%d' % i, {'_stream': 'live', 'case': PL.gen_case(random.Random(_rpl.getrandbits(48)), tier)}


def multipliers(op, res, prices_by_pair):
    """sign-correct y in row order: solver duals on U/L/S rows, minus the REPORTED price on nodal rows.
    The nodal rows are the ones the portfolio appends after all asset rows, one per entry of map_nodal_restr; a row of type 'N' before
    them (none in a consistent problem, see the 'nodal record' tie) is an equality like any other and gets the solver's dual"""
    cnt = {'U': 0, 'L': 0, 'S': 0, 'N': 0}
    extra = max(0, op.cType.count('N') - len(op.map_nodal_restr))
    y = []
    for k in op.cType:
        i = cnt[k]
        cnt[k] += 1
        if k == 'N' and i >= extra:
            t, n = op.map_nodal_restr[i - extra]
            y.append(-float(prices_by_pair[(int(t), str(n))]))
            continue
        d = res.duals.get(k)
        v = float(np.atleast_1d(d)[i]) if d is not None else 0.0
        if k == 'U':
            y.append(max(0.0, v))
        elif k == 'L':
            y.append(min(0.0, -v))
        else:
            y.append(v)
    return y


def rebuilt_value(rec, node, t, d, solver=None):
    """optimal value of the portfolio of rec re-built by the real code with an extra injection of the ENERGY d at (node, step t):
    a new Portfolio from the same asset objects plus a SimpleContract over [t, t+1) with min_cap = max_cap = d / dt[t]
    (capacities are rates, the dispatch variable and the nodal balance are energy per step), set up on the same Timegrid object with
    the same prices.  Returns the value, or a short string where there is no value to compare (infeasible, set-up refused, ...)"""
    import eaopack as eao
    tg, portf = rec['tg'], rec['portf']
    start = tg.timepoints[t]
    end = tg.timepoints[t + 1] if t + 1 < tg.T else tg.end      # grid points carry the zone of the grid: no ambiguous local time
    cap = d / float(tg.dt[t])
    try:
        with impl.Quiet():
            inj = eao.assets.SimpleContract(name=INJ_NAME, nodes=portf.nodes[node], start=start, end=end, min_cap=cap, max_cap=cap)
            p2 = eao.portfolio.Portfolio(list(portf.assets) + [inj])
            op2 = p2.setup_optim_problem(rec['prices'], tg)
    except Exception as e:
        return 'setup-error:' + impl.err_class(e)
    # the injection arrived as specified: one more variable, fixed to d, in one more entry of the nodal row of (t, node)
    n0 = len(rec['op'].c)
    if len(op2.c) != n0 + 1 or abs(float(op2.l[-1]) - d) > 1e-9 or abs(float(op2.u[-1]) - d) > 1e-9 or float(op2.c[-1]) != 0.0 \
            or list(op2.cType) != list(rec['op'].cType) or [(int(a), str(b)) for a, b in op2.map_nodal_restr] != [(int(a), str(b)) for a, b in rec['op'].map_nodal_restr]:
        return 'injection-not-as-specified'
    if pf.is_mip(op2):
        return 'mip'
    try:
        res2 = impl.solve(op2, solver=solver)
    except Exception as e:
        if type(e).__name__ != 'SolverError':
            raise
        try:
            res2 = impl.solve(op2, solver='SCIPY')
        except Exception:
            return 'solver-error'
    if isinstance(res2, str):
        return 'unsolved'
    return float(res2.value)


def run_case(scn, drv):
    if isinstance(scn, dict) and scn.get('_stream') == 'pricesplit':
        st, ri = PS.run_case(scn['case'], drv)
        return {'evaluated': 1, 'nontrivial': st.get('status') == 'ok' and st.get('intervals', 0) > 1, 'features': ['stream:pricesplit', 'status:' + str(st.get('status'))],
                'disagreements': [{'component': 'split price table', 'detail': d} for d in st['disagreements']], 'violations': st['violations']}
    if isinstance(scn, dict) and scn.get('_stream') == 'live':
        return PL.run_case(scn['case'], drv, multipliers)
    r = {'evaluated': 1, 'nontrivial': False, 'features': [], 'disagreements': [], 'violations': []}
    feats = r['features']
    for a in scn['assets']:
        feats.append('asset:' + a['type'])
    try:
        rec = pf.setup_mono(scn)
    except Exception as e:
        feats.append('setup-error:' + impl.err_class(e))
        return r
    op = rec['op']
    if pf.is_mip(op):
        feats.append('skip:mip')
        return r
    feats += struct_features(scn['assets'])
    r['disagreements'] += pf.corr_assemble(rec, drv, aspects=('nodalrows', 'nodal'))
    # the record which the price read-out walks along has one entry per row of type 'N', in row order, and these rows are the last ones
    # (C07's statement; without it res.duals['N'][i] is not the multiplier of the row of map_nodal_restr[i] and the read-out is meaningless)
    nN, nrec = op.cType.count('N'), len(op.map_nodal_restr)
    ntail = len(op.cType) - len(op.cType.rstrip('N'))
    if nN != nrec or ntail != nN:
        r['disagreements'].append({'component': 'nodal record', 'detail': 'the assembled problem has %d rows of type N (%d of them after the last asset row) but map_nodal_restr lists %d (step, node) pairs: '
                                   'duals[\'N\'] cannot be read along the record' % (nN, ntail, nrec)})
        feats.append('nodal-record-mismatch')
        if nN < nrec:
            return r
    solver = scn.get('solver')
    try:
        pf.solve_rec(rec, solver=solver)
    except Exception as e:
        feats.append('solver-exception:%s:%s' % (solver, type(e).__name__))
        return r
    feats.append('solver:%s' % solver)
    res = rec['res']
    if isinstance(res, str):
        feats.append('unsolved:' + res)
        return r
    if res.duals is None or res.duals.get('N') is None:
        feats.append('no-duals')
        return r
    r['disagreements'] += pf.corr_readout(rec, drv, what=('prices',))
    out = rec['out']
    tg = rec['tg']
    V = float(res.value)
    tol = 2e-6 * max(1.0, abs(V), float(np.abs(op.c).max()) * float(np.abs(res.x).max() if len(res.x) else 1))
    if solver in ('SCS', 'OSQP'):
        tol = tol * 5000.0 + 0.05 * max(1.0, float(np.abs(op.c).max()))    # first-order solvers: values and duals to about 1e-3 .. 1e-2 relative
    pr = out['prices']
    prices_by_pair = {}
    for (t, n) in op.map_nodal_restr:
        col = 'nodal price: ' + str(n)
        if col not in pr.columns:
            r['violations'].append({'oracle': 'nodal_price_table', 'detail': 'no price column for node %s' % n, 'facts': {'what': 'missing_column'}})
            return r
        prices_by_pair[(int(t), str(n))] = float(pr[col].values[int(t)])
        if prices_by_pair[(int(t), str(n))] != prices_by_pair[(int(t), str(n))]:
            r['violations'].append({'oracle': 'nodal_price_table', 'detail': 'no price (NaN) reported for node %s in step %d although the nodal restriction of that node and step exists' % (n, int(t)), 'facts': {'what': 'missing_cell'}})
            return r
    # reading the output a second time from the same result object gives the same table
    try:
        import eaopack as eao
        with impl.Quiet():
            out2 = eao.io.extract_output(rec['portf'], op, res, rec['prices'])
        for (t, n), v in prices_by_pair.items():
            w = float(out2['prices']['nodal price: ' + str(n)].values[int(t)])
            if abs(w - v) > 1e-9 * max(1.0, abs(v)):
                r['violations'].append({'oracle': 'nodal_price_table', 'detail': 'second extraction of the same result reports nodal price %.8g at node %s step %d, the first %.8g' % (w, n, t, v), 'facts': {'what': 'second_extraction'}})
                break
    except Exception as e:
        r['violations'].append({'oracle': 'nodal_price_table', 'detail': 'second extraction of the same result raises %s' % type(e).__name__, 'facts': {'what': 'second_extraction_raises'}})
    # exact gap of the reported table
    opj = rec.get('op_json') or impl.problem_json(op)
    y = multipliers(op, res, prices_by_pair)
    m = drv.ok({'op': 'lagrangian', 'problem': opj, 'y': [fs(v) for v in y]})
    if not m['signok']:
        r['disagreements'].append({'component': 'lagrangian', 'detail': 'multiplier vector not sign-correct'})
    gap = float(Fraction(m['ub']) - Fraction(V))
    r['observed'] = {'value': V, 'exact_gap_of_reported_prices': gap, 'n_nodal_rows': len(op.map_nodal_restr)}
    if gap > tol:
        r['violations'].append({'oracle': 'nodal_price_gap', 'detail': 'the reported nodal prices leave an exact Lagrangian gap of %.6g (value %.8g, tolerance %.2g): they are not marginal values of the optimum' % (gap, V, tol),
                                'facts': {'what': 'gap'}})
    # perturbation oracle
    rnd = random.Random(len(op.c) * 31 + len(op.cType))
    Nrows = [i for i, k in enumerate(op.cType) if k == 'N']
    Nrows = Nrows[len(Nrows) - len(op.map_nodal_restr):]       # the portfolio's own nodal rows
    feasible_pert = 0
    for _ in range(min(3, len(Nrows))):
        k = rnd.randrange(len(Nrows))
        t, n = op.map_nodal_restr[k]
        price = prices_by_pair[(int(t), str(n))]
        for delta in (0.25, -0.25):
            op2 = copy.deepcopy(op)
            op2.b = np.array(op2.b, dtype=float)
            op2.b[Nrows[k]] = -delta     # injection delta at the node: the assets together take delta out
            res2 = impl.solve(op2)
            r['evaluated'] += 1
            if isinstance(res2, str):
                continue
            feasible_pert += 1
            if res2.value > V + price * delta + tol:
                r['violations'].append({'oracle': 'nodal_price_perturbation',
                                        'detail': 'injection %+g at node %s step %d: re-optimised value %.8g exceeds V + price*d = %.8g + %.6g*%g = %.8g' % (
                                            delta, n, t, res2.value, V, price, delta, V + price * delta),
                                        'facts': {'what': 'supergradient', 'sign': 'pos' if delta > 0 else 'neg'}})
    # statement-level oracle on the real code: the portfolio re-built from the SAME asset objects plus an injection asset on the
    # SAME Timegrid object, re-optimised: V(d) <= V(0) + price * d
    mixed = len(scn.get('mixed_wacc', [])) >= 2 or len(set(float(getattr(a, 'wacc', 0) or 0) for a in rec['portf'].assets)) >= 2
    if mixed:
        feats.append('mixed-wacc')
    for u, d in scn.get('inject', []):
        if not len(op.map_nodal_restr):
            break
        t, n = op.map_nodal_restr[min(len(op.map_nodal_restr) - 1, int(u * len(op.map_nodal_restr)))]
        t, n = int(t), str(n)
        price = prices_by_pair[(t, n)]
        got = rebuilt_value(rec, n, t, float(d), solver)
        r['evaluated'] += 1
        if isinstance(got, str):
            feats.append('rebuild:' + got)
            continue
        feasible_pert += 1
        feats.append('rebuild:solved')
        if got > V + price * d + tol:
            r['violations'].append({'oracle': 'nodal_price_rebuilt',
                                    'detail': 'portfolio re-built from the same asset objects plus a contract injecting %+g at node %s in step %d, set up on the same Timegrid object with the same prices: '
                                              're-optimised value %.10g exceeds V + price*d = %.10g + %.8g*%g = %.10g by %.4g (tolerance %.2g)' % (
                                                  d, n, t, got, V, price, d, V + price * d, got - (V + price * d), tol),
                                    'facts': {'what': 'supergradient_rebuilt', 'sign': 'pos' if d > 0 else 'neg', 'mixed_wacc': bool(mixed)}})
            break
    # split optimisation: prices are reported at ORIGINAL steps; with nothing coupling the intervals the price table of the
    # split run must itself be a set of marginal values of the unsplit optimum (exact gap with the split table)
    if scn.get('split'):
        try:
            rs = pf.setup_split(scn, pf.split_interval(scn, tg, parts=scn['split']))
            pf.solve_rec(rs)
            r['evaluated'] += 1
            feats.append('split')
            if not isinstance(rs['res'], str) and rs['res'].duals is not None and rs['res'].duals.get('N') is not None:
                prs = rs['out']['prices']
                pb = {}
                ok = True
                for (t, n) in op.map_nodal_restr:
                    col = 'nodal price: ' + str(n)
                    v = prs[col].values[int(t)] if col in prs.columns else float('nan')
                    if v != v:
                        r['violations'].append({'oracle': 'nodal_price_split', 'detail': 'split run reports no nodal price for node %s step %d although there is dispatch' % (n, t), 'facts': {'what': 'missing_price'}})
                        ok = False
                        break
                    pb[(int(t), str(n))] = float(v)
                if ok and abs(float(rs['res'].value) - V) <= tol:
                    y2 = multipliers(op, res, pb)
                    m2 = drv.ok({'op': 'lagrangian', 'problem': opj, 'y': [fs(v) for v in y2]})
                    gap2 = float(Fraction(m2['ub']) - Fraction(V))
                    if gap2 > 5 * tol:
                        r['violations'].append({'oracle': 'nodal_price_split', 'detail': 'the nodal prices reported by the split run (same optimal value, nothing couples the intervals) leave a Lagrangian gap of %.6g in the unsplit problem: they sit at wrong steps or nodes' % gap2,
                                                'facts': {'what': 'split_gap'}})
        except Exception as e:
            feats.append('split-error:' + impl.err_class(e))
    vals = list(prices_by_pair.values())
    r['nontrivial'] = len(set(round(v, 6) for v in vals)) >= 2 and feasible_pert > 0
    feats.append('solved')
    return r
