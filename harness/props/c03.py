"""C03 Solver hand-off: feasible, optimal point; failure means infeasible."""
import copy
import random
from fractions import Fraction
import numpy as np
import scipy.sparse as sp
from .. import gen, pf, impl
from ..lean import fs
from .c18 import multipliers

ID = 'C03'
THEOREMS = [
    ('EAO.Properties.C03', 'EAO.C03.translate_equiv', 'the constraint list handed to cvxpy (bounds, one block per occurring row type U, L, S, N, boolean index set from first mapping rows) has exactly the feasible set of the problem'),
    ('EAO.Properties.C03', 'EAO.C03.translate_objective', 'the objective handed over is -c.x'),
    ('EAO.Properties.C03', 'EAO.C03.blockSum_feasible', 'split: feasibility of the block-diagonal sum = feasibility of every interval problem on its slice'),
    ('EAO.Properties.C03', 'EAO.C03.blockSum_value', 'split: value = sum of interval values'),
    ('EAO.Properties.C03', 'EAO.C03.concatVec_block', 'split: the concatenated vector restricted to interval i is the i-th interval solution'),
    ('EAO.Properties.C03', 'EAO.C03.blockSum_optimal', 'split: interval-wise optimal implies optimal for the block sum'),
    ('EAO.Properties.C03', 'EAO.C03.robust_epigraph', 'robust target: the epigraph value is the minimum over the cost samples of -c_s.x'),
    ('EAO.Properties.C03', 'EAO.C03.infeasible_of_negative_bound', 'Farkas certificate: a sign-correct multiplier vector with negative Lagrangian bound of the zero-objective problem proves that bounds + rows have no common point; evaluated exactly per failed LP instance'),
    ('EAO.Properties.C03', 'EAO.C03.infeasible_of_negative_bound_bool', 'hence no feasible point with the boolean flags either'),
    ('EAO.Properties.C18', 'EAO.C18.lagrangian_bound', 'certificate theorem: any sign-correct multiplier vector gives an upper bound on every feasible value (used to certify optimality of what the solver returned)'),
]
COMPONENTS = ['translate vs the cvxpy.Problem actually constructed by OptimProblem.optimize (recorded in the harness process): bounds, blocks, boolean index set and the objective vector',
              'exact Lagrangian certificate (driver op lagrangian) of every LP answer',
              'robust target: objective (the epigraph variable alone) and epigraph rows (one per cost sample, t <= -c_s.x) of the recorded cvxpy.Problem vs the samples fed; '
              'robustObjective of the model (driver op robust_value, exact) at the returned vector vs the objective value the solver reports']
RULE = ('random LP and MIP portfolios plus hand-made problems with boolean variables with non-0/1 bounds and duplicated mapping rows; solvers: default, SCIPY (HiGHS), CLARABEL for LP, SCIP for MIP, and in 30 % of the CLARABEL cases the LP-only solver is kept for a MIP (an exception is no report; a reported failure must mean infeasible); infeasible stream; portfolios in which every variable is pinned by its bounds, balanced or not (comp/fixedpf); '
        'make_soft_problem followed by a plain optimise on the same object; '
        'stream rob: generated portfolio problems and raw problems (LP and MIP, all solvers above) optimised with target=\'robust\' and 1-4 cost samples drawn from the seed as perturbations of the problem\'s own cost vector '
        '(coordinate-wise positive factors, dyadic shifts, sign flips, a mix of these, the own vector among them or not, and the control samples = [c, c]), every oracle applied with "better value" read as '
        '"better worst case over the samples" (reference: independent epigraph LP/MILP with HiGHS on the same arrays) and the reported value held against -c.x with the problem\'s OWN c; '
        'stream again (comp/c03calls): the SAME problem object - hand-made, assembled from a generated portfolio, hand-made SplitOptimProblem, split set-up of a portfolio - is optimised 2-4 times and before each further call '
        '(sometimes before the first) its data are changed as drawn from the seed: right-hand side replaced or edited in place, a matrix coefficient edited in place or the matrix replaced, a row type changed, a row added or removed, '
        'a bound tightened / a variable pinned (in place or by a new array), a cost changed, a boolean flag set or taken back, no change (control), or the call is made on a deepcopy of the object; for split objects the edit goes to one interval, '
        'preferably one without free variable; every call is judged by the oracles of the property against a deep copy of the object taken immediately before the call (problem AS IT IS at the time of the call); '
        'stream split (comp/c03calls): split problems with pinned intervals (l == u), judged as the block sum of their intervals: hand-made from 2-4 raw problems, each interval free or pinned to a verified optimal point, a shifted point, '
        'a fractional value of a variable flagged boolean or a corner of the box; portfolios of pinned assets (comp/fixedpf, balanced or not) split at their interval size; generated portfolios split in 2-3 intervals, solved, and set up '
        'again through setup_split_optim_problem(fix_time_window=...) over whole intervals (prefix / subset / all; window as mask, index array or date) pinned to the earlier solution taken exactly, shifted on 1-3 coordinates, taken from a '
        'make_soft_problem run or with a fractional value on a flagged variable; optionally an edit as in stream again before the first or a last call; '
        'non-trivial = solved problem with >= 1 restriction row binding or boolean variable; distinct by scenario hash')
ASSUMPTIONS = ['optimality of MIP answers is cross-checked against an independent HiGHS MILP run on the same arrays (validation, not certificate)',
               'infeasibility claims: certified exactly (Farkas multipliers found numerically, bound evaluated over the rationals, theorem infeasible_of_negative_bound) when the LP relaxation is infeasible; otherwise (infeasible only through integrality) cross-checked with HiGHS on the same arrays',
               'feasibility tolerance 1e-6 (scaled), value tolerance 2e-6 relative',
               'streams again and split: "the problem at the time of the call" is a deep copy of the object taken immediately before optimize is entered; for a SplitOptimProblem it is the block-diagonal sum of the copied interval '
               'problems (cost vector, bounds, rows and flags of the intervals, which is what SplitOptimProblem.optimize works on; theorems blockSum_feasible, blockSum_value, concatVec_block); failure reports and optimality of these '
               'streams are decided by the verified HiGHS reference run on the arrays of the copy (no exact certificate)']
PARTIAL = ['robust target: that the epigraph optimum is the minimum over the samples of -c_s.x is theorem robust_epigraph about the model\'s robustObjective, which the driver evaluates exactly at every returned vector; '
           'the epigraph rows and the objective actually handed to cvxpy are compared with the samples fed inside the harness (read back from the recorded cvxpy.Problem, exact), not through a model of the hand-off of its own - '
           'translate models the constraint set and the plain objective only; that Results.value of the robust target is -c.x with the problem\'s own c (not the optimised worst case) is the property\'s value clause, checked by the oracle value_identity',
           'the reference optimum of MIP answers (plain and robust target) is a second solver run, not a certificate; for LP answers of the robust target the exact Lagrangian bound is evaluated for the mixture of the samples '
           'given by the solver\'s multipliers of the epigraph rows (worst case(z) <= -(sum lam_s c_s).z <= bound for every feasible z); as for the plain target a bound that does not close is recorded (weak-certificate) and decided by the reference run']
MODELLED = ['infinite bounds (the model\'s bounds are rationals): problems with infinite bounds are decided by the oracles on the real code only (feasibility, value identity, reference optimum)',
            'the numerical solvers (cvxpy back ends): not verified; every answer is checked for feasibility, value identity and by an exact Lagrangian certificate (LP)',
            'the ortools interface is not installed in this sandbox and not exercised',
            'streams again and split run the oracles on the real code only (no hand-off read-back, no Lagrangian certificate for these calls)']
EXPLANATION = ('theorems: the hand-off means exactly Feasible/value; per-instance certificate for what the solver returns; robust target: same constraint set, epigraph rows read back '
               'against the samples, worst case of the returned vector against an independent epigraph LP/MILP, reported value against -c.x of the problem\'s own cost vector; '
               'streams again / split: the statement itself (bounds, rows by type, flags, value = -c.x, no better feasible point, failure only without feasible point) evaluated for every call of a call sequence on a live object '
               'whose data change between the calls, and for split problems with pinned intervals as the block sum of the intervals')


def scenarios(seed, tier):
    n = 480 if tier == 'quick' else 2880
    rnd = random.Random(seed * 7919 + 3)
    for i in range(n):
        r2 = random.Random(rnd.getrandbits(48))
        if i % 6 == 5:
            yield 'raw%d' % i, {'raw': gen_raw(r2)}
            continue
        s = gen.gen_portfolio(r2, tmax=8 if tier == 'quick' else 12, tz_prob=0.05,
                              market_prob=0.95 if i % 5 else 0.3)
        s['solver'] = r2.choice([None, None, 'SCIPY', 'CLARABEL', 'SCIP'])
        # a solver that cannot take the problem (LP-only solver, MIP): an exception makes no report; 'not successful' does
        s['keep_unfit_solver'] = r2.random() < 0.3
        s['soft_first'] = (i % 3 == 0)
        yield 'gen%d' % i, s
    # problems in which every variable is pinned by its bounds, the pinned values balancing or not: a reported success must still
    # satisfy every row (own random stream: the cases above stay what they were)
    from ..comp import fixedpf as F
    rnd2 = random.Random(seed * 7919 + 3 + 500009)
    for i in range(n // 8):
        s = F.gen_case(random.Random(rnd2.getrandbits(48)), tmax=8 if tier == 'quick' else 12)
        s['solver'] = rnd2.choice([None, 'SCIPY', 'CLARABEL'])
        yield 'fixed%d' % i, s
    # robust target (maximise the minimum over cost samples): generated portfolio problems and raw problems, LP and MIP, the samples
    # drawn in run_case from the scenario's own seed as perturbations of the cost vector of the assembled problem (own random
    # stream again)
    rnd3 = random.Random(seed * 7919 + 3 + 700027)
    for i in range(n // 4):
        r3 = random.Random(rnd3.getrandbits(48))
        if i % 3 == 2:
            s = {'raw': gen_raw(r3)}
        else:
            s = gen.gen_portfolio(r3, tmax=8 if tier == 'quick' else 12, tz_prob=0.05, market_prob=0.95 if i % 5 else 0.3)
            s['keep_unfit_solver'] = r3.random() < 0.15
            s['soft_first'] = (i % 4 == 0)
        s['solver'] = r3.choice([None, None, 'SCIPY', 'CLARABEL', 'SCIP'])
        mode = r3.choice(['same', 'scale', 'shift', 'flip', 'mixed', 'mixed'])
        s['robust'] = {'mode': mode, 'k': r3.randint(2 if mode == 'same' else 1, 4), 'own': r3.random() < 0.35, 'seed': r3.getrandbits(32)}
        yield 'rob%d' % i, s
    # live objects (comp/c03calls): the same problem object optimised again after its data were changed (stream again), and split
    # problems with pinned intervals, hand-made or set up from portfolios, also re-set-up with fix_time_window (stream split);
    # own random streams again
    tm = 6 if tier == 'quick' else 10
    rnd4 = random.Random(seed * 7919 + 3 + 900007)
    for i in range(n // 4):
        yield 'again%d' % i, gen_again(random.Random(rnd4.getrandbits(48)), tm)
    rnd5 = random.Random(seed * 7919 + 3 + 1100009)
    for i in range(n // 4):
        yield 'split%d' % i, gen_split(random.Random(rnd5.getrandbits(48)), tm)


def _pf_scn(rnd, tmax):
    return gen.gen_portfolio(rnd, tmax=tmax, tmin=min(4, tmax), tz_prob=0.05, market_prob=0.95 if rnd.random() < 0.8 else 0.3, max_assets=4)


def gen_again(rnd, tmax):
    """stream again: a live problem (hand-made, portfolio, hand-made split, portfolio split) and 2-4 calls with an edit of the
    problem's data before each further call (sometimes before the first as well); the edits are drawn in run_live from 'seed'"""
    from ..comp import c03calls as L
    from ..comp import fixedpf as F
    q = rnd.random()
    if q < 0.3:
        base = {'kind': 'raw', 'raw': gen_raw(rnd)}
    elif q < 0.6:
        base = {'kind': 'pf', 'scn': _pf_scn(rnd, tmax)}
    elif q < 0.8:
        base = L.gen_splitraw(rnd, gen_raw, pin_prob=0.3)
    else:
        base = {'kind': 'splitpf', 'scn': F.gen_case(rnd, tmax=tmax) if rnd.random() < 0.4 else _pf_scn(rnd, tmax), 'parts': rnd.choice([2, 2, 3])}
    return {'stream': 'again', 'base': base, 'solver': rnd.choice([None, None, 'SCIPY', 'CLARABEL', 'SCIP']),
            'calls': rnd.randint(2, 4), 'edit_first': rnd.random() < 0.25, 'seed': rnd.getrandbits(32)}


def gen_split(rnd, tmax):
    """stream split: split problems with pinned intervals - hand-made with drawn pins; portfolios of pinned assets (comp/fixedpf)
    split at their interval size; generated portfolios split, solved, and set up again with fix_time_window over whole intervals"""
    from ..comp import c03calls as L
    from ..comp import fixedpf as F
    q = rnd.random()
    if q < 0.35:
        base = L.gen_splitraw(rnd, gen_raw, pin_prob=0.5)
        refix = False
    elif q < 0.6:
        base = {'kind': 'splitpf', 'scn': F.gen_case(rnd, tmax=tmax), 'parts': 2}
        refix = rnd.random() < 0.4
    else:
        base = {'kind': 'splitpf', 'scn': _pf_scn(rnd, tmax), 'parts': rnd.choice([2, 2, 3])}
        refix = True
    return {'stream': 'split', 'base': base, 'solver': rnd.choice([None, None, 'SCIPY', 'CLARABEL', 'SCIP']), 'refix': refix,
            'edit_first': rnd.random() < 0.2, 'edit_last': rnd.random() < 0.3, 'seed': rnd.getrandbits(32)}


def robust_samples(c, rb, frozen):
    """the cost samples of a robust case: perturbations of the problem's own cost vector c, drawn from the seed of the scenario
    record `rb` (dyadic factors and shifts, so that the model evaluates them exactly).  mode same: k copies of c (control: minimum
    over the samples = -c.x); scale: coordinate-wise positive factors; shift: dyadic shifts of some coordinates (also of cost-free
    ones); flip: sign flips of some coordinates; mixed: one of these per sample; own: c itself is one of the samples.
    `frozen` (variables with an infinite bound) only get positive factors, so that what is bounded under c stays bounded."""
    rnd = random.Random(rb['seed'])
    c = np.asarray(c, dtype=float)
    n = len(c)
    nz = np.abs(c[c != 0])
    step = 2.0 ** round(float(np.log2(nz.mean()))) if len(nz) else 1.0
    out = []
    for i in range(rb['k']):
        kind = rb['mode'] if rb['mode'] != 'mixed' else rnd.choice(['scale', 'shift', 'flip', 'same'])
        fac = np.array([rnd.choice([0.25, 0.5, 0.75, 1.0, 1.0, 1.5, 2.0, 3.0]) for _ in range(n)])
        if kind == 'same' or (rb.get('own') and i == 0):
            s = c.copy()
        elif kind == 'scale':
            s = c * fac
        elif kind == 'shift':
            p = rnd.choice([0.2, 0.5, 1.0])
            s = c + np.array([rnd.randint(-8, 8) / 4.0 * step if rnd.random() < p else 0.0 for _ in range(n)])
        else:
            p = rnd.choice([0.2, 0.5])
            s = c * np.array([-1.0 if rnd.random() < p else 1.0 for _ in range(n)])
        s = np.where(frozen, c * fac, s) if kind != 'same' and not (rb.get('own') and i == 0) else s
        out.append(np.asarray(s, dtype=float))
    return out


def gen_raw(rnd):
    """a hand-made problem: boolean variables with arbitrary bounds, duplicated mapping rows, all row kinds"""
    n = rnd.randint(2, 6)
    nb = rnd.randint(1, min(3, n))
    l = [float(rnd.randint(-2, 0)) for _ in range(n)]
    u = [float(rnd.randint(1, 3)) + rnd.choice([0, 0.5, 0.625]) for _ in range(n)]
    c = [gen.q8(rnd, -4, 4) for _ in range(n)]
    rows = []
    for _ in range(rnd.randint(1, 4)):
        js = rnd.sample(range(n), rnd.randint(1, min(3, n)))
        rows.append({'coeffs': [[j, gen.q8(rnd, -2, 2) or 1.0] for j in js], 'rhs': gen.q8(rnd, -1, 4), 'kind': rnd.choice('ULUSN')})
    mapping = []
    for j in range(n):
        isb = j < nb
        mapping.append({'var': j, 'bool': isb})
        if rnd.random() < 0.4:   # duplicated row with the opposite flag: only the first row counts
            mapping.append({'var': j, 'bool': not isb})
    rnd.shuffle(mapping)
    # keep "first row decides": record which variables are boolean by first occurrence
    raw = {'c': c, 'l': l, 'u': u, 'rows': rows, 'mapping': mapping}
    r = rnd.random()
    if r < 0.4:
        # one-sided infinite bounds on continuous variables (e.g. a contract with max_cap = inf); the cost sign keeps
        # the problem bounded in that direction (value = -c.x is maximised)
        raw['inf'] = 'bounded'
        for j in range(nb, n):
            q = rnd.random()
            if q < 0.4:
                u[j] = 'inf'
                c[j] = abs(c[j]) + 0.125
            elif q < 0.6:
                l[j] = '-inf'
                c[j] = -abs(c[j]) - 0.125
    elif r < 0.52 and n > nb:
        # feasible in the box but unbounded unless a row stops it
        raw['inf'] = 'maybe-unbounded'
        j = rnd.randrange(nb, n)
        u[j] = 'inf'
        c[j] = -abs(c[j]) - 0.125
    if 'inf' in raw:
        # make the rows hold at a point of the box, so that these cases are feasible
        x0 = [float(rnd.choice([0, 1])) if j < nb else (l[j] if isinstance(l[j], float) else 0.0) + 0.5 for j in range(n)]
        for row in rows:
            v = sum(a * x0[j] for j, a in row['coeffs'])
            slack = gen.q8(rnd, 0, 2)
            row['rhs'] = v + slack if row['kind'] == 'U' else (v - slack if row['kind'] == 'L' else v)
    return raw


def build_raw(raw):
    import pandas as pd
    from eaopack.optimization import OptimProblem
    n = len(raw['c'])
    A = sp.lil_matrix((len(raw['rows']), n))
    b = np.zeros(len(raw['rows']))
    ct = ''
    for i, r in enumerate(raw['rows']):
        for j, v in r['coeffs']:
            A[i, j] += v
        b[i] = r['rhs']
        ct += r['kind']
    m = pd.DataFrame({'asset': 'a', 'node': 'n', 'type': 'd', 'time_step': 0, 'bool': [x['bool'] for x in raw['mapping']],
                      'var_name': 'v'}, index=[x['var'] for x in raw['mapping']])
    nodal = [(0, 'n')] * ct.count('N')
    return OptimProblem(c=np.array(raw['c']), l=np.array([float(v) for v in raw['l']]), u=np.array([float(v) for v in raw['u']]), A=A, b=b, cType=ct, mapping=m, map_nodal_restr=nodal)


class Recorder:
    """records the cvxpy problem constructed inside OptimProblem.optimize (harness process only)"""

    def __enter__(self):
        import cvxpy
        self.cvx = cvxpy
        self.orig = cvxpy.Problem
        rec = self

        class P(self.orig):
            def __init__(s, objective, constraints=None):
                rec.objective = objective
                rec.constraints = list(constraints or [])
                rec.problem = s
                super().__init__(objective, constraints)
        cvxpy.Problem = P
        return self

    def __exit__(self, *a):
        self.cvx.Problem = self.orig
        return False


def lin_coef(expr, x, n):
    """(coefficient vector, constant) of a scalar cvxpy expression that is affine in the variable x alone; None otherwise"""
    if any(v.id != x.id for v in expr.variables()) or not expr.is_affine() or int(np.prod(expr.shape or (1,))) != 1:
        return None
    a = getattr(expr, 'args', [])
    if type(expr).__name__ == 'MulExpression' and len(a) == 2 and a[0].is_constant() and a[1] is x:
        return np.asarray(a[0].value, dtype=float).ravel(), 0.0          # constant vector @ x, as the code writes it
    keep = x.value                                                        # anything else: evaluate on 0 and the unit vectors
    try:
        x.save_value(np.zeros(n))
        c0 = float(np.ravel(expr.value)[0])
        coef = np.zeros(n)
        for j in range(n):
            e = np.zeros(n)
            e[j] = 1.0
            x.save_value(e)
            coef[j] = float(np.ravel(expr.value)[0]) - c0
    finally:
        x.save_value(keep)
    return coef, c0


def extract_handoff(recd, n, n_samples=0):
    """canonical form of what was handed over: bounds, blocks [(relation, rows)], booleans, objective; with n_samples > 0 (robust
    target) the last n_samples constraints are read as epigraph rows `t <= linear(x)`"""
    import cvxpy as cp
    out = {'blocks': []}
    x = None
    cons = recd.constraints
    for v in list(cons[0].variables()) + list(recd.objective.variables()):     # the first constraint is x <= u
        if v.shape == (n,) and x is None:
            x = v
    epi = []
    if n_samples:
        cons, epi = cons[:-n_samples], cons[-n_samples:]

    def const_of(e):
        return np.asarray(e.value, dtype=float).ravel()
    # objective: maximise (linear in x) or maximise (a variable of its own)
    oe = recd.objective.args[0]
    out['maximize'] = isinstance(recd.objective, cp.Maximize)
    out['obj_var'] = oe if isinstance(oe, cp.Variable) and (x is None or oe.id != x.id) else None
    out['obj'] = lin_coef(oe, x, n) if x is not None and out['obj_var'] is None else None
    out['epi'] = []
    for c in epi:
        ok = isinstance(c, cp.constraints.Inequality) and out['obj_var'] is not None and x is not None
        lhs, rhs = c.args if ok else (None, None)          # lhs <= rhs
        ok = ok and isinstance(lhs, cp.Variable) and lhs.id == out['obj_var'].id and int(np.prod(lhs.shape or (1,))) == 1
        out['epi'].append(lin_coef(rhs, x, n) if ok else None)
    # bounds: x <= u ; x >= l
    c0, c1 = cons[0], cons[1]
    out['u'] = const_of(c0.args[1]) if isinstance(c0, cp.constraints.Inequality) else None
    out['l'] = const_of(c1.args[0]) if isinstance(c1, cp.constraints.Inequality) else None   # x >= l is stored as l <= x
    for c in cons[2:]:
        if isinstance(c, cp.constraints.Inequality):
            lhs, rhs = c.args
            if lhs.is_constant():       # b <= A x   (A x >= b)
                rel, expr, bb = 'L', rhs, const_of(lhs)
            else:
                rel, expr, bb = 'U', lhs, const_of(rhs)
        else:
            rel = 'E'
            lhs, rhs = c.args
            expr, bb = lhs, const_of(rhs)
        if not hasattr(expr, 'args') or len(expr.args) != 2 or not expr.args[0].is_constant():
            out['blocks'].append((rel, None, bb))
            continue
        Am = expr.args[0].value
        out['blocks'].append((rel, sp.csr_matrix(Am), bb))
    attrs = x.attributes if x is not None else {}
    bl = attrs.get('boolean')
    if bl in (False, None):
        out['bools'] = []
    elif bl is True:
        out['bools'] = list(range(n))
    else:
        idx = bl[0] if isinstance(bl, tuple) and len(bl) == 1 and not np.isscalar(bl[0]) else bl
        out['bools'] = sorted(int(np.atleast_1d(i)[0]) if not np.isscalar(i) else int(i) for i in (idx if not isinstance(idx, tuple) else idx))
    other_int = attrs.get('integer')
    out['integer'] = bool(other_int)
    return out


def run_case(scn, drv):
    if scn.get('stream') in ('again', 'split'):
        return run_live(scn, drv)
    r = {'evaluated': 1, 'nontrivial': False, 'features': [], 'disagreements': [], 'violations': []}
    feats = r['features']

    ctx = {}

    def viol(orc, msg, **facts):
        r['violations'].append({'oracle': orc, 'detail': msg, 'facts': dict(facts, **ctx)})
    solver = None
    rb = scn.get('robust')
    if 'raw' in scn:
        op = build_raw(scn['raw'])
        feats.append('raw-problem')
        solver = scn.get('solver')
    else:
        for a in scn['assets']:
            feats.append('asset:' + a['type'])
        try:
            rec = pf.setup_mono(scn)
        except Exception as e:
            feats.append('setup-error:' + impl.err_class(e))
            return r
        op = rec['op']
        solver = scn.get('solver')
    mip = pf.is_mip(op)
    feats.append('mip' if mip else 'lp')
    if solver == 'CLARABEL' and mip:
        if scn.get('keep_unfit_solver'):
            feats.append('unfit-solver')
        else:
            solver = 'SCIPY'
    if solver == 'SCIP' and not mip:
        solver = None
    feats.append('solver:%s' % solver)
    ctx.update(solver=str(solver), mip=bool(mip))
    op_snapshot = copy.deepcopy(op)
    n = len(op.c)
    has_inf = not (np.all(np.isfinite(op.l)) and np.all(np.isfinite(op.u)))
    if has_inf:
        feats.append('infinite-bounds:' + str(scn.get('raw', {}).get('inf')))
        ctx.update(infinite_bounds=True)
    # target: plain value, or (stream rob) the minimum over cost samples drawn as perturbations of the problem's own cost vector
    kw, cs = {}, None
    if rb:
        cs = robust_samples(op_snapshot.c, rb, ~(np.isfinite(op_snapshot.l) & np.isfinite(op_snapshot.u)))
        differ = any(not np.array_equal(c_, op_snapshot.c) for c_ in cs)
        feats += ['target:robust', 'robust-samples:' + rb['mode'], 'robust-samples-%s-own-cost' % ('differ-from' if differ else 'equal')]
        ctx.update(target='robust', n_samples=len(cs), samples=[[float(v) for v in c_] for c_ in cs] if n <= 12 else 'see robust_samples')
        kw = {'target': 'robust', 'samples': [c_.copy() for c_ in cs]}

    def score(z):
        """what the chosen target maximises: -c.z, or the worst case of -c_s.z over the samples"""
        return -float(np.dot(op_snapshot.c, z)) if cs is None else min(-float(np.dot(c_, z)) for c_ in cs)
    if scn.get('soft_first') and mip:
        feats.append('soft-then-hard')
        try:
            impl.solve(op, solver=solver, make_soft_problem=True, **kw)
        except Exception as e:
            feats.append('soft-solver-exception:' + type(e).__name__)
    with Recorder() as recd:
        try:
            res = impl.solve(op, solver=solver, **kw)
        except Exception as e:
            feats.append('solver-exception:' + type(e).__name__)
            return r
    # the model's bounds are rationals: problems with infinite bounds are decided by the oracles on the real code only
    opj = impl.problem_json(op_snapshot) if not has_inf else None
    # ---- correspondence: translate vs the recorded hand-off
    try:
        ho = extract_handoff(recd, n, len(cs) if cs is not None else 0)
        dis = []
        if not ho['maximize']:
            dis.append('the objective handed over is not maximised')
        if cs is not None:
            # robust target: maximise a variable t of its own under one row t <= -c_s.x per sample (any order); that the optimum
            # of this form is the minimum over the samples is theorem robust_epigraph
            if ho['obj_var'] is None:
                dis.append('robust target: the objective handed over is not the epigraph variable alone')
            elif any(e is None for e in ho['epi']):
                dis.append('robust target: an epigraph row could not be read back as t <= linear(x)')
            else:
                got = sorted((tuple(float(v) for v in co), float(k0)) for co, k0 in ho['epi'])
                want = sorted((tuple(float(-v) for v in c_), 0.0) for c_ in cs)
                if got != want:
                    i_ = next((i for i, (g, w) in enumerate(zip(got, want)) if g != w), 0)
                    dis.append('robust target: epigraph rows handed over differ from t <= -c_s.x of the samples fed, e.g. %s vs %s' % (str(got[i_])[:150], str(want[i_])[:150]))
        for d in dis:
            r['disagreements'].append({'component': 'translate', 'detail': d})
        if has_inf:
            raise StopIteration
        mod = drv.ok({'op': 'translate', 'problem': opj})
        dis = []
        if cs is None:
            if ho['obj'] is None:
                dis.append('the objective handed over could not be read back as linear in x')
            else:
                d = pf.cmp_vec('handoff.objective', [fs(-Fraction(v)) for v in mod['obj']], [fs(v) for v in ho['obj'][0]], 0)
                if d or ho['obj'][1] != 0:
                    dis.append(d or 'objective with a constant term %g' % ho['obj'][1])
        d = pf.cmp_vec('handoff.u', mod['u'], [fs(v) for v in ho['u']], 0) or pf.cmp_vec('handoff.l', mod['l'], [fs(v) for v in ho['l']], 0)
        if d:
            dis.append(d)
        if sorted(mod['bools']) != ho['bools']:
            dis.append('boolean index set %s (model) vs %s (handed to cvxpy)' % (sorted(mod['bools'])[:8], ho['bools'][:8]))
        if ho['integer']:
            dis.append('variables declared integer instead of boolean')
        mblocks = mod['blocks']
        if len(mblocks) != len(ho['blocks']):
            dis.append('%d constraint blocks (model) vs %d (cvxpy)' % (len(mblocks), len(ho['blocks'])))
        else:
            for mb, (rel, Am, bb) in zip(mblocks, ho['blocks']):
                want = {'U': 'U', 'L': 'L', 'S': 'E', 'N': 'E'}[mb['kind']]
                if want != rel:
                    dis.append('block of kind %s handed over with relation %s' % (mb['kind'], rel))
                    break
                if Am is None:
                    dis.append('block of kind %s could not be read back' % mb['kind'])
                    break
                rows = impl.rows_of(Am, bb, mb['kind'] * Am.shape[0])
                dd = pf.cmp_rows('handoff.%s' % mb['kind'], mb['rows'], rows, 0, ordered=True)
                if dd:
                    dis.append(dd)
                    break
        for d in dis:
            r['disagreements'].append({'component': 'translate', 'detail': d})
    except StopIteration:
        pass
    except Exception as e:
        r['disagreements'].append({'component': 'translate', 'detail': 'hand-off could not be read back: %s: %s' % (type(e).__name__, e)})
    # ---- independent reference (HiGHS on the same arrays)
    ref = reference(op_snapshot) if cs is None else robust_reference(op_snapshot, cs)
    if ref['status'] == 'optimal':
        # trust the reference only as far as its point can be verified: feasible for the problem and integral on the flags
        w_, _ = pf.feasibility_violation(op_snapshot, ref['x'])
        okint = True
        if 'bool' in op_snapshot.mapping.columns:
            mm_ = op_snapshot.mapping[~op_snapshot.mapping.index.duplicated(keep='first')]
            bl_ = [int(i) for i in mm_.index[mm_['bool'].fillna(False).astype(bool)]]
            okint = (not bl_) or float(np.abs(ref['x'][bl_] - np.round(ref['x'][bl_])).max()) <= 1e-6
        if w_ > 1e-6 or not okint:
            ref = {'status': 'unverified'}
        elif cs is not None:
            ref['value'] = score(ref['x'])      # the worst case of the verified point itself, not the solver's epigraph variable
    tgt = 'value' if cs is None else 'worst case over the samples'
    if isinstance(res, str):
        feats.append('reported:' + res)
        if res == 'not successful' and ref['status'] == 'unbounded':
            viol('failure_means_infeasible', 'optimisation reported "not successful" but the problem is feasible and unbounded (HiGHS): e.g. %s is a feasible point' % (
                np.round(ref['x'], 6).tolist() if ref.get('x') is not None else '?'), what='unbounded_reported_as_failure')
        elif res == 'not successful' and ref['status'] == 'optimal':
            viol('failure_means_infeasible', 'optimisation reported "not successful" but the problem has a feasible point with %s %.8g (HiGHS)' % (tgt, ref['value']), what='false_failure')
        elif res == 'not successful' and not has_inf:
            # exact infeasibility certificate: multipliers found numerically, bound evaluated over the rationals by the model
            y = farkas_multipliers(op_snapshot)
            if y is not None:
                opj0 = dict(opj)
                opj0['c'] = ['0'] * len(opj['c'])
                mm0 = drv.ok({'op': 'lagrangian', 'problem': opj0, 'y': [fs(v) for v in y]})
                if mm0['signok'] and Fraction(mm0['ub']) < 0:
                    feats.append('infeasibility-certified-exactly')
                    r['observed'] = {'farkas_bound': float(Fraction(mm0['ub']))}
                else:
                    feats.append('infeasibility-certificate-not-negative')
            else:
                feats.append('infeasible-only-with-integrality-or-no-certificate')
            r['nontrivial'] = True
        return r
    feats.append('solved')
    x = np.asarray(res.x, dtype=float)
    V = float(res.value)
    # (1) feasibility of the returned point for the problem as it was before optimize
    worst, what = pf.feasibility_violation(op_snapshot, x)
    if worst > 1e-5:
        viol('returned_point_feasible', 'returned vector violates %s by %.3g (scaled)' % (what, worst), what='infeasible_point')
    # (2) boolean flags
    m = op_snapshot.mapping
    if 'bool' in m.columns:
        mm = m[~m.index.duplicated(keep='first')]
        bl = [int(i) for i in mm.index[mm['bool'].fillna(False).astype(bool)]]
        if bl:
            dev = float(np.abs(x[bl] - np.clip(np.round(x[bl]), 0, 1)).max())
            if dev > 1e-5:
                viol('boolean_flags', 'a variable flagged boolean takes value %.6g' % x[bl][int(np.argmax(np.abs(x[bl] - np.clip(np.round(x[bl]), 0, 1))))], what='non_boolean')
    # (3) value identity
    own = -float(np.dot(op_snapshot.c, x))
    cmax = float(max(np.abs(c_).max() for c_ in [op_snapshot.c] + (cs or [])))
    tolv = 2e-6 * max(1.0, abs(V), cmax * max(1.0, float(np.abs(x).max())))
    if abs(own - V) > tolv:
        viol('value_identity', 'reported value %.8g but minus cost times the returned vector is %.8g%s' % (
            V, own, '' if cs is None else ' (robust target; the worst case of the vector over the %d samples is %.8g)' % (len(cs), score(x))), what='value')
    # (4) optimality for the chosen target: S = what the returned vector achieves (plain target: the reported value)
    S = V if cs is None else score(x)
    if ref['status'] == 'optimal' and ref['value'] > S + 10 * tolv:
        if cs is None:
            viol('optimality', 'a feasible point with value %.8g exists (HiGHS) but %.8g was reported as optimum' % (ref['value'], V), what='suboptimal')
        else:
            viol('optimality', 'robust target: a feasible point whose worst case over the samples is %.8g exists (HiGHS, epigraph form) but the returned vector only reaches %.8g' % (ref['value'], S), what='suboptimal')
    if cs is not None:
        # the model's robust objective at the returned vector (exact) against the objective value the solver reported for the
        # epigraph problem (theorem robust_epigraph: the epigraph optimum at x is the minimum over the samples)
        mr = drv.ok({'op': 'robust_value', 'samples': [[fs(v) for v in c_] for c_ in cs], 'x': [fs(v) for v in x], 'c': [fs(v) for v in op_snapshot.c]})
        pv = getattr(getattr(recd, 'problem', None), 'value', None)
        r['observed'] = {'value': V, 'worst_case': S, 'solver_objective': None if pv is None else float(pv)}
        if mr['min'] is None or abs(float(Fraction(mr['min'])) - S) > tolv or abs(float(Fraction(mr['reported'])) - own) > tolv:
            r['disagreements'].append({'component': 'robust objective', 'detail': 'model: minimum over the samples %s, -c.x %s; harness: %.10g, %.10g' % (mr['min'], mr['reported'], S, own)})
        elif pv is not None and abs(float(Fraction(mr['min'])) - float(pv)) > 10 * tolv and worst <= 1e-5:
            r['disagreements'].append({'component': 'robust objective', 'detail': 'the solver reports %.10g as optimum of the epigraph problem, but the minimum over the samples of -c_s.x at the returned vector is %.10g' % (float(pv), float(Fraction(mr['min'])))})
        if abs(S - own) > 10 * tolv:
            feats.append('robust-worst-case-differs-from-value')
    if ref['status'] == 'optimal' and S > ref['value'] + 10 * tolv and worst <= 1e-5:
        # the returned point is feasible, respects the flags and is BETTER than what the reference solver found: no claim
        # of the property is refuted (the reference run was suboptimal; observed with HiGHS on MIPs) - recorded only
        feats.append('reference-solver-suboptimal')
    opj_c = opj
    if cs is not None and not mip and res.duals is not None and not has_inf:
        # robust LP: with the multipliers lam of the epigraph rows (lam >= 0, sum 1) every feasible z has
        # worst case(z) <= -(sum lam_s c_s).z, which the Lagrangian bound of the problem with the mixed cost vector bounds
        lam = np.array([abs(float(np.ravel(c_.dual_value)[0])) if c_.dual_value is not None else 0.0 for c_ in recd.constraints[-len(cs):]])
        opj_c = None
        if lam.sum() > 0:
            lam = lam / lam.sum()
            opj_c = dict(opj, c=[fs(sum(Fraction(float(w_)) * Fraction(float(c_[j])) for w_, c_ in zip(lam, cs))) for j in range(n)])
    if not mip and res.duals is not None and not has_inf and opj_c is not None:
        y = []
        cnt = {'U': 0, 'L': 0, 'S': 0, 'N': 0}
        for k in op_snapshot.cType:
            i = cnt[k]
            cnt[k] += 1
            d = res.duals.get(k)
            v = float(np.atleast_1d(d)[i]) if d is not None else 0.0
            y.append(max(0.0, v) if k == 'U' else (min(0.0, -v) if k == 'L' else v))
        mm_ = drv.ok({'op': 'lagrangian', 'problem': opj_c, 'y': [fs(v) for v in y]})
        gap = float(Fraction(mm_['ub']) - Fraction(S))
        r['observed'] = dict(r.get('observed') or {}, value=V, exact_lagrangian_gap=gap)
        if gap <= 10 * tolv and mm_['signok']:
            feats.append('optimum-certified-exactly')
        if gap > 10 * tolv and worst <= 1e-5:
            # the solver's own duals do not certify its answer: check against the reference before alarming
            if ref['status'] == 'optimal' and ref['value'] > S + 10 * tolv:
                pass  # already reported above
            else:
                feats.append('weak-certificate')
    r['nontrivial'] = mip or len(op_snapshot.cType) > 0
    return r


def verified_reference(snap):
    """reference() with its point verified: feasible for the problem and integral on the flags, else status 'unverified'"""
    ref = reference(snap)
    if ref['status'] == 'optimal':
        w_, _ = pf.feasibility_violation(snap, ref['x'])
        mm_ = snap.mapping[~snap.mapping.index.duplicated(keep='first')] if 'bool' in snap.mapping.columns else None
        bl_ = [int(i) for i in mm_.index[mm_['bool'].fillna(False).astype(bool)]] if mm_ is not None else []
        if w_ > 1e-6 or (bl_ and float(np.abs(ref['x'][bl_] - np.clip(np.round(ref['x'][bl_]), 0, 1)).max()) > 1e-6):
            return {'status': 'unverified'}
    return ref


def judge_answer(snap, res, viol, feats):
    """the statement of C03 for one call: `snap` is the problem as it was immediately before the call (comp/c03calls.snapshot;
    split problems as the block sum of their intervals), `res` what optimize returned.  Returns True when the call was non-trivial."""
    n = len(snap.c)
    has_inf = not (np.all(np.isfinite(snap.l)) and np.all(np.isfinite(snap.u)))
    facts = {'infinite_bounds': True} if has_inf else {}
    ref = verified_reference(snap)
    if isinstance(res, str):
        feats.append('reported:' + res)
        if res == 'not successful' and ref['status'] == 'unbounded':
            viol('failure_means_infeasible', 'optimisation reported "not successful" but the problem is feasible and unbounded (HiGHS): e.g. %s is a feasible point' % (
                np.round(ref['x'], 6).tolist() if ref.get('x') is not None else '?'), what='unbounded_reported_as_failure', **facts)
        elif res == 'not successful' and ref['status'] == 'optimal':
            viol('failure_means_infeasible', 'optimisation reported "not successful" but the problem as it is at the time of the call has a feasible point with value %.8g (HiGHS), e.g. %s'
                 % (ref['value'], np.round(ref['x'], 6).tolist()[:12]), what='false_failure', **facts)
        elif res == 'not successful':
            feats.append('failure-confirmed:' + ref['status'])
        return res == 'not successful'
    feats.append('solved')
    x = np.asarray(res.x, dtype=float).ravel()
    if len(x) != n:
        viol('returned_point_feasible', 'returned vector has %d entries, the problem has %d variables' % (len(x), n), what='length', **facts)
        return True
    V = float(res.value)
    worst, what = pf.feasibility_violation(snap, x)
    if worst > 1e-5:
        viol('returned_point_feasible', 'success reported, but the returned vector violates %s of the problem as it is at the time of the call by %.3g (scaled)%s'
             % (what, worst, '' if ref['status'] != 'infeasible' else '; the problem has no feasible point (HiGHS)'), what='infeasible_point', **facts)
    m = snap.mapping
    mm = m[~m.index.duplicated(keep='first')]
    bl = [int(i) for i in mm.index[mm['bool'].fillna(False).astype(bool)]] if 'bool' in m.columns else []
    if bl:
        dv = np.abs(x[bl] - np.clip(np.round(x[bl]), 0, 1))
        if float(dv.max()) > 1e-5:
            viol('boolean_flags', 'success reported, but variable %d flagged boolean takes value %.6g' % (bl[int(np.argmax(dv))], x[bl][int(np.argmax(dv))]), what='non_boolean', **facts)
    own = -float(np.dot(snap.c, x))
    cmax = float(np.abs(snap.c).max()) if n else 0.0
    tolv = 2e-6 * max(1.0, abs(V), cmax * max(1.0, float(np.abs(x).max()) if n else 1.0))
    if abs(own - V) > tolv:
        viol('value_identity', 'reported value %.8g but minus cost times the returned vector is %.8g' % (V, own), what='value', **facts)
    if ref['status'] == 'optimal' and ref['value'] > V + 10 * tolv:
        viol('optimality', 'a feasible point with value %.8g exists (HiGHS) but %.8g was reported as optimum' % (ref['value'], V), what='suboptimal', **facts)
    elif ref['status'] == 'optimal' and V > ref['value'] + 10 * tolv and worst <= 1e-5:
        feats.append('reference-solver-suboptimal')
    return bool(bl) or len(snap.cType) > 0


def build_live(base, feats):
    """the live object of a scenario of the streams again / split: (problem object, record of the portfolio set-up or None)"""
    from ..comp import c03calls as L
    from .. import scen
    kind = base['kind']
    feats.append('base:' + kind)
    if kind == 'raw':
        return build_raw(base['raw']), None
    if kind == 'splitraw':
        def ref_point(op):
            ref = verified_reference(L.snapshot(op))
            return ref['x'] if ref['status'] == 'optimal' else None
        for p_ in base['pins']:
            feats.append('pin:%s' % p_)
        return L.build_splitraw(base, build_raw, ref_point), None
    scn = base['scn']
    for a in scn['assets']:
        feats.append('asset:' + a['type'])
    if scn.get('stream') == 'fixedpf':
        feats.append('portfolio-of-pinned-assets')
    if kind == 'pf':
        rec = pf.setup_mono(scn)
        return rec['op'], rec
    portf, tg, prices, nodes = scen.build(scn)
    interval = scn.get('split_interval') or pf.split_interval(scn, tg, parts=base.get('parts', 2))
    rec = pf.setup_split(scn, interval, objects=(portf, tg, prices))
    return rec['op'], rec


def run_live(scn, drv):
    """streams again and split: a sequence of edits / re-set-ups / calls on a live problem object; every call is judged against the
    snapshot of the object taken immediately before it"""
    from ..comp import c03calls as L
    r = {'evaluated': 1, 'nontrivial': False, 'features': ['stream:' + scn['stream']], 'disagreements': [], 'violations': []}
    feats = r['features']
    rnd = random.Random(scn['seed'])
    try:
        live, rec = build_live(scn['base'], feats)
    except Exception as e:
        feats.append('setup-error:' + impl.err_class(e))
        return r
    if scn['stream'] == 'again':
        plan = (['edit'] if scn.get('edit_first') else []) + ['call'] + ['edit', 'call'] * (scn['calls'] - 1)
    else:
        plan = (['edit'] if scn.get('edit_first') else []) + ['call']
        if scn.get('refix') and rec is not None:
            plan += ['refix', 'call']
        if scn.get('edit_last'):
            plan += ['edit', 'call']
    history = []        # what happened to the object so far (facts of a violation)
    last, n_call = None, 0
    for step in plan:
        if step == 'edit':
            if rnd.random() < 0.2 and n_call:
                live = copy.deepcopy(live)       # the next call goes to a copy of the object (it carries along what the object keeps)
                history.append({'kind': 'deepcopy'})
                feats.append('edit:on-deepcopy')
            d = L.apply_edit(rnd, live, None if last is None else last.x)
            history.append(d)
            feats.append('edit:%s%s' % (d['kind'], (':' + d['how'].split(':')[0]) if d.get('how') else ''))
            if d.get('interval') is not None and d['interval'] in L.intervals_without_free_variable(live):
                feats.append('edit:of-interval-without-free-variable')
            continue
        if step == 'refix':
            if last is None:
                break
            x_soft = None
            if pf.is_mip(L.snapshot(live)):
                try:
                    rs_ = impl.solve(live, make_soft_problem=True)
                    x_soft = None if isinstance(rs_, str) else np.asarray(rs_.x, dtype=float)
                except Exception as e:
                    feats.append('soft-solver-exception:' + type(e).__name__)
            try:
                new, d = L.refix(rnd, rec, np.asarray(last.x, dtype=float), x_soft)
            except Exception as e:
                feats.append('refix-setup-error:' + impl.err_class(e))
                break
            if new is None:
                feats.append('refix:' + d)
                break
            live = new
            history.append(dict(d, kind='refix'))
            feats += ['refix:' + d['which'], 'refix:I-as-' + d['form'], 'refix:x-' + d['mode']]
            last = None
            continue
        # ---- a call
        snap = L.snapshot(live)
        if len(snap.c) == 0:
            feats.append('empty-problem')
            break
        n_call += 1
        mip = pf.is_mip(snap)
        solver = scn.get('solver')
        if solver == 'CLARABEL' and mip:
            solver = 'SCIPY'
        if solver == 'SCIP' and not mip:
            solver = None
        pinned = L.intervals_without_free_variable(live)
        n_iv = len(getattr(live, 'ops', None) or [live])
        if pinned:
            feats.append('call:all-variables-pinned' if len(pinned) == n_iv else 'call:pinned-and-free-intervals')
        feats += ['call:%d' % n_call, 'mip' if mip else 'lp', 'solver:%s' % solver]
        try:
            res = impl.solve(live, solver=solver)
        except Exception as e:
            feats.append('solver-exception:' + type(e).__name__)
            last = None
            continue
        ctx = {'solver': str(solver), 'mip': bool(mip), 'stream': scn['stream'], 'call': n_call, 'split': hasattr(live, 'ops'),
               'intervals_without_free_variable': len(pinned), 'history': list(history)}

        def viol(orc, msg, **facts):
            r['violations'].append({'oracle': orc, 'detail': 'call %d on the object%s: %s' % (
                n_call, (' after ' + ', '.join(h['kind'] for h in history)) if history else '', msg), 'facts': dict(facts, **ctx)})
        if judge_answer(snap, res, viol, feats):
            r['nontrivial'] = True
        if n_call > 1 and any(h['kind'] not in ('none', 'deepcopy') for h in history):
            feats.append('judged-after-change-of-the-problem')
        last = None if isinstance(res, str) else res
    return r


def farkas_multipliers(op):
    """sign-correct multipliers y minimising the Lagrangian bound of the zero-objective problem (an LP in y, |y| <= 1):
    a negative optimum is a Farkas certificate of infeasibility of bounds + rows.  Found in floating point here, evaluated
    EXACTLY by the Lean driver (theorem EAO.C03.infeasible_of_negative_bound)."""
    from scipy.optimize import linprog
    n = len(op.c)
    if op.A is None or op.A.shape[0] == 0:
        return None
    A = sp.csr_matrix(op.A)
    m = A.shape[0]
    b = np.asarray(op.b, dtype=float)
    l, u = np.asarray(op.l, dtype=float), np.asarray(op.u, dtype=float)
    # variables: y (m), t (n);  minimise b.y + sum t ;  t_j >= -(A^T y)_j * l_j  and  t_j >= -(A^T y)_j * u_j
    AT = A.T.tocsr()
    G1 = sp.hstack([-sp.diags(l) @ AT, -sp.identity(n)])     # -(l_j (A^T y)_j) - t_j <= 0
    G2 = sp.hstack([-sp.diags(u) @ AT, -sp.identity(n)])
    G = sp.vstack([G1, G2]).tocsr()
    h = np.zeros(2 * n)
    cost = np.concatenate([b, np.ones(n)])
    lo = np.array([0.0 if k == 'U' else -1.0 for k in op.cType] + [-np.inf] * n)
    hi = np.array([0.0 if k == 'L' else 1.0 for k in op.cType] + [np.inf] * n)
    try:
        sol = linprog(cost, A_ub=G, b_ub=h, bounds=list(zip(lo, hi)), method='highs')
    except Exception:
        return None
    if sol.status != 0 or sol.fun >= -1e-9:
        return None
    y = sol.x[:m]
    y = np.where(np.array([k == 'U' for k in op.cType]), np.maximum(y, 0), y)
    y = np.where(np.array([k == 'L' for k in op.cType]), np.minimum(y, 0), y)
    return y


def robust_reference(op, samples):
    """independent epigraph form of the robust target on the arrays of the problem (HiGHS, LP or MILP): maximise z subject to
    c_s.x + z <= 0 for every sample and x feasible; the answer's x is the first n coordinates"""
    import types
    n, k = len(op.c), len(samples)
    E = sp.hstack([sp.csr_matrix(np.vstack(samples)), sp.csr_matrix(np.ones((k, 1)))])
    if op.A is not None and op.A.shape[0] > 0:
        A = sp.vstack([sp.hstack([sp.csr_matrix(op.A), sp.csr_matrix((op.A.shape[0], 1))]), E])
        b = np.concatenate([np.asarray(op.b, dtype=float), np.zeros(k)])
        ct = list(op.cType) + ['U'] * k
    else:
        A, b, ct = E, np.zeros(k), ['U'] * k
    ext = types.SimpleNamespace(c=np.concatenate([np.zeros(n), [-1.0]]), l=np.concatenate([op.l, [-np.inf]]), u=np.concatenate([op.u, [np.inf]]),
                                A=A.tocsr(), b=b, cType=ct, mapping=op.mapping)
    ref = reference(ext)
    if ref.get('x') is not None:
        ref['x'] = np.asarray(ref['x'], dtype=float)[:n]
    return ref


def reference(op):
    """independent HiGHS run on the arrays of the problem (LP or MILP)"""
    from scipy.optimize import milp, LinearConstraint, Bounds
    n = len(op.c)
    integrality = np.zeros(n)
    m = op.mapping
    lb, ub = np.array(op.l, dtype=float), np.array(op.u, dtype=float)
    if 'bool' in m.columns:
        mm = m[~m.index.duplicated(keep='first')]
        for j in mm.index[mm['bool'].fillna(False).astype(bool)]:
            integrality[int(j)] = 1
            lb[int(j)] = max(lb[int(j)], 0.0)
            ub[int(j)] = min(ub[int(j)], 1.0)
    cons = []
    if op.A is not None and op.A.shape[0] > 0:
        A = sp.csr_matrix(op.A)
        b = np.asarray(op.b, dtype=float)
        lo = np.array([-np.inf if k == 'U' else b[i] for i, k in enumerate(op.cType)])
        hi = np.array([np.inf if k == 'L' else b[i] for i, k in enumerate(op.cType)])
        cons = [LinearConstraint(A, lo, hi)]
    if (lb > ub).any():
        return {'status': 'infeasible'}
    try:
        sol = milp(c=np.asarray(op.c, dtype=float), constraints=cons, integrality=integrality, bounds=Bounds(lb, ub))
    except Exception as e:
        return {'status': 'error:%s' % type(e).__name__}
    if sol.status == 0:
        return {'status': 'optimal', 'value': -float(sol.fun), 'x': sol.x}
    if sol.status == 2:
        return {'status': 'infeasible'}
    if sol.status in (3, 4):
        # unbounded, or "unbounded or infeasible" (before presolve decides): it is unbounded iff the zero-objective problem is feasible
        try:
            s0 = milp(c=np.zeros(n), constraints=cons, integrality=integrality, bounds=Bounds(lb, ub))
        except Exception as e:
            return {'status': 'error:%s' % type(e).__name__}
        if s0.status == 0:
            return {'status': 'unbounded', 'x': s0.x}
        return {'status': 'infeasible' if s0.status == 2 else 'other:%d' % s0.status}
    return {'status': 'other:%d' % sol.status}
