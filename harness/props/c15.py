"""C15 Fixing a time window."""
import copy
import os
import random
import numpy as np
import pandas as pd
from .. import gen, pf, impl, scen
from ..lean import fs
from ..impl import Quiet
from ..comp import c15coarse

ID = 'C15'
THEOREMS = [
    ('EAO.Properties.C15', 'EAO.C15.fix_window_rest', 'costs, rows, mapping and nodal record are untouched by fixing'),
    ('EAO.Properties.C15', 'EAO.C15.fix_window_pins', 'every variable that has SOME mapping row with a step in the window is pinned to its previous value in every point satisfying the new bounds'),
    ('EAO.Properties.C15', 'EAO.C15.fix_window_free', 'all other variables keep their bounds'),
    ('EAO.Properties.C15', 'EAO.C15.fix_window_lengths', 'bound vectors keep their length'),
    ('EAO.Properties.C15', 'EAO.C15.fix_window_feasible', 'the previous solution stays feasible and nothing new becomes feasible'),
    ('EAO.Properties.C15', 'EAO.C15.fix_window_value_unchanged', 'with unchanged costs an optimal previous solution stays optimal: the optimal value is unchanged'),
]
from ..comp import fixsplit as FS
THEOREMS = THEOREMS + FS.THEOREMS_C15_SPLIT
COMPONENTS = ['fixWindow vs Portfolio.setup_optim_problem(fix_time_window=...) (bounds, fixed variable set)']
RULE = ('random portfolios incl. transports, multi-commodity, CHP with fuel, coarse assets, order books (several mapping rows per variable); window as index mask '
        '(numpy mask, every third one as plain Python list of bools) or date; '
        'second stream (idx*): window as time step INDICES (Python list of ints / of numpy ints, int64 array, int32 array) or as the equivalent boolean mask (numpy bool array, '
        'Python list of bools as from mask.tolist() / JSON, Python list of numpy bools), shapes: only step 0, '
        'step 0 among others, one single other step, the last step, unsorted with duplicates (with and without step 0), all steps, empty (list, integer array, all-False mask), '
        'a contiguous run in the middle of the horizon starting at an odd step (inside a step of a coarse / periodic asset); every shape goes through every form it can be written in; '
        'containers the set-up may refuse (tuple of ints / of bools, pandas Series of ints / of bools, pandas Index, numpy mask of dtype object) are tried too: a refusal is recorded '
        'as feature (window-form-rejected, split-window-form-rejected) and the window goes on as numpy array, an acceptance is held to the same oracle; '
        'every such window goes through the unsplit AND (T >= 4) the split set-up (the object-dtype mask too: both set-ups refuse it since fix 1f28d50, finding F-15e); '
        'third stream (cw*, comp/c15coarse.py): assets with an OWN COARSER frequency that carry INTERNAL variables (Storage with freq = 2, 3, 4, 6 grid steps and '
        'no_simult_in_out and / or max_store_duration, plain or inside a ScaledAsset; beside it a further coarse contract / transport / storage, a storage with booleans or a plant '
        'with on / start variables at grid frequency, a plant with a coarser frequency as probe - refused by the class at present), coarse steps anchored at the horizon start or at '
        'the asset\'s own start inside the grid, remainder of the horizon after the last complete coarse step; windows defined relative to the coarse steps: run starting inside a '
        'coarse step, tail of one coarse step, one single inner step, the very last step, scattered, all inner steps of all coarse steps, whole coarse steps, prefix ending inside a '
        'coarse step (mask and date), only first steps of coarse steps, tail of one and head of the next coarse step - as numpy mask, list of bools, list / array of indices; '
        'unsplit and split set-up (intervals of whole coarse steps or the default choice); '
        'and (3b) PREVIOUS SOLUTIONS THAT DIFFER ONLY IN INTERNAL VARIABLES: the solver\'s solution with booleans flipped where that keeps all rows satisfied (same value): '
        'each goes through set-up (bounds), re-optimisation with new prices (window kept) and with old prices (value unchanged); '
        'in ALL streams a variable of an asset with an own coarser frequency belongs to every grid step of its coarse step (coarse steps computed from the scenario, not from the mapping); '
        'new random prices; non-trivial = window fixes some but not all variables and the previous solution has non-zero fixed entries; distinct by scenario hash')
ASSUMPTIONS = ['re-optimised values compared with tolerance 1e-6 relative',
               'a variable of an asset with an own coarser frequency (dispatch or internal) belongs to all grid steps its coarse step covers; coarse steps = complete intervals '
               '[start + k*freq, start + (k+1)*freq) from the asset\'s start (horizon start if none) up to its end (horizon end if none); in the split set-up this reading is applied only '
               'when every interval begins where coarse steps begin (else: steps as labelled in the mapping); the scale variable of a ScaledAsset belongs to the step it is labelled with',
               'tie variants: a flip of an internal boolean is taken only if the flipped point satisfies all bounds and rows of the problem with the old prices within 1e-7 and the boolean carries no costs']
EXPLANATION = ('theorems about the model fixWindow; correspondence of the produced bounds; oracle: exactly the variables with a mapping row whose step lies in the window have both bounds at the previous value, '
               'all other bounds, costs and restrictions are those of the problem without window (unsplit and split set-up; the set of steps of a window given as indices is the set of its entries, of a window given as mask the set of its True positions - whatever the container); '
               're-optimise the real problem with new prices (fixed entries equal) and with old prices (value unchanged); '
               '"belongs to a step" for assets with an own coarser frequency: the variables of a coarse step (dispatch variables and internal booleans alike) belong to every grid step the '
               'coarse step covers, so a window that contains any of these steps - not necessarily the first - pins them all (oracle facts coarse_step / var_type; features window-cuts-coarse-step*); '
               'the same for optimal previous solutions that differ from the solver\'s one in internal variables only (facts tie=True)')

# an EMPTY PYTHON LIST `[]` as window in the SPLIT set-up used to raise IndexError inside eaopack (np.asarray([]) is float64); repaired
# in /repo (359f616, finding F-15d).  The idx stream gives `[]` to the split set-up as it is (a raise is what='split_raises');
# False would hand it over as empty integer array instead (development switch only).
SPLIT_EMPTY_LIST = True

IDX_SHAPES = ['only0', 'zero+others', 'single', 'unsorted-dup', 'only0', 'last', 'zero+others', 'unsorted-dup0', 'empty', 'all', 'run']

# the forms in which one and the same window (a set of time steps) is handed over as fix_time_window['I']
#   steps named by their indices:   'list' Python list of ints, 'array' / 'array32' numpy int64 / int32 array, 'nplist' Python list of numpy ints
#   boolean mask over the grid:     'bool' numpy bool array, 'boollist' Python list of Python bools (mask.tolist(), a list comprehension, a mask
#                                   read from JSON), 'npboollist' Python list of numpy bools (list(mask))
INDEX_FORMS = ['list', 'array', 'array32', 'nplist']
MASK_FORMS = ['bool', 'boollist', 'npboollist']
# containers the documentation ("indices on timegrid") does not name and the set-up of /repo a65962a refuses (tuple, pandas Series / Index:
# AssertionError "must be date or array" in both set-ups; numpy mask of dtype object: IndexError of numpy in the unsplit set-up).  A refusal is out of
# scope (feature window-form-rejected / split-window-form-rejected, the window goes on as plain numpy array) - but a set-up that TAKES such a
# container has to pin exactly the steps it names, like for every other form.
PROBE_INDEX_FORMS = ['tuple', 'series', 'index']
PROBE_MASK_FORMS = ['booltuple', 'boolseries', 'boolobj']
PROBE_FORMS = set(PROBE_INDEX_FORMS + PROBE_MASK_FORMS)
ALL_MASK_FORMS = set(MASK_FORMS + PROBE_MASK_FORMS)

# (finding F-15e, repaired in /repo 1f28d50; before:) a numpy boolean mask of dtype OBJECT (e.g. the .values of a pandas object column) is refused by the unsplit
# set-up (IndexError of numpy) but TAKEN by setup_split_optim_problem, which reads it as the integer indices 0 and 1 (np.asarray(..., dtype=int) in the
# branch `my_I.dtype != bool`): steps 0 and 1 are pinned instead of the masked steps.  False keeps this form away from the split set-up
# (feature 'split-fix:object-mask-skipped(TODO)', development switch only); True hands it over (both set-ups must refuse it now, or pin exactly the masked steps).
SPLIT_OBJECT_MASK = True


def form_cycle(maskable):
    """the forms usable for a window shape, in the order in which the scenarios of this shape go through them (the forms the set-up is known to
    take twice, the others once)"""
    acc = INDEX_FORMS + (MASK_FORMS if maskable else [])
    probe = PROBE_INDEX_FORMS + (PROBE_MASK_FORMS if maskable else [])
    return acc + probe[::2] + acc + probe[1::2]


def draw_index_window(r2, T, shape):
    """a window as list of time step indices (0 <= index < T) of the given shape, and the forms in which it can be handed over"""
    others = list(range(1, T))
    maskable = True
    if shape == 'only0':
        idx = [0]
    elif shape == 'zero+others':
        idx = [0] + sorted(r2.sample(others, r2.randint(1, max(1, min(len(others), 1 + T // 2))))) if others else [0]
    elif shape == 'single':
        idx = [r2.choice(others)] if others else [0]
    elif shape == 'last':
        idx = [T - 1]
    elif shape in ('unsorted-dup', 'unsorted-dup0'):
        base = r2.sample(others, r2.randint(1, max(1, min(len(others), 1 + T // 2)))) if others else []
        if shape == 'unsorted-dup0' or not base:
            base.append(0)
        idx = base + [r2.choice(base) for _ in range(r2.randint(1, 3))]
        for _ in range(8):
            r2.shuffle(idx)
            if idx != sorted(idx) or len(set(idx)) == 1:
                break
        maskable = False                               # order and repetition cannot be written as a mask
    elif shape == 'empty':
        idx = []
    elif shape == 'run':
        # a contiguous run of steps in the middle of the horizon that starts at an ODD step (inside a step of an asset with a coarser frequency
        # or a period of 2 or 4 grid steps, mostly also of 3) and does not reach the end if there is room: no prefix, no suffix
        a = r2.choice(others[::2]) if others else 0
        b = r2.randint(a, max(a, T - 2))
        idx = list(range(a, b + 1))
    else:
        idx = list(range(T))
    return idx, form_cycle(maskable)


def window_arg(fx, T):
    """a fresh object for fix_time_window['I'] of an index window in its form"""
    idx, form = [int(i) for i in fx['idx']], fx['form']
    m = np.zeros(T, dtype=bool)
    m[np.array(idx, dtype=np.int64)] = True
    if form == 'list':
        return list(idx)
    if form == 'array':
        return np.array(idx, dtype=np.int64)
    if form == 'array32':
        return np.array(idx, dtype=np.int32)
    if form == 'nplist':
        return list(np.array(idx, dtype=np.int64))
    if form == 'tuple':
        return tuple(idx)
    if form == 'series':
        return pd.Series(idx, dtype='int64')
    if form == 'index':
        return pd.Index(np.array(idx, dtype=np.int64))
    if form == 'bool':
        return m
    if form == 'boollist':
        return m.tolist()
    if form == 'npboollist':
        return list(m)
    if form == 'booltuple':
        return tuple(m.tolist())
    if form == 'boolseries':
        return pd.Series(m)
    if form == 'boolobj':
        return m.astype(object)
    raise ValueError('unknown window form %r' % (form,))


def plain_window_arg(fx, T):
    """the same window as plain numpy array (mask for the mask forms, int64 indices else)"""
    return window_arg(dict(fx, form='bool' if fx['form'] in ALL_MASK_FORMS else 'array'), T)


def scenarios(seed, tier):
    # development switch: C15_STREAMS=gen,idx,cw restricts the streams (the registered command runs all of them)
    only = [x for x in os.environ.get('C15_STREAMS', '').split(',') if x]
    for cid, s in _scenarios(seed, tier):
        if not only or any(cid.startswith(o) for o in only):
            yield cid, s
    # fix_time_window in the split set-up against its model (window slicing per interval, offsets, skipped intervals), on recorded
    # real interval problems of all asset classes (comp/fixsplit.py)
    for cid, c in FS.cases(seed * 7 + 3, 90 if tier == 'quick' else 600):
        yield cid, {'_stream': 'fixsplit', 'case': c}


def _scenarios(seed, tier):
    n = 500 if tier == 'quick' else 3000
    rnd = random.Random(seed * 7919 + 15)
    for i in range(n):
        r2 = random.Random(rnd.getrandbits(48))
        s = gen.gen_portfolio(r2, tmax=10 if tier == 'quick' else 16, tz_prob=0.1 if i % 6 != 5 else 1.0, tmin=2 if i % 6 != 5 else 8,
                              kinds=['simple', 'contract', 'transport', 'ext_transport', 'storage', 'storage2', 'multi', 'orderbook', 'plant', 'chp', 'scaled'])
        T = s['grid']['T_nominal']
        k = r2.randint(1, max(1, T - 1))
        mode = r2.choice(['prefix', 'prefix', 'subset', 'date'])
        if i % 6 == 5:
            mode = 'date'      # zone-aware grid (half of them across a daylight-saving switch), window given as a date
        if mode == 'prefix':
            mask = [j < k for j in range(T)]
        elif mode == 'subset':
            mask = [r2.random() < 0.4 for _ in range(T)]
        else:
            mask = None
        s['fix'] = {'mode': mode, 'mask': mask, 'k': k}
        s['prices2'] = {key: [gen.q8(r2, -4, 20) if key.startswith('p') else v for v in vals] for key, vals in s['prices'].items()}
        yield 'gen%d' % i, s
    # second stream: the window as time step INDICES or as the equivalent mask, every shape in every form (container) it can be written in,
    # each through the unsplit and the split set-up
    n2 = 330 if tier == 'quick' else 1650
    rnd2 = random.Random(seed * 104729 + 1515)
    for i in range(n2):
        r2 = random.Random(rnd2.getrandbits(48))
        s = gen.gen_portfolio(r2, tmax=10 if tier == 'quick' else 16, tz_prob=0.1, tmin=2 if i % 5 == 4 else 4,
                              kinds=['simple', 'contract', 'transport', 'ext_transport', 'storage', 'storage2', 'multi', 'orderbook', 'plant', 'chp', 'scaled'])
        T = s['grid']['T_nominal']
        slot = (i + seed) % len(IDX_SHAPES)
        shape = IDX_SHAPES[slot]
        idx, forms = draw_index_window(r2, T, shape)
        # every shape goes through all its forms (n2 / len(IDX_SHAPES) >= len(forms) scenarios per slot; the two slots of a doubled shape are out of phase)
        form = forms[(i // len(IDX_SHAPES) + 3 * slot) % len(forms)]
        s['fix'] = {'mode': 'index', 'mask': None, 'k': 0, 'idx': idx, 'shape': shape, 'form': form}
        s['prices2'] = {key: [gen.q8(r2, -4, 20) if key.startswith('p') else v for v in vals] for key, vals in s['prices'].items()}
        yield 'idx%d' % i, s
    # third stream: assets with an own coarser frequency AND internal variables, windows that cut through their coarse steps, previous
    # solutions that differ in internal variables only (harness/comp/c15coarse.py)
    for cid, s in c15coarse.scenarios_cw(seed, tier):
        yield cid, s


def split_aligned(tg, interval, cells):
    """do the intervals of the split set-up begin only where coarse steps of the assets begin (or outside of them)?"""
    try:
        iv = pd.Timedelta(interval)
    except Exception:
        iv = pd.Timedelta(1, interval)
    p0 = tg.timepoints[0]
    for t in range(1, tg.T):
        if (tg.timepoints[t] - p0) // iv != (tg.timepoints[t - 1] - p0) // iv:
            for key in cells.values():
                if key[t] >= 0 and key[t - 1] == key[t]:
                    return False
    return True


def run_case(scn, drv):
    if isinstance(scn, dict) and scn.get('_stream') == 'fixsplit':
        case = scn['case']
        im = FS.run_impl(case)
        if 'setup_error' in im:
            return {'evaluated': 1, 'nontrivial': False, 'features': ['stream:fixsplit', 'setup-error'], 'disagreements': [], 'violations': []}
        r = drv.ask(FS.request(case, im))
        if 'ok' not in r:
            return {'evaluated': 1, 'nontrivial': False, 'features': ['stream:fixsplit'], 'violations': [],
                    'disagreements': [{'component': 'fix window in split', 'detail': 'driver: ' + str(r.get('err'))[:300]}]}
        vio = FS.oracle(case, im)
        return {'evaluated': 1, 'nontrivial': 'error' not in im, 'features': ['stream:fixsplit'] + list(FS.features(case, im)),
                'disagreements': [{'component': 'fix window in split', 'detail': d} for d in FS.compare(case, im, r['ok'])],
                'violations': [v if isinstance(v, dict) else {'oracle': 'fix_window_split', 'detail': str(v), 'facts': {'stream': 'fixsplit'}} for v in vio]}
    r = {'evaluated': 1, 'nontrivial': False, 'features': [], 'disagreements': [], 'violations': []}
    feats = r['features']
    for a in scn['assets']:
        feats.append('asset:' + a['type'])
    try:
        rec = pf.setup_mono(scn)
        pf.solve_rec(rec)
    except Exception as e:
        feats.append('setup-error:' + impl.err_class(e))
        return r
    if isinstance(rec['res'], str):
        feats.append('unsolved:' + rec['res'])
        return r
    portf, tg = rec['portf'], rec['tg']
    x0 = np.array(rec['res'].x, dtype=float)
    fx = scn['fix']
    feats.append('window:' + fx['mode'])
    if fx['mode'] == 'date':
        # date: all time points up to and including the date are fixed (as the code defines it)
        d = tg.timepoints[min(fx['k'], tg.T - 1)]
        I_arg = d.to_pydatetime()
        if d.tzinfo is not None and fx['k'] % 3 == 2 and gen.ok_local(d.tz_localize(None), scn['grid']) and d.tz_localize(None).tz_localize(d.tz) == d:
            # a date without zone is meant in the zone of the grid, as for every other date the package takes
            I_arg = d.tz_localize(None).to_pydatetime()
            feats.append('window-date-naive-on-zone-grid')
        elif d.tzinfo is not None and fx['k'] % 2:
            # the same instant written in another zone: a date is a point in time, not a wall-clock reading
            I_arg = d.tz_convert('UTC').to_pydatetime()
            feats.append('window-date-in-other-zone')
        elif d.tzinfo is not None:
            feats.append('window-date-in-grid-zone')
        mask = np.asarray(tg.timepoints <= d)
    elif fx['mode'] == 'index':
        # indices of time steps: the window is the SET of steps named (order and repetition do not matter)
        if any(not (0 <= int(i) < tg.T) for i in fx['idx']):
            feats.append('skip:index-beyond-grid')
            return r
        mask = np.zeros(tg.T, dtype=bool)
        mask[np.array(fx['idx'], dtype=np.int64)] = True
        I_arg = window_arg(fx, tg.T)
        feats.append('window-index:%s:%s' % (fx['shape'], fx['form']))
    else:
        mask = np.asarray(fx['mask'], dtype=bool)
        I_arg = mask.copy()
        if fx['k'] % 3 == 0:
            I_arg = mask.tolist()          # the index mask as plain Python list of bools
            feats.append('window-mask-as-list')
    if len(mask) != tg.T:
        feats.append('skip:mask-length')
        return r
    steps = [int(i) for i in tg.I[mask]]
    prices2 = {k: np.asarray(v, dtype=float) for k, v in scn['prices2'].items()}
    user = {'I': I_arg, 'x': x0.copy()}
    user_snapshot = copy.deepcopy(user)

    def viol(msg, **facts):
        r['violations'].append({'oracle': 'fix_window', 'detail': msg, 'facts': facts})
    # (1) rebuild with the window fixed, new prices
    probe = fx['mode'] == 'index' and fx['form'] in PROBE_FORMS
    try:
        with Quiet():
            op_free = portf.setup_optim_problem(prices2, tg)
            try:
                op_fix = portf.setup_optim_problem(prices2, tg, fix_time_window=user)
                if probe:
                    feats.append('window-form-accepted:' + fx['form'])
            except Exception as e:
                if not probe:
                    raise
                # a container the set-up refuses: out of scope; the window goes on as plain numpy array (see PROBE_FORMS)
                feats.append('window-form-rejected:%s:%s' % (fx['form'], impl.err_class(e)))
                I_arg = plain_window_arg(fx, tg.T)
                user = {'I': I_arg, 'x': x0.copy()}
                user_snapshot = copy.deepcopy(user)
                op_fix = portf.setup_optim_problem(prices2, tg, fix_time_window=user)
    except Exception as e:
        viol('set-up with fix_time_window raised %s: %s' % (type(e).__name__, str(e)[:200]), what='raises', err=impl.err_class(e))
        return r
    def same(a, b):
        if isinstance(a, (pd.Series, pd.Index)) or isinstance(b, (pd.Series, pd.Index)):
            return type(a) is type(b) and a.equals(b)
        if isinstance(a, np.ndarray) or isinstance(b, np.ndarray):
            return type(a) is type(b) and np.array_equal(a, b)
        return a == b
    if not (same(np.asarray(user['x']), user_snapshot['x']) and same(user['I'], user_snapshot['I'])):
        feats.append('user-dict-changed')
    # the window description is the caller's: handing the SAME dictionary over again (as the split set-up does for every
    # interval, or a rolling re-optimisation does) must pin the same part of the solution
    try:
        with Quiet():
            op_fix2 = portf.setup_optim_problem(prices2, tg, fix_time_window=user)
        if not (np.array_equal(op_fix2.l, op_fix.l) and np.array_equal(op_fix2.u, op_fix.u)):
            j = int(np.argmax((np.asarray(op_fix2.l) != np.asarray(op_fix.l)) | (np.asarray(op_fix2.u) != np.asarray(op_fix.u))))
            viol('the same fix_time_window dictionary handed over a second time pins a different part: variable %d has bounds [%s, %s], first time [%s, %s]' % (
                j, op_fix2.l[j], op_fix2.u[j], op_fix.l[j], op_fix.u[j]), what='second_use')
    except Exception as e:
        viol('the same fix_time_window dictionary handed over a second time raises %s: %s' % (type(e).__name__, str(e)[:160]), what='second_use', err=impl.err_class(e))
    # rolling re-optimisation: the caller keeps ONE dictionary (window given as a date), updates the values and uses it for the
    # next, shorter horizon: it must pin what a fresh dictionary with the same content pins
    if fx['mode'] == 'date' and tg.T >= 4:
        try:
            g = scn['grid']
            T2 = min(tg.T - 1, max(min(fx['k'], tg.T - 1) + 2, tg.T // 2 + 1))
            g2 = dict(g)
            g2['end'] = g['_pts'][T2]
            gen.fix_grid(g2)
            scn2 = {k_: v_ for k_, v_ in scn.items() if k_ not in ('fix', 'prices2')}
            scn2['grid'] = g2
            scn2['prices'] = {k_: list(v_)[:T2] for k_, v_ in scn['prices'].items()}
            rec2 = pf.setup_mono(scn2)
            pf.solve_rec(rec2)
            if rec2['tg'].T == T2 and not isinstance(rec2['res'], str):
                x2 = np.array(rec2['res'].x, dtype=float)
                user['x'] = x2.copy()
                pr2 = {k_: np.asarray(v_, dtype=float)[:T2] for k_, v_ in scn['prices2'].items()}
                with Quiet():
                    op_b = rec2['portf'].setup_optim_problem(pr2, rec2['tg'], fix_time_window={'I': I_arg, 'x': x2.copy()})
                feats.append('rolling-second-grid')
                try:
                    with Quiet():
                        op_a = rec2['portf'].setup_optim_problem(pr2, rec2['tg'], fix_time_window=user)
                except Exception as e:
                    viol('the fix_time_window dictionary used before on the longer horizon raises %s on the shorter one (a fresh dictionary with the same content works): %s' % (
                        type(e).__name__, str(e)[:160]), what='second_use_other_grid', err=impl.err_class(e))
                    raise StopIteration
                if not (np.array_equal(op_a.l, op_b.l) and np.array_equal(op_a.u, op_b.u)):
                    j2 = int(np.argmax((np.asarray(op_a.l) != np.asarray(op_b.l)) | (np.asarray(op_a.u) != np.asarray(op_b.u))))
                    viol('the fix_time_window dictionary used before on the longer horizon, with updated values, pins a different part on the shorter horizon than a fresh dictionary with the same content: variable %d has bounds [%s, %s] instead of [%s, %s]' % (
                        j2, op_a.l[j2], op_a.u[j2], op_b.l[j2], op_b.u[j2]), what='second_use_other_grid')
        except StopIteration:
            pass
        except Exception as e:
            # the shorter horizon itself cannot be set up / solved with these assets (e.g. a coarse asset frequency that does
            # not fit it: known finding F-19b): not about the dictionary
            feats.append('rolling-skip:' + impl.err_class(e))
    m = op_fix.mapping
    # which variables belong to a step of the window: those labelled with such a step in the mapping and - variables of an asset with an own
    # coarser frequency, dispatch and internal ones alike - those whose COARSE step contains such a step (coarse steps computed from the
    # scenario, not from the mapping: comp/c15coarse.py)
    try:
        cells = c15coarse.cells_of(scn)
    except Exception as e:
        cells = {}
        feats.append('cells-error:' + impl.err_class(e))
    fv, fr = c15coarse.belonging(m, steps, cells)
    fixed_vars, fixed_rows = sorted(fv), sorted(fr)
    if cells:
        feats.append('asset-with-coarser-frequency')
        feats.extend(c15coarse.cut_info(m, steps, cells))
        if fixed_vars != fixed_rows:
            feats.append('variable-of-a-coarse-step-in-the-window-not-labelled-with-a-step-of-the-window')
    if m.index.duplicated().any():
        # a variable with rows in several steps (asset with a coarser frequency, periodic asset) that the window reaches only in a later row
        m1 = m[~m.index.duplicated(keep='first')]
        if len(set(fixed_vars) - set(int(i) for i in m1.index[m1['time_step'].isin(steps)])):
            feats.append('window-reaches-variable-not-in-its-first-row')
            if fx['mode'] == 'index':
                feats.append('window-index-reaches-variable-not-in-its-first-row')
    free_vars = [j for j in range(len(op_fix.c)) if j not in set(fixed_vars)]
    # correspondence with the model
    opj = impl.problem_json(op_free)
    mod = drv.ok({'op': 'fix', 'problem': opj, 'steps': steps, 'xprev': [fs(v) for v in x0]})
    for nm, got, want in (('l', op_fix.l, mod['l']), ('u', op_fix.u, mod['u'])):
        d = pf.cmp_vec('fix.' + nm, want, [fs(v) for v in got], 0)
        if d:
            r['disagreements'].append({'component': 'fix', 'detail': d})
    if sorted(set(mod['fixed'])) != fixed_rows:
        r['disagreements'].append({'component': 'fix', 'detail': 'fixed variable sets differ'})
    # oracle: bounds
    m_first = m[~m.index.duplicated(keep='first')]

    def describe(j):
        try:
            row = m_first.loc[j]
            ts = sorted(int(t) for t in np.atleast_1d(m.loc[[j], 'time_step'].values))
            return '%s variable %r of asset %r, labelled with steps %s' % ({'d': 'dispatch', 'i': 'internal'}.get(row['type'], row['type']), row.get('var_name'), row['asset'], ts[:8])
        except Exception:
            return 'variable'
    for j in fixed_vars:
        if not (op_fix.l[j] == x0[j] and op_fix.u[j] == x0[j]):
            coarse = j not in fr
            viol('variable %d (%s%s) belongs to a step in the fixed window (steps %s) but has bounds [%s, %s], previous value %s' % (
                j, describe(j), '; its coarse step covers a step of the window' if coarse else '', steps[:12], op_fix.l[j], op_fix.u[j], x0[j]),
                what='not_pinned', coarse_step=coarse, var_type=str(m_first.loc[j, 'type']) if j in m_first.index else None)
            break
    for j in free_vars:
        if not (op_fix.l[j] == op_free.l[j] and op_fix.u[j] == op_free.u[j]):
            viol('variable %d has no step in the fixed window but its bounds changed from [%s, %s] to [%s, %s]' % (j, op_free.l[j], op_free.u[j], op_fix.l[j], op_fix.u[j]), what='free_changed')
            break
    if not (np.array_equal(op_fix.c, op_free.c) and op_fix.cType == op_free.cType and np.array_equal(op_fix.b, op_free.b)):
        viol('costs or restrictions differ between the fixed and the free problem', what='rest_changed')
    # "belongs to a step": internal variables must be labelled with steps at which their asset is active, else the window pins
    # variables of other steps (and leaves those of the window free)
    for a in portf.assets:
        if type(a).__name__ in ('StructuredAsset', 'LinkedAsset'):
            continue
        rows = m[m['asset'] == a.name]
        ds = set(int(t) for t in rows[rows['type'] == 'd']['time_step'].values)
        iis = set(int(t) for t in rows[rows['type'] == 'i']['time_step'].values)
        if ds and not iis <= ds:
            viol('internal variables of asset %r are labelled with steps %s at which it has no dispatch variable (active steps %d..%d): fixing a window pins internal variables of other steps' % (
                a.name, sorted(iis - ds)[:4], min(ds), max(ds)), what='internal_steps', asset_type=type(a).__name__)
            break
    # (2) re-optimise with the new prices: fixed entries keep their values
    res2 = impl.solve(op_fix)
    r['evaluated'] += 1
    mip_noise = False
    if pf.is_mip(op_fix):
        bl = [j for j in set(int(i) for i in m.index[m['bool'].fillna(False).astype(bool)])] if 'bool' in m.columns else []
        mip_noise = bool(len(bl)) and float(np.abs(x0[bl] - np.round(x0[bl])).max()) > 0
    if isinstance(res2, str) and mip_noise:
        feats.append('skip:boolean-values-not-exactly-integral')
    elif isinstance(res2, str):
        # prices do not enter restrictions, so the previous solution completes the fixed window feasibly
        viol('re-optimisation with the window fixed was not successful (%s) although the previous solution is feasible' % res2, what='refix_infeasible')
    else:
        scale = max(1.0, float(np.abs(x0).max()))
        if fixed_vars:
            dmax = float(np.abs(np.asarray(res2.x)[fixed_vars] - x0[fixed_vars]).max())
            if dmax > 1e-5 * scale:
                viol('fixed variables moved by %.3g in the new solution' % dmax, what='moved')
    # (3) old prices: value unchanged
    try:
        with Quiet():
            op_old = portf.setup_optim_problem(rec['prices'], tg, fix_time_window={'I': copy.deepcopy(I_arg), 'x': x0.copy()})
        res3 = impl.solve(op_old)
        r['evaluated'] += 1
        if isinstance(res3, str) and mip_noise:
            feats.append('skip:boolean-values-not-exactly-integral')
        elif isinstance(res3, str):
            viol('with unchanged prices the fixed problem was not successful (%s)' % res3, what='old_infeasible')
        else:
            v0 = float(rec['res'].value)
            if abs(res3.value - v0) > 1e-5 * max(1.0, abs(v0)):
                viol('with unchanged prices the optimal value changed from %.8g to %.8g' % (v0, res3.value), what='value_changed')
    except Exception as e:
        viol('set-up with fix_time_window and old prices raised %s' % type(e).__name__, what='raises', err=impl.err_class(e))
    # (3b) previous solutions that differ from the solver's one only in internal (boolean) variables - every optimal previous solution is
    #      pinned and kept on the window, whatever its values of the internal variables
    if scn.get('ties') and not mip_noise and pf.is_mip(op_fix):
        try:
            variants = c15coarse.tie_variants(rec['op'], x0, random.Random(7 * len(x0) + len(steps)), prefer=fixed_vars)
        except Exception as e:
            variants = []
            feats.append('ties-error:' + impl.err_class(e))
        v0 = float(rec['res'].value)
        for xp, flipped in variants:
            feats.append('previous-solution-differing-in-internal-variables-only')
            if set(flipped) & set(fixed_vars):
                feats.append('previous-solution-differing-in-internal-variables-of-the-window')
            try:
                with Quiet():
                    op_t = portf.setup_optim_problem(prices2, tg, fix_time_window={'I': copy.deepcopy(I_arg), 'x': xp.copy()})
                    op_to = portf.setup_optim_problem(rec['prices'], tg, fix_time_window={'I': copy.deepcopy(I_arg), 'x': xp.copy()})
            except Exception as e:
                viol('set-up with fix_time_window raised %s for a previous solution that differs from the solver\'s one in internal variables %s only' % (
                    type(e).__name__, flipped[:6]), what='raises', err=impl.err_class(e), tie=True)
                break
            r['evaluated'] += 1
            bad = [j for j in fixed_vars if not (op_t.l[j] == xp[j] and op_t.u[j] == xp[j])]
            if bad:
                j = bad[0]
                viol('previous solution with internal variables %s flipped (feasible, same value): variable %d (%s) belongs to a step in the fixed window (steps %s) but has bounds [%s, %s], previous value %s' % (
                    flipped[:6], j, describe(j), steps[:12], op_t.l[j], op_t.u[j], xp[j]), what='not_pinned', tie=True, coarse_step=j not in fr)
            bad = [j for j in free_vars if not (op_t.l[j] == op_free.l[j] and op_t.u[j] == op_free.u[j])]
            if bad:
                viol('previous solution with internal variables %s flipped: variable %d has no step in the fixed window but its bounds changed' % (flipped[:6], bad[0]), what='free_changed', tie=True)
                break
            rt = impl.solve(op_t)
            if isinstance(rt, str):
                viol('re-optimisation with the window fixed to a previous solution that differs in internal variables %s only (feasible, same value) was not successful (%s)' % (
                    flipped[:6], rt), what='refix_infeasible', tie=True)
                break
            if fixed_vars:
                dv = np.abs(np.asarray(rt.x)[fixed_vars] - xp[fixed_vars])
                if float(dv.max()) > 1e-5 * max(1.0, float(np.abs(xp).max())):
                    j = fixed_vars[int(np.argmax(dv))]
                    viol('previous solution with internal variables %s flipped (feasible, same value): variable %d (%s) of the fixed window (steps %s) moved from %s to %s in the new solution; its bounds are [%s, %s]' % (
                        flipped[:6], j, describe(j), steps[:12], xp[j], rt.x[j], op_t.l[j], op_t.u[j]), what='moved', tie=True, coarse_step=j not in fr)
                    break
            rto = impl.solve(op_to)
            if isinstance(rto, str):
                viol('with unchanged prices the problem fixed to a previous solution that differs in internal variables %s only was not successful (%s)' % (flipped[:6], rto), what='old_infeasible', tie=True)
                break
            if abs(rto.value - v0) > 1e-5 * max(1.0, abs(v0)):
                viol('with unchanged prices and the window fixed to a previous solution that differs in internal variables %s only the optimal value changed from %.8g to %.8g' % (
                    flipped[:6], v0, rto.value), what='value_changed', tie=True)
                break
    # (4) split set-up with a window (date, index mask or time step indices over the whole horizon, reaching into any interval): exactly
    #     the variables with a step in the window are pinned to the previous (split) solution, everything else stays free
    if tg.T >= 4 and (fx['mode'] in ('date', 'index') or len(scn['assets']) % 2 == 0):
        rs0 = None
        try:
            interval = scn.get('split_interval') or pf.split_interval(scn, tg, parts=2 if len(op_fix.c) % 2 else 3)
            rs0 = pf.setup_split(scn, interval)
            pf.solve_rec(rs0)
        except Exception as e:
            # the split set-up WITHOUT window cannot be built for this interval size: not about the window
            rs0 = None
            feats.append('split-fix-error:' + impl.err_class(e))
        if rs0 is not None and not isinstance(rs0['res'], str) and len(getattr(rs0['op'], 'ops', [])) >= 2:
            if fx['mode'] == 'date':
                j = min(fx['k'], tg.T - 1)
                d2 = tg.timepoints[j].to_pydatetime()
                wsteps = set(int(t) for t in tg.I[:j + 1])
            elif fx['mode'] == 'index':
                d2 = window_arg(fx, tg.T)                    # step indices / mask in the same form as in the unsplit set-up
                wsteps = set(steps)
                if fx['form'] == 'boolobj' and not SPLIT_OBJECT_MASK:
                    d2 = None                                # TODO see SPLIT_OBJECT_MASK
                    feats.append('split-fix:object-mask-skipped(TODO)')
                if fx['form'] == 'list' and not fx['idx'] and not SPLIT_EMPTY_LIST:
                    d2 = np.array([], dtype=np.int64)        # TODO see SPLIT_EMPTY_LIST
                    feats.append('split-fix:empty-list-as-int-array(TODO)')
            else:
                d2 = mask.copy() if len(scn['assets']) % 4 else np.where(mask)[0]     # boolean mask or array of step indices
                if fx['k'] % 3 == 0 and len(scn['assets']) % 4:
                    d2 = mask.tolist()                       # the mask as plain Python list of bools, as in the unsplit set-up
                wsteps = set(steps)
            xs = np.array(rs0['res'].x, dtype=float)
            op_sf = None
            try:
                if d2 is not None:
                    with Quiet():
                        op_sf = rs0['portf'].setup_split_optim_problem(rs0['prices'], rs0['tg'], interval_size=interval, fix_time_window={'I': d2, 'x': xs.copy()})
            except Exception as e:
                if probe:
                    # refused by the split set-up: out of scope (see PROBE_FORMS)
                    feats.append('split-window-form-rejected:%s:%s' % (fx['form'], impl.err_class(e)))
                else:
                    viol('split set-up (interval %s) with fix_time_window raised %s: %s (the split set-up without window and the unsplit set-up with this window work)' % (
                        interval, type(e).__name__, str(e)[:160]), what='split_raises', err=impl.err_class(e))
            if op_sf is not None:
                feats.append('split-fix')
                if fx['mode'] == 'index':
                    feats.append('split-fix-index:%s:%s' % (fx['shape'], fx['form']))
                r['evaluated'] += 1
                ms = op_sf.mapping
                op_s0 = rs0['op']
                if len(op_sf.c) != len(op_s0.c) or len(op_sf.ops) != len(op_s0.ops):
                    viol('split set-up with a fixed window has %d variables, without %d' % (len(op_sf.c), len(op_s0.c)), what='split_fix_sizes')
                else:
                    # variables of coarse steps: as in the unsplit set-up, if every interval begins where coarse steps begin (else the
                    # coarse steps of an interval are not those of the whole horizon: steps as labelled)
                    s_cells = cells if (cells and split_aligned(tg, interval, cells)) else {}
                    if cells:
                        feats.append('split-fix:coarse-steps-%s' % ('aligned' if s_cells else 'cut-by-intervals'))
                    pinned, pinned_rows = c15coarse.belonging(ms, wsteps, s_cells)
                    if pinned != pinned_rows:
                        feats.append('split-fix:variable-of-a-coarse-step-in-the-window-not-labelled-with-a-step-of-the-window')
                    lf, uf = np.concatenate([o.l for o in op_sf.ops]), np.concatenate([o.u for o in op_sf.ops])
                    l0, u0 = np.concatenate([o.l for o in op_s0.ops]), np.concatenate([o.u for o in op_s0.ops])
                    for v in range(len(op_sf.c)):
                        if v in pinned:
                            if not (lf[v] == xs[v] and uf[v] == xs[v]):
                                viol('split set-up: variable %d belongs to a step in the fixed window but has bounds [%s, %s], previous value %s' % (v, lf[v], uf[v], xs[v]), what='split_not_pinned')
                                break
                        elif not (lf[v] == l0[v] and uf[v] == u0[v]):
                            viol('split set-up: variable %d has no step in the fixed window but its bounds changed from [%s, %s] to [%s, %s]' % (
                                v, l0[v], u0[v], lf[v], uf[v]), what='split_free_changed')
                            break
                    if not all(np.array_equal(o1.c, o0.c) and o1.cType == o0.cType and np.array_equal(o1.b, o0.b) for o1, o0 in zip(op_sf.ops, op_s0.ops)):
                        viol('split set-up: costs or restrictions differ between the fixed and the free problem', what='split_rest_changed')
    if m.index.duplicated().any():
        feats.append('several-rows-per-variable')
    r['nontrivial'] = 0 < len(fixed_vars) < len(op_fix.c) and bool(np.abs(x0[fixed_vars]).max() > 1e-9)
    r['observed'] = {'fixed_vars': len(fixed_vars), 'free_vars': len(free_vars)}
    return r
