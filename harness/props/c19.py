"""C19 Time grid and interval data."""
from ..comp import grid as G
from ..comp import prices as PR

ID = 'C19'
P = 'EAO.Properties.C19'
THEOREMS = [
    (P, 'EAO.C19.grid_points', 'tick grids: T whole steps, points start + k*step, strictly increasing, first = start, all points < stop, uncovered remainder shorter than one step'),
    (P, 'EAO.C19.grid_points_empty', 'stop < start: no step; construction is rejected'),
    (P, 'EAO.C19.dt_real', 'for ANY point list (hence also calendar / DST): dt_i * unit = p_{i+1} - p_i and Dt_i = sum_{j<=i} dt_j'),
    (P, 'EAO.C19.dt_pos', 'strictly increasing points give positive step lengths'),
    (P, 'EAO.C19.calendar_grid_points', 'calendar grids: under the checked hypothesis CalendarOK the points are increasing, start at the grid start and lie before the end'),
    (P, 'EAO.C19.restricted_is_filter', 'a restricted grid is exactly the sub-list of reference rows whose point lies in [s,e), with original index, dt, Dt, discount'),
    (P, 'EAO.C19.restricted_points', 'membership in the restricted grid = in the reference and in the window'),
    (P, 'EAO.C19.restrict_restrict', 'restricting twice = restricting to the intersection'),
    (P, 'EAO.C19.restrict_idempotent', 'restriction is idempotent'),
    (P, 'EAO.C19.coarse_partition', 'when coarsening succeeds: one coarse step per pair of cuts THAT HOLDS A FINE STEP, in order (pairs without any - window beyond the reference grid - are skipped and hold nothing); minor lists = the fine steps of the interval, non-empty, consecutive, disjoint, covering [first cut, last cut); sum of dt preserved (reference with as many dt as indices)'),
    (P, 'EAO.C19.coarse_partition_no_empty', 'the statement as it read before empty intervals were skipped, under the hypothesis it used to get from the success of the construction: no pair of cuts without fine step => one coarse step per pair of cuts, step j = the fine steps of [cuts_j, cuts_j+1)'),
    (P, 'EAO.C19.coarse_partition_whole', 'corollary: window a whole number of coarse steps => the fine steps of the window are partitioned without loss (wherever the window lies relative to the reference grid)'),
    (P, 'EAO.C19.coarse_partition_clipped', 'corollary: window ending after the last cut with no reference point in between (it reaches beyond the horizon) => the fine steps of the window clipped to the reference grid are partitioned without loss, whole number of coarse steps or not'),
    (P, 'EAO.C19.coarse_empty_skipped', 'a pair of cuts without fine step is skipped: the coarse grid is that of the remaining cuts (the construction used to fail there)'),
    (P, 'EAO.C19.coarse_first_minor', 'a coarse step carries index, point and Dt of its first minor step (reference index = position)'),
    (P, 'EAO.C19.values_error_iff', 'values_to_grid raises the overlap error iff some grid point lies in two intervals'),
    (P, 'EAO.C19.values_error_kind', 'overlap is the only error'),
    (P, 'EAO.C19.values_unique', 'on success: value of the unique interval containing the point, undefined outside all intervals'),
    (P, 'EAO.C19.implicit_ends', 'implicit ends: next start; last interval extended by twice the last gap; a single start is valid for ever'),
    (P, 'EAO.C19.mkIntervals_explicit', 'zip semantics of start/end/values'),
    (P, 'EAO.C19.prep_without_end', 'prep_date_dict on data without ends yields nothing'),
    (P, 'EAO.C19.gridded_passthrough', 'already gridded arrays pass through unchanged'),
    (P, 'EAO.C19.coarse_remainder_witness', 'machine-checked witness of known finding F-19b (coarse window not a whole number of coarse steps covers 4 of 5 steps)'),
    (P, 'EAO.C19.coarse_beyond_grid_witness', 'the former witness of the crash is accepted: window 3 h beyond a 5 h grid, 2 h steps: steps [0,1],[2,3],[4], the empty pair skipped, all 5 h covered; window starting 4 h before the grid: the two leading pairs skipped'),
    (P, 'EAO.C19.coarse_on_restricted_witness', 'machine-checked witness of known finding F-19d'),
]
THEOREMS = THEOREMS + PR.THEOREMS_C19_PRICES
from ..comp import dstgrid as DG
THEOREMS = THEOREMS + DG.THEOREMS_C19_DST
PARTIAL = ['coarse_partition covers [first cut, last cut), not the window: when the window is not a whole number of coarse steps AND ends inside the reference grid the implementation drops the fine steps after the last cut (known finding F-19b); a window that reaches beyond the reference grid loses nothing (coarse_partition_clipped)']
COMPONENTS = ['grid (tick + supplied calendar points) vs Timegrid.__init__', 'restrict vs set_restricted_grid', 'coarsen vs the coarse branch', 'values_to_grid / implicit ends / prep_date_dict', 'prices pass-through']
RULE = ('generated grids (5 zones, units h/d/min/s, tick frequencies + calendar d/MS/W, DST dates), restriction windows from a placement table, coarse multiples and non-multiples, coarse windows reaching beyond the reference grid (before the start, after the end, both; by whole coarse steps, by part of one, entirely outside), interval lists in all container forms incl. malformed; '
        'stream cclip: coarse windows that outlive the reference grid whose end lies OFF the window\'s raster of coarse steps start + j*freq (window starting on a grid point / at the grid start / before it, reaching beyond by a part of a coarse step up to several; one in four with the end ON the raster as control; some with interval data on the coarse grid); '
        'stream vcar: interval limits handed over as numpy datetime64 arrays / scalars of every resolution [D] [h] [m] [s] [ms] [us] [ns], lists of datetime / date / Timestamp / datetime64 / ISO strings, DatetimeIndex, Timestamps and object arrays of resolution s/ms/us/ns, aware and wall-clock, start and end in different containers, explicit and implicit ends, on plain, restricted and coarse grids; '
        'thorough: all windows on DST-night grids up to 48 steps; non-trivial = grid with more than one step built without error; distinct by case hash')
ASSUMPTIONS = ['exact comparison when every dt is dyadic, 1e-9 relative otherwise',
               'coarse oracle: the raster of a coarse window is computed from the window alone (fixed-length frequencies: integer arithmetic on instants; calendar frequencies: pandas date_range, trusted base), never from the reference grid; a lost fine step INSIDE [first cut, last cut) is a violation of coarse_partition (/_clipped /_whole), one before the first or at / after the last cut is the remainder of known finding F-19b',
               'stream vcar: the expected values are computed from the instants of the case (ISO wall-clock time + zone), never from the container handed to the code; the containers are built with explicit conversions (numpy arrays from integer counts of the resolution since the epoch), the limits being whole multiples of the resolution']
MODELLED = ['pandas localisation of naive dates and calendar arithmetic (date_range for calendar frequencies): inputs of the model, produced with the same pandas calls the code makes; hypothesis CalendarOK evaluated on what pandas returned',
            'prices_to_grid: the construction of the frame from the user\'s container (DataFrame.from_dict, pd.to_datetime of the keys) is done by pandas on the harness side; the model starts at the frame (index + columns) and covers union, interpolation in time, selection and the error classes']
EXPLANATION = ('theorems about the model of Timegrid / values_to_grid; correspondence and the C19 statements evaluated on the real objects; '
               'oracle grid.coarse_partition classifies every lost fine step of a coarse window against the window\'s own raster (kinds coarse_interval_lost / coarse_remainder / coarse_outside_window); '
               'oracle grid.values_unique is evaluated for every container and time resolution of the interval limits (stream vcar)')


def scenarios(seed, tier):
    n = 1600 if tier == 'quick' else 9600
    for cid, c in G.cases(seed, n):
        yield cid, c
    if tier == 'thorough':
        for cid, c in G.exhaustive_windows(48):
            yield cid, c
    # prices_to_grid (comp/prices.py): interpolation in time, all input containers, restricted / coarse / empty target grids
    import random
    rnd = random.Random(seed * 104729 + 1919)
    for i, c in enumerate(PR.corner_cases()):
        yield 'prc%d' % i, {'_stream': 'prices', 'case': c}
    for i in range(n // 4):
        yield 'pr%d' % i, {'_stream': 'prices', 'case': PR.gen_case(random.Random(rnd.getrandbits(48)))}
    # daily grids in zones with daylight saving against the model with the zone's offset table as input (comp/dstgrid.py)
    import random as _random
    _rdg = _random.Random(seed * 104729 + 1920)
    for i, c in enumerate(DG.corner_cases()):
        yield 'dgc%d' % i, {'_stream': 'dstgrid', 'case': c}
    for i in range(120 if tier == 'quick' else 800):
        yield 'dg%d' % i, {'_stream': 'dstgrid', 'case': DG.gen_case(_random.Random(_rdg.getrandbits(48)))}


def run_case(case, drv):
    if isinstance(case, dict) and case.get('_stream') == 'dstgrid':
        r = DG.run_case(case['case'], drv)
        return {'evaluated': 1, 'nontrivial': bool(r.get('nontrivial')), 'features': ['stream:dstgrid'] + list(r.get('features', [])),
                'disagreements': [d if isinstance(d, dict) else {'component': 'daily DST grid', 'detail': d} for d in r['disagreements']],
                'violations': r['violations']}
    if isinstance(case, dict) and case.get('_stream') == 'prices':
        r = PR.run_case(case['case'], drv)
        r.pop('exact', None)
        r['features'] = ['stream:prices'] + list(r.get('features', []))
        return r
    r = G.run_case(case, drv)
    r['disagreements'] = [d if isinstance(d, dict) else {'component': 'grid', 'detail': d} for d in r['disagreements']]
    return r
