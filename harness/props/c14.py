"""C14 Split optimisation."""
import copy
import random
import numpy as np
import pandas as pd
from .. import gen, pf, impl, scen
from ..impl import Quiet
from ..comp import split as SP
from ..comp import splitrep as SR
from ..comp import splitbuild as SB
from ..comp import splitstorage as SS

ID = 'C14'
THEOREMS = [
    ('EAO.Properties.C03', 'EAO.C03.blockSum_feasible', 'the problem a split optimisation solves is the block-diagonal sum of the interval problems: feasibility = feasibility of every interval on its slice'),
    ('EAO.Properties.C03', 'EAO.C03.blockSum_value', 'its value is the sum of the interval values'),
    ('EAO.Properties.C03', 'EAO.C03.blockSum_optimal', 'interval-wise optima concatenate to an optimum of the block sum: the split value is the sum of the interval optima'),
    ('EAO.Properties.C03', 'EAO.C03.concatVec_block', 'the concatenated solution restricted to interval i is the i-th interval solution'),
    ('EAO.Properties.C01', 'EAO.C01.nodal_balance_split', 'the concatenated solution satisfies nodal balance at the original steps'),
    ('EAO.Properties.C04', 'EAO.C04.value_accounting_split', 'value accounting interval by interval'),
] + SP.THEOREMS_C14_SPLIT + SP.THEOREMS_C14_LE
THEOREMS = THEOREMS + SB.THEOREMS_C14_BUILDERS + SS.THEOREMS_C14_STORAGE
from ..comp import obsplit as OB
from ..comp import obsplit2 as OB2
from ..comp import blocksplit as BK
THEOREMS = THEOREMS + OB.THEOREMS_C14_ORDERS + OB2.THEOREMS_C14_ORDERS2 + BK.THEOREMS_C14_BLOCKS
PARTIAL = ['for portfolios of the five contract / transport builder classes (SimpleContract, Contract, MultiCommodity, Transport, ExtendedTransport, freq = None) the relation to the unsplit problem IS a theorem about the builders (EAO.C14B.split_equals_unsplit_builders under the decidable hypotheses splitHyps: same one-/two-variable form in every interval, no array parameter of the grid\'s length, every take period inside one interval, positive step lengths; each hypothesis has a machine-checked example showing it is needed); for LP storages next to them it is a theorem as well (EAO.C14S.split_le_unsplit_builders: the split set-up is the unsplit portfolio with every storage in restart form; with start level = end level in [0, size], cost_store = 0 and intervals that tile the storage\'s steps the concatenated interval solutions are feasible for the unsplit problem with the same value, hence split <= unsplit; the exact cost relation with holding costs is storage_split_value(_const); machine-checked counterexamples for start != end, start < 0, cost_store != 0); for order books whose orders each lie inside one interval it is a theorem too (EAO.C14O2.split_equals_unsplit_orderbooks_builders about the interval problems of the asset problems; the identification of the literal split output with them modulo inert variables, EAO.C14O.split_equals_unsplit_orderbooks, still takes the decidable witness splitWitnessModInert, evaluated per case); storages with time blocks are modelled with the block starts recomputed per interval, the statement `aligned blocks => witness` is a TARGET evaluated per case (oracle aligned_witness), its consequence under the witness is EAO.C14K.blocks_aligned_split_equals_unsplit_partial; for all other assets (storages with MIP options, plants, wrappers) the relation to the UNSPLIT problem is decided by per-instance certificates, not by a theorem about the builders: split = unsplit (value and dispatch) by theorem split_equals_unsplit(_bool) under the decidable witness splitWitness, split <= unsplit (and: the concatenated split solution satisfies every row and bound of the unsplit problem) by split_solution_le_unsplit(C)(_bool) under splitLeWitness(C) with exact row-implication multipliers; the driver evaluates the witnesses EXACTLY on the real unsplit problem and the real interval problems of every case of the uncoupled resp. storage streams (a false witness there is reported as a broken tie). Outside the certificates, on the numerical oracle only: cases in which the unsplit problem needs the two-variable form of a contract and an interval gets by with one variable (different variable sets, no matching), and storages with holding costs whose float cost vectors differ from an exact multiple of the end-level rows by rounding noise. The shortcut io.optimize and the DataFrame form of the price data are covered by the numerical / exact-comparison oracles on the real code only (no model of io.optimize or of Timegrid.prices_to_grid is involved in C14); of the shortcut result the value, the steps and the columns of the dispatch table are compared with the direct split path, not the dispatch numbers (degenerate optima)']
COMPONENTS = ['per-interval assemble on captured asset problems vs the interval problems of setup_split_optim_problem', 'index shift / original step numbers of the joint mapping', 'split-witness: exact evaluation of splitWitness (unsplit real problem renamed along the matching of the variables = block sum of the real interval problems)', 'split-le-witness: exact evaluation of splitLeWitness(C) (every unsplit row implied by interval rows with explicit multipliers found numerically)']
RULE = ('random portfolios x interval sizes (aligned and not aligned with the horizon, incl. partial last interval); three streams: uncoupled assets only (value and dispatch equal to unsplit), storages with start=end level as only coupling (split <= unsplit, concatenated solution feasible for unsplit), anything (sum of interval optima, balance, limits, original steps); '
        'in 6 of 10 cases of the uncoupled (outside its fixed-scale variant) and of the anything stream plants / CHPs WITH a fuel node are added whose fuel efficiency, fuel consumption when on / per start, conversion factor, heat share, start and running costs '
        'are keys into the price data or interval dicts (comp.split.add_fuel_plants over gen.gen_plant and comp.history.vary_data_keys; uncoupled: LP plants and plants with on-variables only, nothing linking two steps; anything: minimum times, starts, ramps too); '
        'every case: the unsplit reference is also set up with the price data as DataFrame on the grid (Timegrid.prices_to_grid or a frame built by the caller - the form every interval of the split set-up receives) and must be the identical problem; '
        'the share with which a dispatch variable flows into a node (disp_factor: fuel per unit of power, transport efficiency, commodity factors) is compared between split and unsplit mapping variable by variable; '
        'one case in three: the split optimisation is also run through the shortcut eaopack.io.optimize(portf, timegrid, data, split_interval_size) on a portfolio object used before on ANOTHER grid '
        '(comp.history.grid_variants: shifted, shorter, longer, other zone / step / unit; use = grid set, set up, split set up, optimised with the shortcut, JSON round trip with the grid) - value, steps and columns of its dispatch table against the direct split path; '
        'stream repeat (comp.splitrep, a fifth of the count of the other streams): horizons of m intervals of k steps (plus a shorter last one in 3 of 10 cases) whose intervals look alike in PART of their data and '
        'differ in the rest - per case each of the categories cost data (prices, extra / transport / start / running costs), bound data (minimum / maximum capacities) and restriction data '
        '(take quantities, fuel efficiency, fuel consumption when on / per start, conversion factor, heat share, minimum-load threshold) either REPEATS from interval to interval '
        '(the profile of the first interval tiled over the horizon, or flat; one take quantity for all intervals) or is the INTERVAL\'S OWN (series per step or per interval, capacities times a factor per interval, '
        'a take quantity per interval); mostly costs and bounds repeat and the restriction data are the interval\'s own; families: contracts / extended transports / multi-commodity contracts with take periods per interval '
        '(the interval itself or the same sub-window of every interval; in 1 of 10 cases periods spanning intervals), plants / CHPs with fuel node and keyed parameters (LP and with on-variables, minimum times, starts, ramps), '
        'storages with start = end level next to such contracts, mixed portfolios with scaled and structured assets, order books, storages; the coupling of the case (nothing / storages / takes / anything) selects the parts of the '
        'statement that are demanded, as in the other streams; in addition every interval problem is set up and solved ON ITS OWN (fresh objects, interval grid derived from the whole grid, nothing of the split set-up or of '
        'SplitOptimProblem involved): the split value must be the sum of these optima and the split optimisation must succeed exactly when every interval has one; for "anything" cases (also of the stream any) the concatenated solution '
        'must satisfy the bounds of the unsplit problem and every row of it that touches variables of one interval only; '
        'non-trivial = at least 2 non-empty intervals and a non-zero value; distinct by scenario hash')
ASSUMPTIONS = ['values compared with tolerance 2e-6 relative',
               'stream repeat: "interval optimum" is read as the optimum of Portfolio.setup_optim_problem on the interval grid (Timegrid(start, end, freq, main_time_unit, ref_timegrid = whole grid), steps re-based to 0..) '
               'with the data of the interval\'s steps - what the documentation of setup_split_optim_problem describes; a row of the unsplit problem counts as "coupling" exactly when it has non-zero coefficients at variables of two intervals']
EXPLANATION = ('block-sum theorems; oracle on the real code compares split with unsplit (the unsplit reference in both accepted forms of the price data: dict of arrays and DataFrame), '
               'and the result of the documented shortcut io.optimize(..., split_interval_size) on a portfolio with a history on another grid with the direct split path; '
               'on horizons with recurring / flat price profiles and interval-specific restrictions (stream repeat) the split value is also compared with the sum of the optima of interval problems set up and solved independently of the split set-up, '
               'and the concatenated solution with every bound and non-coupling row of the unsplit problem')


def scenarios(seed, tier):
    n = 480 if tier == 'quick' else 2880
    rnd = random.Random(seed * 7919 + 14)
    for i in range(n):
        r2 = random.Random(rnd.getrandbits(48))
        stream = ['uncoupled', 'storage', 'any', 'takes'][i % 4]
        if i % 12 == 9:
            stream = 'blocks'
        if i % 12 == 5:
            stream = 'storage_ne'
        if stream == 'uncoupled':
            s = gen.gen_portfolio(r2, tmax=12, tz_prob=0.1, kinds=['simple', 'transport', 'multi_nt', 'simple', 'plant_lp'], allow_mip=False,
                                  allow_periodic=False, allow_freq=False)
        elif stream == 'storage':
            s = gen.gen_portfolio(r2, tmax=12, tz_prob=0.1, kinds=['simple', 'transport', 'storage_se', 'storage_se'], allow_mip=False,
                                  allow_periodic=False, allow_freq=False, allow_blocks=False)
        elif stream == 'storage_ne':
            # storages whose start level differs from their end level: the per-asset limits on the ORIGINAL grid still have to hold
            s = gen.gen_portfolio(r2, tmax=12, tz_prob=0.0, kinds=['simple', 'storage', 'storage'], allow_mip=False,
                                  allow_periodic=False, allow_freq=False, allow_blocks=False)
            for a in s['assets']:
                if a['type'] == 'Storage':
                    size = float(a['args']['size'])
                    a['args']['start_level'] = gen.q8(r2, 0, size / 4)
                    a['args']['end_level'] = gen.q8(r2, size / 2, size)
                    a['args'].pop('start', None)
                    a['args'].pop('end', None)
        elif stream == 'blocks':
            # storages optimised in time blocks that coincide with the intervals (start level = end level): nothing couples
            s = gen.gen_portfolio(r2, tmax=12, tz_prob=0.0, kinds=['simple', 'storage_se', 'storage_se', 'transport'], allow_mip=False,
                                  allow_periodic=False, allow_freq=False, allow_blocks=False, grids=[g_ for g_ in gen.GRIDS if g_[2] <= pd.Timedelta(hours=4)])
        elif stream == 'takes':
            # contracts / transports with take periods spanning several intervals: the only coupling; the interval shares add up
            s = gen.gen_portfolio(r2, tmax=12, tz_prob=0.1, kinds=['contract', 'contract', 'ext_transport', 'simple'], allow_mip=False,
                                  allow_periodic=False, allow_freq=False, allow_wacc=True)
        else:
            s = gen.gen_portfolio(r2, tmax=12, tz_prob=0.1, allow_periodic=False, allow_freq=False)
        # the widenings of round 5 draw from a generator of their own (the cases of the earlier rounds keep their data)
        r3 = random.Random((seed * 7919 + 14) * 1000003 + i)
        if stream == 'uncoupled' and i % 8 != 4 and r3.random() < 0.6:
            # plants / CHPs with a FUEL node whose efficiency, fuel consumption, conversion factors are keys into the price data
            # (or interval dicts); nothing of them links two steps (no ramps, minimum times, starts): LP plants and plants with
            # 'on' variables only
            SP.add_fuel_plants(r3, s, coupled=False)
            s['fuel_plants'] = True
        elif stream == 'any' and r3.random() < 0.6:
            # the same with everything a plant can have (minimum times, starts, start fuel, ramps)
            if r3.random() < 0.7:
                SP.add_fuel_plants(r3, s, coupled=True)
            else:
                from ..comp import history as _H
                _H.vary_data_keys(r3, s, True)
            s['fuel_plants'] = True
        if r2.random() < 0.25:
            gen.make_late_start(s, r2)
        if stream == 'storage' and i % 8 in (3, 5):
            # probes at the points outside the hypotheses of the storage theorems (EAO.C14S.storage_split_value_const, splitHypsS):
            # holding costs with a negative inflow (losses), time blocks of a size that is not the interval size
            for a in s['assets']:
                if a['type'] == 'Storage':
                    if i % 8 == 3:
                        a['args']['cost_store'] = gen.q8(r3, 0.25, 2)
                        a['args']['inflow'] = -gen.q8(r3, 0.125, 0.5)
                    else:
                        a['args']['block_size'] = '%dmin' % (s['grid']['step_s'] // 60 * r3.choice([2, 3, 5]))
                        a['args'].pop('start', None)
                        a['args'].pop('end', None)
            s['probe'] = 'hc_neg_inflow' if i % 8 == 3 else 'blocks_off_cuts'
        if stream == 'uncoupled' and i % 8 == 4:
            # a scaled asset held at a FIXED scale (so the scale couples nothing) with fixed costs, over a base that is active in
            # part of the horizon only
            g_ = s['grid']
            base = gen.gen_simple_contract(r2, g_, s['prices'], g_['T_nominal'], 'fsc_b', s['nodes'][0])
            base['args'].pop('start', None)
            base['args'].pop('end', None)
            gen.put_window(base['args'], gen.window(r2, g_, kinds=['inside', 'start_only', 'end_only']))
            s['assets'].append({'type': 'ScaledAsset', 'name': 'fsc', 'base': base, 'args': {'min_scale': 1.0, 'max_scale': 1.0, 'norm_scale': 1.0, 'fix_costs': gen.q8(r2, 0.125, 1)}})
            s['fixed_scaled'] = True
        s['stream'] = stream
        s['parts'] = r2.choice([2, 3, 3, 4, 5])
        s['odd'] = r2.random() < 0.4      # interval not aligned with the horizon
        if stream == 'blocks':
            s['odd'] = False
            s.pop('late_start', None)
            from .. import scen as _scen
            iv = interval_of(s, _scen.make_grid(s['grid']))
            for a in s['assets']:
                if a['type'] == 'Storage':
                    a['args']['block_size'] = iv
                    a['args'].pop('start', None)
                    a['args'].pop('end', None)
        # the unsplit reference is also set up with the price data as DataFrame (the form every interval of the split set-up gets)
        s['frame'] = r3.choice(['to_grid', 'frame'])
        # one case in three: the split optimisation is ALSO run through the shortcut eaopack.io.optimize(..., split_interval_size)
        # on a portfolio object that was used before on another grid (shifted / shorter / longer / other zone, step, unit)
        if r3.random() < 0.34:
            from ..comp import history as _H
            var = _H.grid_variants(r3, s['grid'], 1)
            if var:
                s['shortcut'] = {'grid': var[0], 'use': r3.choice(['set', 'setup', 'setup', 'optimize', 'optimize', 'split', 'json'])}
        yield 'gen%d' % i, s
    # the same kind of portfolio through the other doors of the package (io.optimize with the data in several containers,
    # run_from_json, set_param): comp/entry.py
    from ..comp import entry as EN
    yield from EN.stream(seed, n // 8, ('io_split',), tmax=10 if tier == 'quick' else 16)
    # intervals that look alike in part of their data (recurring / flat price profiles, the same capacities) and differ in the rest
    # (take quantities per interval, efficiencies, capacities): comp/splitrep.py
    yield from SR.stream(seed, n // 5)
    # the split set-up of portfolios of the five contract / transport builders against its model, the decidable hypotheses of
    # EAO.C14B.split_witness_builders against the witness evaluated on the REAL problems (comp/splitbuild.py)
    rnd_sb = random.Random(seed * 104729 + 1414)
    for i in range(100 if tier == 'quick' else 700):
        yield 'sbd%d' % i, {'_stream': 'splitbuild', 'case': SB.gen_case(random.Random(rnd_sb.getrandbits(48)))}
    # the same with storages (restart form of the unsplit problem; split <= unsplit for start level = end level): comp/splitstorage.py
    rnd_ss = random.Random(seed * 104729 + 1415)
    for i in range(80 if tier == 'quick' else 500):
        yield 'sst%d' % i, {'_stream': 'splitstorage', 'case': SS.gen_case(random.Random(rnd_ss.getrandbits(48)))}
    # order books in the split set-up: equivalence modulo inert variables (witness evaluated on model and real problems): comp/obsplit.py
    rnd_ob = random.Random(seed * 104729 + 1416)
    for i in range(60 if tier == 'quick' else 400):
        yield 'obs%d' % i, {'_stream': 'obsplit', 'case': OB.gen_case(random.Random(rnd_ob.getrandbits(48)))}
    # storages with tick block sizes in the split set-up: block starts recomputed per interval (comp/blocksplit.py); the TARGET
    # "aligned blocks => witness" is evaluated per case (oracle aligned_witness), not yet a theorem
    rnd_bk = random.Random(seed * 104729 + 1417)
    for i in range(60 if tier == 'quick' else 400):
        yield 'blk%d' % i, {'_stream': 'blocksplit', 'case': BK.gen_case(random.Random(rnd_bk.getrandbits(48)))}


def interval_of(scn, tg):
    if scn.get('interval'):
        return scn['interval']          # the stream names its interval size itself
    T = tg.T
    step = scn['grid']['step_s']
    k = max(1, T // scn['parts'])
    if scn['odd'] and T > 2:
        k = max(1, k) + (1 if (T % max(1, k)) == 0 else 0)
    tot = step * k
    return ('%dmin' % (tot // 60)) if tot % 3600 else ('%dh' % (tot // 3600))


def key_rows(m):
    """mapping rows as keys (asset, node, type, var_name, step, factor)"""
    fac = m['disp_factor'].fillna(1.).values if 'disp_factor' in m.columns else np.ones(len(m))
    vn = m['var_name'].astype(str).values if 'var_name' in m.columns else ['nan'] * len(m)
    return [(str(a), str(n), str(t), str(v), int(s), round(float(f), 12)) for a, n, t, v, s, f in
            zip(m['asset'].values, m['node'].values, m['type'].values, vn, m['time_step'].values, fac)]


def run_case(scn, drv):
    if scn.get('_stream') == 'blocksplit':
        case = scn['case']
        r = BK.run_impl(case)
        req = BK.request(case, r)
        mres = drv.ask(req)
        m = mres.get('ok', {})
        return {'evaluated': 1, 'nontrivial': bool(m.get('aligned')) and 'intervals' in r.get('split', {}),
                'features': ['stream:blocksplit', 'aligned:%s' % m.get('aligned'), 'witness:%s' % m.get('witness')],
                'disagreements': [{'component': 'split storages with blocks', 'detail': d} for d in BK.compare(case, r, mres, req)],
                'violations': BK.oracle(case, r, mres, drv)}
    if scn.get('_stream') == 'obsplit':
        case = scn['case']
        r = OB.run_impl(case)
        req = OB.request(case, r)
        mres = drv.ask(req)
        m = mres.get('ok', {})
        return {'evaluated': 1, 'nontrivial': bool(m.get('inside')) and 'intervals' in r['split'],
                'features': ['stream:obsplit', 'inside:%s' % m.get('inside'), 'witness:%s' % m.get('witness')],
                'disagreements': [{'component': 'split order books', 'detail': d} for d in OB.compare(case, r, mres, req)],
                'violations': OB.oracle(case, r, mres, drv)}
    if scn.get('_stream') == 'splitstorage':
        case = scn['case']
        r = SS.run_impl(case)
        try:
            req = SS.request(case, r)
        except Exception as e:
            if type(e).__name__ in ('AmbiguousTimeError', 'NonExistentTimeError'):
                # an instant of the asset's data that does not exist / exists twice on the wall clock of the grid's zone cannot be
                # handed to the model unambiguously: the case is not judged (no statement about the code)
                return {'evaluated': 0, 'nontrivial': False, 'features': ['stream:splitstorage', 'skipped:wall-clock-instant-ambiguous'], 'disagreements': [], 'violations': []}
            raise
        mres = drv.ask(req)
        dis = SS.compare(case, r, mres, req)
        vio = SS.oracle(case, r, mres, drv)
        m = mres.get('ok', {})
        return {'evaluated': 1, 'nontrivial': bool(m.get('hyps')) and 'intervals' in r['split'],
                'features': ['stream:splitstorage', 'ss:' + str(case.get('stream')), 'hyps:%s' % m.get('hyps'), 'level:%s' % m.get('level'), 'witness_restart:%s' % m.get('witness_restart')],
                'disagreements': [{'component': 'split storages', 'detail': d} for d in dis], 'violations': vio}
    if scn.get('_stream') == 'splitbuild':
        case = scn['case']
        r = SB.run_impl(case)
        req = SB.request(case, r)
        mres = drv.ask(req)
        dis = SB.compare(case, r, mres, req) + SB.compare_grids(r, drv)
        viol = SB.oracle(case, r, mres, drv)
        m = mres.get('ok', {})
        return {'evaluated': 1, 'nontrivial': bool(m.get('hyps')) and 'intervals' in r['split'],
                'features': ['stream:splitbuild', 'sb:' + case['stream'], 'hyps:%s' % m.get('hyps'), 'witness:%s' % m.get('witness')],
                'disagreements': [{'component': 'split builders', 'detail': d} for d in dis], 'violations': viol}
    if scn.get('_stream') == 'entry':
        from ..comp import entry as EN
        return EN.run_stream_case(scn, ('entry_point', 'nodal_balance', 'value_accounting'))
    r = {'evaluated': 1, 'nontrivial': False, 'features': [], 'disagreements': [], 'violations': []}
    feats = r['features']
    feats.append('stream:' + scn['stream'])
    # what the stream says about the coupling of the intervals decides which parts of the statement apply; the streams of the
    # earlier rounds are named after it, the stream 'repeat' carries it in 'sem'
    sem = scn.get('sem') or scn['stream']
    if scn['stream'] == 'repeat':
        feats.append('repeat-sem:' + sem)
        feats.append('repeat-family:' + str(scn.get('family')))
        feats.append('repeat-mode:' + str(scn['repeat']['mode']))
        feats.append('repeat-takes:' + str(scn['repeat']['takes']))
        feats += ['repeat-note:' + x for x in scn['repeat'].get('notes', [])]
    for a in scn['assets']:
        feats.append('asset:' + a['type'])

    # facts of the scenario that name regions outside the hypotheses of the storage theorems (EAO.C14S): holding costs together
    # with a NEGATIVE inflow (finding F-14j), time blocks that are not the intervals (finding F-14k)
    _st = [a.get('base', a) for a in scen.all_asset_specs(scn) if a.get('base', a).get('type') == 'Storage']
    _hc = any(float(a['args'].get('cost_store', 0) or 0) * float(a['args'].get('inflow', 0) or 0) < 0 for a in _st
              if not isinstance(a['args'].get('cost_store', 0), (dict, str)) and not isinstance(a['args'].get('inflow', 0), (dict, str)))
    _bl = any(a['args'].get('block_size') is not None for a in _st) and scn['stream'] != 'blocks'

    def viol(msg, **facts):
        r['violations'].append({'oracle': 'split', 'detail': msg, 'facts': dict(facts, stream=scn['stream'], hc_neg_inflow=_hc, blocks_off_cuts=_bl)})
    try:
        rec = pf.setup_mono(scn)
        pf.solve_rec(rec)
    except Exception as e:
        feats.append('setup-error:' + impl.err_class(e))
        return r
    tg = rec['tg']
    if len(rec['op'].c) == 0:
        feats.append('skip:no-active-asset')      # nothing inside the horizon: neither problem can be optimised
        return r
    interval = interval_of(scn, tg)
    feats.append('interval:' + interval)
    if scn.get('fuel_plants'):
        feats.append('fuel-plants:' + ('keyed' if SP.has_keyed_plant(scn) else 'unkeyed'))
    # --- the unsplit reference does not depend on the FORM of the price data: a DataFrame on the grid (what every interval of the
    #     split set-up is given) yields the same problem as the dict of arrays
    if scn.get('frame') and scn.get('prices'):
        d = SP.frame_check(scn, rec)
        r['evaluated'] += 1
        feats.append('frame:' + scn['frame'])
        if d is not None:
            viol('the unsplit problem set up with the price data as DataFrame (%s) differs from the one set up with a dict of arrays, so the split result cannot agree with both: %s'
                 % (scn['frame'], d), what='prices_frame')
    try:
        rs = pf.setup_split(scn, interval)
    except Exception as e:
        viol('split set-up raises %s (%s) although the unsplit set-up works' % (type(e).__name__, str(e)[:150]), what='raises', err=impl.err_class(e))
        return r
    ops = rs['op'].ops
    feats.append('intervals:%d' % len(ops))
    # --- correspondence: every interval problem = assemble of the asset problems captured for that interval
    n_iv = len(ops)
    # intervals in which no asset has a variable are skipped by the implementation: drop them from the captured lists too
    ncap = max(len(v) for v in rs['captured_list'].values())
    keep = [k for k in range(ncap) if sum(len(rs['captured_list'][a.name][k].c) for a in rs['portf'].assets) > 0]
    rs['captured_list'] = {nm: [v[k] for k in keep] for nm, v in rs['captured_list'].items()}
    tp = tg.timepoints
    cuts = pd.date_range(start=tg.start, end=tg.end, freq=interval, tz=tg.tz)
    for k in range(n_iv):
        try:
            sub = {'portf': rs['portf'], 'captured': {a.name: rs['captured_list'][a.name][k] for a in rs['portf'].assets}, 'op': ops[k]}
            T_k = len(set(int(t) for t, _ in ops[k].map_nodal_restr)) if False else None
            # the interval grid's I is re-based to 0..T_k-1
            steps_k = sorted(set(int(s) for s in ops[k].mapping['time_step'].values)) if len(ops[k].mapping) else []
            # original numbers are written into the interval mapping only in the joint mapping (deep copy); the op's own mapping stays local
            sub['tg'] = type('G', (), {'I': np.arange(0, (max(steps_k) + 1) if steps_k else 0), 'T': (max(steps_k) + 1) if steps_k else 0})()
            dis = pf.corr_assemble(sub, drv, aspects=('c', 'l', 'u', 'rows', 'mapping'))
            for d in dis:
                d['detail'] = 'interval %d: %s' % (k, d['detail'])
            r['disagreements'] += dis
        except Exception as e:
            r['disagreements'].append({'component': 'assemble', 'detail': 'interval %d could not be compared: %s: %s' % (k, type(e).__name__, e)})
    # --- joint mapping: original step numbers, index shift
    m = rs['op'].mapping
    ntot = sum(len(o.c) for o in ops)
    if len(rs['op'].c) != ntot:
        viol('joint cost vector has %d entries, the interval problems %d variables' % (len(rs['op'].c), ntot), what='sizes')
    if len(m) and (m.index.max() >= ntot or m.index.min() < 0):
        viol('joint mapping index reaches %d for %d variables' % (m.index.max(), ntot), what='index_range')
    off = 0
    seen_steps = {}
    for k, o in enumerate(ops):
        mk = m[(m.index >= off) & (m.index < off + len(o.c))]
        if len(mk) != len(o.mapping):
            viol('interval %d: %d joint mapping rows for %d rows of the interval problem' % (k, len(mk), len(o.mapping)), what='index_shift')
            break
        st = sorted(set(int(s) for s in mk['time_step'].values))
        for s_ in st:
            if s_ in seen_steps and seen_steps[s_] != k:
                viol('original step %d occurs in intervals %d and %d' % (s_, seen_steps[s_], k), what='steps')
            seen_steps[s_] = k
        # the interval problem's own mapping must stay a faithful description of the interval problem
        if len(o.mapping) and (o.mapping.index.max() >= len(o.c) or o.mapping['time_step'].max() >= tg.T):
            viol('interval %d: its own mapping points at variable %d of %d' % (k, o.mapping.index.max(), len(o.c)), what='interval_mapping')
        off += len(o.c)
    # the nodal record of the joint problem names the same (step, node) pairs as the dispatch rows of the joint mapping
    if rs['op'].map_nodal_restr is not None and len(m):
        dm = m[m['type'] == 'd']
        want = set((int(t), str(n)) for t, n in zip(dm['time_step'].values, dm['node'].values))
        got = set((int(t), str(n)) for t, n in rs['op'].map_nodal_restr)
        if want != got:
            viol('nodal record of the split problem names %s but dispatch rows sit at %s' % (sorted(got - want)[:3], sorted(want - got)[:3]), what='nodal_steps')
    if len(m) and not set(int(s) for s in m['time_step'].values) <= set(int(i) for i in tg.I):
        viol('joint mapping has steps outside the original grid', what='steps')
    if sem != 'any' or True:
        # same (asset, node, type, name, step, factor) rows as the unsplit problem whenever no asset builds rows differently per interval
        # (asset, node, type, step): the number of variables per step may legitimately differ (a contract needs one or two
        # variables depending on the data of the grid it is built for)
        # dispatch rows only: internal / size variables are booked per interval (a scale variable per interval)
        k0 = sorted(set((a, n, t, s_) for a, n, t, v, s_, f in key_rows(rec['op'].mapping) if t == 'd'))
        k1 = sorted(set((a, n, t, s_) for a, n, t, v, s_, f in key_rows(m) if t == 'd'))
        if (sem in ('uncoupled', 'storage', 'takes') or scn.get('late_start')) and k0 != k1:
            d0 = [x for x in k0 if x not in set(k1)][:2]
            d1 = [x for x in k1 if x not in set(k0)][:2]
            viol('mapping rows of the split problem differ from the unsplit ones: only unsplit %s, only split %s' % (d0, d1), what='steps')
        # per-asset limits on the original grid: the share of a variable that flows into a node (efficiency of a transport, fuel
        # burnt per unit of power / when on / per start, factors of a multi-commodity contract) is the asset's own, step by step -
        # the same in the split problem as in the unsplit one wherever both have the variable (asset, node, name, step)
        f0, f1 = {}, {}
        for fx, mm in ((f0, rec['op'].mapping), (f1, m)):
            for a, n, t, v, s_, f in key_rows(mm):
                if t == 'd':
                    fx.setdefault((a, n, v, s_), []).append(f)
        bad = [(k, sorted(f0[k]), sorted(f1[k])) for k in sorted(set(f0) & set(f1))
               if len(f0[k]) == len(f1[k]) and any(abs(x - y) > 1e-9 * max(1.0, abs(x)) for x, y in zip(sorted(f0[k]), sorted(f1[k])))]
        r['evaluated'] += 1
        if bad:
            k, x0, x1 = bad[0]
            viol('asset %s, variable %s at step %d flows into node %s with factor %s in the split problem, %s in the unsplit problem (%d such rows)'
                 % (k[0], k[2], k[3], k[1], x1, x0, len(bad)), what='factors')
    # --- certificate: the unsplit problem IS the block sum of the interval problems (hypothesis of EAO.C14.split_equals_unsplit)
    if sem in ('uncoupled', 'blocks', 'storage', 'storage_ne') and len(rec['op'].c) <= 400:
        try:
            w = SP.witness_check(rec, rs, drv)
            feats.append('witness:%s' % {True: 'true', False: 'false', None: 'none'}[w['witness']])
            r['evaluated'] += 1
            if w['witness'] is False and sem == 'uncoupled' and not scn.get('fixed_scaled'):
                # nothing couples the intervals by construction of the stream, yet the real unsplit problem is not the block sum
                r['disagreements'].append({'component': 'split-witness', 'detail': 'uncoupled portfolio but splitWitness is false: ' + w['reason'][:300]})
            if w['witness'] is True:
                r['observed_witness'] = True
        except Exception as e:
            r['disagreements'].append({'component': 'split-witness', 'detail': 'witness could not be evaluated: %s: %s' % (type(e).__name__, str(e)[:200])})
    # --- certificate: every row of the unsplit problem is implied by the rows of the interval problems (hypothesis of
    #     EAO.C14.split_solution_le_unsplit(C)): split <= unsplit, concatenated solution feasible on the original grid
    if sem in ('storage', 'storage_ne') and len(rec['op'].c) <= 300:
        try:
            w = SP.le_witness_check(rec, rs, drv)
            feats.append('le-witness:%s' % {True: 'true', False: 'false', None: 'none'}[w['witness']])
            if w.get('objective'):
                feats.append('le-objective:' + str(w['objective']))
            r['evaluated'] += 1
            if w['witness'] is False and sem == 'storage' and 'objective' not in str(w.get('reason', ''))[:40] and w.get('objective') != '-':
                r['disagreements'].append({'component': 'split-le-witness', 'detail': 'storages with start level = end level are the only coupling but splitLeWitness is false: ' + str(w['reason'])[:300]})
            elif w['witness'] is False and sem == 'storage':
                feats.append('le-witness-false:objective-not-certified')
        except Exception as e:
            r['disagreements'].append({'component': 'split-le-witness', 'detail': 'witness could not be evaluated: %s: %s' % (type(e).__name__, str(e)[:200])})
    # --- optimise
    try:
        pf.solve_rec(rs)
    except Exception as e:
        # finding F-14l is identified by its cause: an interval whose mapping has no row at all (variables, but none mapped) in
        # front of the others makes the step numbers of the joint mapping floats, and Asset.dcf indexes an array with them
        _ftm = False
        try:
            _ops = getattr(rs['op'], 'ops', [])
            _ftm = (type(e).__name__ == 'IndexError' and 'time_step' in rs['op'].mapping.columns and str(rs['op'].mapping['time_step'].dtype).startswith('float')
                    and any(len(o.mapping) == 0 and len(o.c) > 0 for o in _ops) and not isinstance(rs.get('res'), str))
        except Exception:
            _ftm = False
        viol('optimising / reading the split problem raises %s (%s)' % (type(e).__name__, str(e)[:150]), what='raises', err=impl.err_class(e), float_time_step_after_unmapped_interval=bool(_ftm))
        return r
    r['evaluated'] += 1
    if scn.get('shortcut'):
        shortcut_oracle(scn, interval, rs, tg, r, viol)
    # reference of the stream 'repeat': every interval problem set up and solved on its own (fresh objects, nothing of the split
    # set-up or of SplitOptimProblem involved)
    own_iv = None
    if scn['stream'] == 'repeat':
        feats += ['repeat-' + f for f in SR.alike_features(ops)]
        try:
            own_iv = SR.own_interval_optima(scn, interval, lambda o: impl.solve(o))
            r['evaluated'] += 1
        except Exception as e:
            feats.append('own-intervals-error:' + impl.err_class(e))
    if isinstance(rs['res'], str):
        feats.append('split-unsolved')
        if not isinstance(rec['res'], str) and sem == 'uncoupled':
            viol('split optimisation not successful although the unsplit problem is solvable and nothing couples the intervals', what='status')
        if own_iv and all(v is not None for _, _, v in own_iv):
            viol('split optimisation not successful (%s) although every one of the %d interval problems, set up and solved on its own, has an optimum (sum %.8g)'
                 % (str(rs['res'])[:40], len(own_iv), sum(v for _, _, v in own_iv)), what='status_intervals')
        return r
    Vs = float(rs['res'].value)
    if own_iv is not None:
        bad_iv = [(t0, n_) for t0, n_, v in own_iv if v is None]
        if len(own_iv) != len(ops):
            viol('the split problem has %d interval problems, %d intervals of the horizon hold an active asset' % (len(ops), len(own_iv)), what='interval_count')
        elif bad_iv:
            viol('split optimisation reports the value %.8g, but the interval of %d steps from step %d on, set up and solved on its own, has no solution'
                 % (Vs, bad_iv[0][1], bad_iv[0][0]), what='status_intervals')
        else:
            tot_own = sum(v for _, _, v in own_iv)
            feats.append('own-intervals:compared')
            if abs(tot_own - Vs) > 2e-6 * max(1.0, abs(Vs), abs(tot_own)):
                viol('split value %.8g is not the sum %.8g of the optima of the interval problems set up and solved each on its own (%s)'
                     % (Vs, tot_own, ', '.join('%.6g' % v for _, _, v in own_iv)[:200]), what='sum_of_own_optima')
    # value = sum of the interval optima
    tot = 0.0
    for o in ops:
        ro = impl.solve(copy.deepcopy(o))
        if isinstance(ro, str):
            tot = None
            break
        tot += float(ro.value)
    tol = 2e-6 * max(1.0, abs(Vs))
    if tot is not None and abs(tot - Vs) > tol:
        viol('split value %.8g is not the sum of the interval optima %.8g' % (Vs, tot), what='sum_of_optima')
    own = -float(np.dot(rs['op'].c, rs['res'].x))
    if abs(own - Vs) > tol:
        viol('split value %.8g but minus joint cost times joint solution is %.8g' % (Vs, own), what='value')
    # options of optimize reach every interval: the relaxed split optimum (make_soft_problem) is the sum of the relaxed interval optima
    if any(pf.is_mip(o) for o in ops):
        try:
            tot_s = 0.0
            for o in ops:
                ro = impl.solve(copy.deepcopy(o), make_soft_problem=True)
                tot_s = None if (isinstance(ro, str) or tot_s is None) else tot_s + float(ro.value)
            with Quiet():
                rsoft = rs['op'].optimize(make_soft_problem=True)
            r['evaluated'] += 1
            if tot_s is not None and not isinstance(rsoft, str):
                feats.append('split-soft')
                if abs(float(rsoft.value) - tot_s) > 2e-6 * max(1.0, abs(tot_s)):
                    viol('split optimisation with make_soft_problem: value %.8g, sum of the relaxed interval optima %.8g (split value with integrality %.8g)' % (float(rsoft.value), tot_s, Vs), what='soft_sum')
        except Exception as e:
            feats.append('split-soft-error:' + impl.err_class(e))
    # nodal balance and value accounting on the original grid
    v, nt = pf.orc_nodal_balance(rs, tag='split')
    r['violations'] += v
    r['violations'] += pf.orc_value_accounting(rs, 'split', pf.asset_blocks(rs))
    # relation to the unsplit problem
    if not isinstance(rec['res'], str):
        Vu = float(rec['res'].value)
        tolu = 2e-6 * max(1.0, abs(Vu), abs(Vs))
        if sem == 'uncoupled' and abs(Vs - Vu) > tolu:
            viol('nothing couples the intervals, but split value %.8g differs from unsplit %.8g' % (Vs, Vu), what='equals_unsplit',
                 fixed_scaled=bool(scn.get('fixed_scaled')), sign='split_higher' if Vs > Vu else 'split_lower')
        if sem == 'blocks' and abs(Vs - Vu) > tolu:
            viol('storage blocks coincide with the intervals (start level = end level), nothing else couples them, but split value %.8g differs from unsplit %.8g' % (Vs, Vu),
                 what='equals_unsplit_blocks', sign='split_lower' if Vs < Vu else 'split_higher')
        if sem == 'storage' and Vs > Vu + tolu:
            viol('storages with start level = end level are the only coupling, but split value %.8g exceeds unsplit %.8g' % (Vs, Vu), what='le_unsplit')
        if sem in ('uncoupled', 'storage', 'takes', 'storage_ne'):
            # transport the concatenated solution into the unsplit problem: match variables by their mapping rows
            x = transport(rs, rec)
            if x is None:
                feats.append('transport-skipped')
            else:
                worst, what = pf.feasibility_violation(rec['op'], x)
                if worst > 1e-5:
                    viol('the concatenated split solution violates %s of the unsplit problem by %.3g' % (what, worst), what='limits')
                elif sem == 'uncoupled':
                    val = -float(np.dot(rec['op'].c, x))
                    if abs(val - Vu) > tolu:
                        viol('the concatenated split solution has value %.8g in the unsplit problem, optimum %.8g' % (val, Vu), what='equals_unsplit')
    if sem == 'any':
        # whatever couples the intervals: the concatenated solution satisfies the bounds of the unsplit problem and every row of it
        # that touches variables of ONE interval only (per-asset limits on the original grid that do not reach across a cut)
        x = transport(rs, rec)
        w = SR.within_interval_violation(rec, rs, x) if x is not None else None
        if w is None:
            feats.append('within-skipped')
        else:
            r['evaluated'] += 1
            feats.append('within:rows-checked' if w[2] else 'within:bounds-only')
            if w[0] > 1e-5:
                viol('the concatenated split solution violates %s of the unsplit problem by %.3g (rows over variables of two intervals left out: %d)'
                     % (w[1], w[0], w[3]), what='limits_within')
    r['nontrivial'] = len(ops) >= 2 and abs(Vs) > 1e-9
    r['observed'] = {'split_value': Vs, 'unsplit_value': None if isinstance(rec['res'], str) else float(rec['res'].value), 'intervals': len(ops)}
    return r


def shortcut_oracle(scn, interval, rs, tg, r, viol):
    """what a user gets from `eaopack.io.optimize(portf, timegrid, data, split_interval_size=...)` on a portfolio object with a
    history on another grid is the split result on the GIVEN grid: the value of the direct split path (= sum of the interval
    optima) and a dispatch table whose steps are those of the given grid, with the columns of the direct path"""
    feats = r['features']
    sc = scn['shortcut']
    feats.append('shortcut:%s:%s' % (sc['use'], sc['grid'].get('kind')))
    r['evaluated'] += 1
    try:
        out, notes = SP.shortcut_split(scn, interval)
    except Exception as e:
        viol('the shortcut io.optimize(..., split_interval_size=%r) raises %s (%s) on a portfolio used before on another grid (%s) although the direct split path works'
             % (interval, type(e).__name__, str(e)[:150], sc['use']), what='shortcut_raises', err=impl.err_class(e))
        return
    feats += ['shortcut-note:' + n for n in notes]
    direct = rs.get('out')
    if isinstance(rs['res'], str) or direct is None:
        if out.get('dispatch') is not None:
            viol('the direct split optimisation is not successful (%s) but the shortcut io.optimize returns a dispatch' % str(rs['res'])[:60], what='shortcut_status')
        return
    if out.get('dispatch') is None:
        viol('the shortcut io.optimize(..., split_interval_size=%r) is not successful (%s) on a portfolio used before on another grid (%s), the direct split path is'
             % (interval, str(out['summary'].get('status'))[:60], sc['use']), what='shortcut_status')
        return
    idx = out['dispatch'].index
    if len(idx) != len(tg.timepoints) or not (idx == tg.timepoints).all():
        viol('dispatch table of the shortcut io.optimize(..., split_interval_size=%r) on a portfolio used before on another grid (%s): %d steps from %s to %s, the given grid has %d from %s to %s'
             % (interval, sc['use'], len(idx), idx[0] if len(idx) else None, idx[-1] if len(idx) else None, tg.T, tg.timepoints[0], tg.timepoints[-1]),
             what='shortcut_steps')
        return
    Vd = float(rs['res'].value)
    Vc = float(out['summary'].loc['value', 'Values'])
    if abs(Vd - Vc) > 2e-6 * max(1.0, abs(Vd), abs(Vc)):
        viol('value of the shortcut io.optimize(..., split_interval_size=%r) on a portfolio used before on another grid (%s) is %.8g, the direct split optimisation on the given grid gives %.8g'
             % (interval, sc['use'], Vc, Vd), what='shortcut_value')
    if list(out['dispatch'].columns) != list(direct['dispatch'].columns):
        viol('dispatch table of the shortcut has the columns %s, that of the direct split path %s' % (list(out['dispatch'].columns)[:6], list(direct['dispatch'].columns)[:6]),
             what='shortcut_columns')


def transport(rs, rec):
    """x of the unsplit problem from the split solution, matching variables through (asset, var_name, node, type, step) of their FIRST mapping row"""
    def first_rows(m):
        mm = m[~m.index.duplicated(keep='first')]
        vn = mm['var_name'].astype(str).values if 'var_name' in mm.columns else ['nan'] * len(mm)
        return {(str(a), str(v), str(n), str(t), int(s)): int(i) for i, a, v, n, t, s in
                zip(mm.index, mm['asset'].values, vn, mm['node'].values, mm['type'].values, mm['time_step'].values)}
    ks = first_rows(rs['op'].mapping)
    ku = first_rows(rec['op'].mapping)
    if set(ks) != set(ku) or len(ku) != len(rec['op'].c):
        return None
    x = np.zeros(len(rec['op'].c))
    for k, j in ku.items():
        x[j] = rs['res'].x[ks[k]]
    return x
