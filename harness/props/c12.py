"""C12 Time bookkeeping."""
import random
from ..comp import contract as CT

ID = 'C12'
THEOREMS = CT.THEOREMS_C12 + [
    ('EAO.Properties.C19', 'EAO.C19.dt_real', 'each step length equals the real elapsed time to the next point in main time units, for any point list (DST, calendar months)'),
]
PARTIAL = ['unit_change is proved for the contract / transport / multi-commodity builders (rates not given as price keys); for storages, CHP durations (min runtime etc.) and price-key rates the statement rests on the metamorphic oracle (re-optimisation under another main time unit)']
COMPONENTS = ['contract/transport builders under unit pairs (dt scaling)']
RULE = ('metamorphic: random small portfolios (contracts, transports, storages, plants with durations) re-expressed for another main time unit among h, d, min, s (rates, inflow, holding cost, ramps scaled; durations scaled inversely) and re-optimised on the real code: value and dispatched volumes equal; '
        'totals on DST / calendar-month grids equal rate x elapsed time; builder correspondence cases; non-trivial = solved pair with non-zero value; distinct by case hash')
ASSUMPTIONS = ['values equal up to 1e-7 relative']
EXPLANATION = 'theorems about the builder models (bounds = rate * dt, invariance under dt scaling); metamorphic oracle on the real code'


def scenarios(seed, tier):
    n = 200 if tier == 'quick' else 2000
    rnd = random.Random(seed * 7919 + 12)
    for i in range(n):
        oc = CT.gen_oracle_case(random.Random(rnd.getrandbits(48)))
        while not oc['what'].startswith('c12'):
            oc = CT.gen_oracle_case(random.Random(rnd.getrandbits(48)))
        yield 'orc%d' % i, {'stream': 'oracle', 'case': oc}
    for i in range(n // 2):
        yield 'build%d' % i, {'stream': 'build', 'case': CT.gen_case(random.Random(rnd.getrandbits(48)))}


def run_case(c, drv):
    r = {'evaluated': 1, 'nontrivial': False, 'features': ['stream:' + c['stream']], 'disagreements': [], 'violations': []}
    if c['stream'] == 'build':
        rec = CT.run_case(c['case'], drv)
        r['features'] += rec.get('features', [])
        r['disagreements'] = [{'component': 'contract-builders', 'detail': d} for d in rec.get('disagreements', [])]
        r['nontrivial'] = rec.get('nvars', 0) > 0
    else:
        rec = CT.run_oracle(c['case'])
        r['features'] += rec.get('features', [])
        r['violations'] = rec.get('violations', [])
        r['nontrivial'] = bool(rec.get('nontrivial'))
    return r
