"""C12 Time bookkeeping."""
import random
from ..comp import contract as CT
from ..comp import textbook as TB
from ..comp import storage as ST_
from .. import gen

ID = 'C12'
THEOREMS = CT.THEOREMS_C12 + [
    ('EAO.Properties.C19', 'EAO.C19.dt_real', 'each step length equals the real elapsed time to the next point in main time units, for any point list (DST, calendar months)'),
] + ST_.THEOREMS_C12_STORAGE
PARTIAL = ['unit_change is proved for the contract / transport / multi-commodity builders (rates not given as price keys) and for the Storage builder (full equality of the built problem under rescaling of rates, holding cost and maximum holding time); for CHP durations (min runtime etc.) and price-key rates the statement rests on the metamorphic oracle (re-optimisation under another main time unit)']
COMPONENTS = ['contract/transport builders under unit pairs (dt scaling)', 'independent reference LP (harness/comp/textbook.py) on zone-aware daily grids across daylight-saving switches: costs and limits billed by elapsed time']
RULE = ('metamorphic: random small portfolios (contracts, transports, storages, plants with durations) re-expressed for another main time unit among h, d, min, s (rates, inflow, holding cost, ramps scaled; durations scaled inversely) and re-optimised on the real code: value and dispatched volumes equal; '
        'totals on DST / calendar-month grids equal rate x elapsed time; builder correspondence cases; non-trivial = solved pair with non-zero value; distinct by case hash')
ASSUMPTIONS = ['values equal up to 1e-7 relative']
EXPLANATION = 'theorems about the builder models (bounds = rate * dt, invariance under dt scaling); metamorphic oracle on the real code'


def scenarios(seed, tier):
    n = 200 if tier == 'quick' else 2000
    rnd = random.Random(seed * 7919 + 12)
    for i in range(n):
        oc = CT.gen_oracle_case(random.Random(rnd.getrandbits(48)))
        while not oc['what'].startswith('c12'):
            oc = CT.gen_oracle_case(random.Random(rnd.getrandbits(48)))
        yield 'orc%d' % i, {'stream': 'oracle', 'case': oc}
    for i in range(n // 2):
        yield 'build%d' % i, {'stream': 'build', 'case': CT.gen_case(random.Random(rnd.getrandbits(48)))}
    # grids with unequal steps (daily steps across a daylight-saving switch): per-time costs and limits (holding cost, inflow,
    # rates) against an independent reference that bills by ELAPSED time
    for i in range(n // 2):
        r2 = random.Random(rnd.getrandbits(48))
        tz = r2.choice(['CET', 'Europe/Berlin', 'US/Eastern'])
        start = r2.choice(['2021-03-2%d' % r2.randint(4, 7), '2021-10-2%d' % r2.randint(7, 9), '2021-11-0%d' % r2.randint(3, 6)])
        T = r2.randint(3, 8)
        import pandas as pd
        g = {'start': start + 'T00:00:00', 'end': gen.iso(pd.Timestamp(start) + pd.Timedelta(days=T)), 'freq': 'd', 'unit': r2.choice(['h', 'd', 'h']), 'tz': tz,
             'T_nominal': T, 'step_s': 86400}
        gen.fix_grid(g)
        s = gen.gen_portfolio(r2, kinds=['storage', 'storage', 'simple', 'transport', 'contract'], allow_mip=False, allow_freq=False, allow_periodic=False,
                              allow_blocks=False, grids=[('d', g['unit'], pd.Timedelta(days=1))], tz_prob=0.0, tmax=8)
        # replace the generated grid by the zone-aware daily grid; re-draw prices of the right length
        T2 = g['T_nominal']
        s['grid'] = g
        for k in list(s['prices']):
            s['prices'][k] = [gen.q8(r2, -4, 20) for _ in range(T2)]
        bad = False
        for a in s['assets']:
            a['args'].pop('start', None)
            a['args'].pop('end', None)
            for o in ('min_cap', 'max_cap', 'extra_costs', 'min_take', 'max_take'):
                if isinstance(a['args'].get(o), dict):
                    bad = True
            if a['type'] == 'Storage':
                a['args'].setdefault('cost_store', gen.q8(r2, 0.125, 0.5))
                if r2.random() < 0.5:
                    a['args'].setdefault('inflow', gen.q8(r2, 0.0, 0.25))
        if not bad:
            yield 'dst%d' % i, {'stream': 'textbook', 'case': s}
    for x in _split_cases(seed, 25 if tier == 'quick' else 250):
        yield x
    # an asset on a coarser frequency over fine steps of unequal length: the volume of each fine step is rate x ITS length
    from ..comp import periodic as PE
    for i in range(n // 8):
        yield 'coarse%d' % i, {'stream': 'coarse-unequal', 'case': PE.gen_case(random.Random(rnd.getrandbits(48)), oracle=True, kind='freq', dst=True)}


def _split_cases(seed, n):
    """split optimisation on grids whose main time unit is not 'h' (uncoupled portfolios with wacc / takes): the interval
    grids must keep the unit (reuses the C14 split-vs-unsplit oracle)"""
    from . import c14
    k = 0
    for cid, s in c14.scenarios(seed + 1000, 'quick'):
        if s['grid'].get('unit', 'h') != 'h' and s['stream'] in ('uncoupled', 'takes'):
            yield 'split%d' % k, {'stream': 'split', 'case': s}
            k += 1
            if k >= n:
                return


def run_case(c, drv):
    if c['stream'] == 'split':
        from . import c14
        r = c14.run_case(c['case'], drv)
        r['features'].append('stream:split-other-unit')
        return r
    if c['stream'] == 'coarse-unequal':
        from . import c13
        r = c13.run_case(c['case'], drv)
        r['features'].append('stream:coarse-unequal-steps')
        # of the oracles of C13 only the one that is C12's statement: volume of every fine step = rate x its own length
        r['violations'] = [v for v in r['violations'] if v.get('oracle') == 'coarse_constant_rate']
        return r
    r = {'evaluated': 1, 'nontrivial': False, 'features': ['stream:' + c['stream']], 'disagreements': [], 'violations': []}
    if c['stream'] == 'build':
        rec = CT.run_case(c['case'], drv)
        r['features'] += rec.get('features', [])
        r['disagreements'] = [{'component': 'contract-builders', 'detail': d} for d in rec.get('disagreements', [])]
        r['nontrivial'] = rec.get('nvars', 0) > 0
    elif c['stream'] == 'textbook':
        r2 = TB.run_case(c['case'], drv)
        r2.setdefault('features', []).append('stream:textbook-unequal-steps')
        r2['disagreements'] = [d if isinstance(d, dict) else {'component': 'textbook', 'detail': d} for d in r2.get('disagreements', [])]
        return r2
    else:
        rec = CT.run_oracle(c['case'])
        r['features'] += rec.get('features', [])
        r['violations'] = rec.get('violations', [])
        r['nontrivial'] = bool(rec.get('nontrivial'))
    return r
