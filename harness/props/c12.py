"""C12 Time bookkeeping."""
import random
from ..comp import contract as CT
from ..comp import textbook as TB
from ..comp import storage as ST_
from ..comp import chp as CH_
from .. import gen

ID = 'C12'
THEOREMS = CT.THEOREMS_C12 + [
    ('EAO.Properties.C19', 'EAO.C19.dt_real', 'each step length equals the real elapsed time to the next point in main time units, for any point list (DST, calendar months)'),
] + ST_.THEOREMS_C12_STORAGE + CH_.THEOREMS_C12_CHP
PARTIAL = ['unit_change is proved builder by builder: contract / transport / multi-commodity (rates not given as price keys), Storage (all options), CHP / Plant incl. ramp profiles, min-load costs and costs_only (rates not given as price keys; the constructor guard on declared histories must be stable under the change: it is evaluated on raw values, known finding F-06d); for price-key rates and for LinkedAsset the statement rests on the metamorphic oracles']
COMPONENTS = ['contract/transport builders under unit pairs (dt scaling)', 'independent reference LP (harness/comp/textbook.py) on zone-aware daily grids across daylight-saving switches: costs and limits billed by elapsed time']
RULE = ('metamorphic: random small portfolios (contracts, transports, storages, plants with durations) re-expressed for another main time unit among h, d, min, s (rates, inflow, holding cost, ramps scaled; durations scaled inversely) and re-optimised on the real code: value and dispatched volumes equal; '
        'totals on DST / calendar-month grids equal rate x elapsed time; builder correspondence cases; non-trivial = solved pair with non-zero value; distinct by case hash')
ASSUMPTIONS = ['values equal up to 1e-7 relative']
EXPLANATION = 'theorems about the builder models (bounds = rate * dt, invariance under dt scaling); metamorphic oracle on the real code'


def scenarios(seed, tier):
    n = 400 if tier == 'quick' else 2400
    rnd = random.Random(seed * 7919 + 12)
    for i in range(n):
        oc = CT.gen_oracle_case(random.Random(rnd.getrandbits(48)))
        while not oc['what'].startswith('c12'):
            oc = CT.gen_oracle_case(random.Random(rnd.getrandbits(48)))
        yield 'orc%d' % i, {'stream': 'oracle', 'case': oc}
    for i in range(n // 2):
        yield 'build%d' % i, {'stream': 'build', 'case': CT.gen_case(random.Random(rnd.getrandbits(48)))}
    # grids with unequal steps (daily steps across a daylight-saving switch): per-time costs and limits (holding cost, inflow,
    # rates) against an independent reference that bills by ELAPSED time
    for i in range(n // 2):
        r2 = random.Random(rnd.getrandbits(48))
        tz = r2.choice(['CET', 'Europe/Berlin', 'US/Eastern'])
        start = r2.choice(['2021-03-2%d' % r2.randint(4, 7), '2021-10-2%d' % r2.randint(7, 9), '2021-11-0%d' % r2.randint(3, 6)])
        T = r2.randint(3, 8)
        import pandas as pd
        g = {'start': start + 'T00:00:00', 'end': gen.iso(pd.Timestamp(start) + pd.Timedelta(days=T)), 'freq': 'd', 'unit': r2.choice(['h', 'd', 'h']), 'tz': tz,
             'T_nominal': T, 'step_s': 86400}
        gen.fix_grid(g)
        s = gen.gen_portfolio(r2, kinds=['storage', 'storage', 'simple', 'transport', 'contract'], allow_mip=False, allow_freq=False, allow_periodic=False,
                              allow_blocks=False, grids=[('d', g['unit'], pd.Timedelta(days=1))], tz_prob=0.0, tmax=8)
        # replace the generated grid by the zone-aware daily grid; re-draw prices of the right length
        T2 = g['T_nominal']
        s['grid'] = g
        for k in list(s['prices']):
            s['prices'][k] = [gen.q8(r2, -4, 20) for _ in range(T2)]
        bad = False
        for a in s['assets']:
            a['args'].pop('start', None)
            a['args'].pop('end', None)
            for o in ('min_cap', 'max_cap', 'extra_costs', 'min_take', 'max_take'):
                if isinstance(a['args'].get(o), dict):
                    bad = True
            if a['type'] == 'Storage':
                a['args'].setdefault('cost_store', gen.q8(r2, 0.125, 0.5))
                if r2.random() < 0.5:
                    a['args'].setdefault('inflow', gen.q8(r2, 0.0, 0.25))
        if not bad:
            yield 'dst%d' % i, {'stream': 'textbook', 'case': s}
    for x in _split_cases(seed, 25 if tier == 'quick' else 250):
        yield x
    # CHP / Plant / min-load CHP, with and without ramp profiles: the REAL problems of a case and of the case re-expressed in another
    # main time unit are equal (theorem unit_change_chp*; unit pairs h<->min, h<->d, min<->s)
    for i in range(n // 5):
        yield 'chpunit%d' % i, {'stream': 'chp-unit', 'case': CH_.gen_unit_change_case(random.Random(rnd.getrandbits(48)))}
    # durations of a linked asset (time_back / time_forward / time already running) follow the main time unit like all others
    import math
    for i in range(max(6, n // 16)):
        r2 = random.Random(rnd.getrandbits(48))
        T = r2.randint(8, 14)
        yield 'linked%d' % i, {'stream': 'linked', 'T': T, 'p': [20 + 15 * math.sin(t / 3.0) + gen.q8(r2, 0, 5) for t in range(T)],
                               'a1': [2.0, 6.0, gen.q8(r2, 14, 22)], 'a2': [1.0, 3.0, gen.q8(r2, 18, 26)], 'tb': r2.choice([0.25, 0.5, 0.75]),
                               'tf': r2.choice([0.0, 0.0, 0.25]), 'tar': r2.choice([0.0, 0.25, 0.5]), 'mrt': r2.choice([0.0, 0.5])}
    for i in range(max(6, n // 16)):
        r2 = random.Random(rnd.getrandbits(48))
        T = r2.randint(12, 18)
        t0 = r2.randint(4, T - 7)
        # power is worth running only during a short spike (so the plant starts and shuts down inside the horizon), heat is a
        # profitable by-product (so the heat bounds of the profiles bind)
        yield 'chpprof%d' % i, {'stream': 'chp-profiles', 'T': T, 'p': [(200.0 if t0 <= t < t0 + 3 else 0.0) + gen.q8(r2, 0, 2) for t in range(T)],
                                'ph': [10 + gen.q8(r2, 0, 2) for t in range(T)], 'sl': [1.0, 2.0], 'su': [1.5, 2.5], 'ql': [2.0, 1.0], 'qu': [2.5, 1.5],
                                'ramp_freq': r2.choice(['30min', '15min', 'h'])}
    # an asset on a coarser frequency over fine steps of unequal length: the volume of each fine step is rate x ITS length
    from ..comp import periodic as PE
    for i in range(n // 8):
        yield 'coarse%d' % i, {'stream': 'coarse-unequal', 'case': PE.gen_case(random.Random(rnd.getrandbits(48)), oracle=True, kind='freq', dst=True)}


def _split_cases(seed, n):
    """split optimisation on grids whose main time unit is not 'h' (uncoupled portfolios with wacc / takes): the interval
    grids must keep the unit (reuses the C14 split-vs-unsplit oracle)"""
    from . import c14
    k = 0
    for cid, s in c14.scenarios(seed + 1000, 'quick'):
        if s['grid'].get('unit', 'h') != 'h' and s['stream'] in ('uncoupled', 'takes') and not s.get('fixed_scaled'):
            yield 'split%d' % k, {'stream': 'split', 'case': s}
            k += 1
            if k >= n:
                return


def run_linked(c):
    """two plants linked by a LinkedAsset (asset 1 may dispatch only after asset 2 has been on for time_back) on a 15-minute grid,
    once with main time unit 'h', once with 'min' (rates divided by 60, durations multiplied by 60): same optimal value"""
    import datetime as dt
    import numpy as np
    import eaopack as eao
    from eaopack.portfolio import LinkedAsset, Portfolio
    from .. import impl
    r = {'evaluated': 2, 'nontrivial': False, 'features': ['stream:linked-asset-unit-change'], 'disagreements': [], 'violations': []}
    vals = {}
    for unit, k in (('h', 1.0), ('min', 60.0)):
        n1 = eao.Node('n1')
        tg = eao.Timegrid(dt.datetime(2021, 1, 1), dt.datetime(2021, 1, 1) + dt.timedelta(minutes=15 * c['T']), freq='15min', main_time_unit=unit)
        prices = {'p': np.asarray(c['p'], dtype=float)}
        a1 = eao.assets.Plant(name='a1', nodes=[n1], min_cap=c['a1'][0] / k, max_cap=c['a1'][1] / k, extra_costs=c['a1'][2], start_costs=1.)
        a2 = eao.assets.Plant(name='a2', nodes=[n1], min_cap=c['a2'][0] / k, max_cap=c['a2'][1] / k, extra_costs=c['a2'][2], start_costs=2.,
                              time_already_running=c['tar'] * k, min_runtime=c['mrt'] * k)
        try:
            with impl.Quiet():
                la = LinkedAsset(portfolio=Portfolio([a1, a2]), nodes=[n1], name='la', asset1_variable=('a1', 'disp', n1),
                                 asset2_variable=('a2', 'bool_on', None), time_back=c['tb'] * k, time_forward=c['tf'] * k)
                m = eao.assets.SimpleContract(name='m', nodes=n1, price='p', min_cap=-20. / k, max_cap=20. / k)
                op = Portfolio([la, m]).setup_optim_problem(prices, tg)
            res = impl.solve(op, solver='SCIP')
        except Exception as e:
            r['features'].append('linked-error:%s:%s' % (unit, type(e).__name__))
            return r
        vals[unit] = res if isinstance(res, str) else float(res.value)
    if isinstance(vals['h'], str) or isinstance(vals['min'], str):
        if type(vals['h']) is not type(vals['min']):
            r['violations'].append({'oracle': 'unit_change', 'detail': 'linked plants: main time unit h gives %s, min gives %s' % (vals['h'], vals['min']), 'facts': {'what': 'linked_asset'}})
        return r
    r['nontrivial'] = abs(vals['h']) > 1e-9
    if abs(vals['h'] - vals['min']) > 1e-6 * max(1.0, abs(vals['h'])):
        r['violations'].append({'oracle': 'unit_change', 'detail': 'linked plants (time_back %g h, asset 2 already running %g h): optimal value %.9g with main time unit h, %.9g with min (rates / 60, durations x 60)' % (
            c['tb'], c['tar'], vals['h'], vals['min']), 'facts': {'what': 'linked_asset'}})
    return r


def run_chp_profiles(c):
    """a CHP with start / shutdown ramp profiles (power and heat) on a 15-minute grid, main time unit 'h' vs 'min' (all rates,
    profile bounds included, divided by 60): same optimal value"""
    import datetime as dt
    import numpy as np
    import eaopack as eao
    from eaopack.portfolio import Portfolio
    from .. import impl
    r = {'evaluated': 2, 'nontrivial': False, 'features': ['stream:chp-profiles-unit-change'], 'disagreements': [], 'violations': []}
    vals = {}
    for unit, k in (('h', 1.0), ('min', 60.0)):
        n1, nh = eao.Node('n1'), eao.Node('nh')
        tg = eao.Timegrid(dt.datetime(2021, 1, 1), dt.datetime(2021, 1, 1) + dt.timedelta(minutes=15 * c['T']), freq='15min', main_time_unit=unit)
        prices = {'p': np.asarray(c['p'], dtype=float), 'ph': np.asarray(c['ph'], dtype=float)}
        sc = lambda xs: [x / k for x in xs]
        kw = dict(start_ramp_lower_bounds=sc(c['sl']), start_ramp_upper_bounds=sc(c['su']), shutdown_ramp_lower_bounds=sc(c['ql']), shutdown_ramp_upper_bounds=sc(c['qu']),
                  ramp_freq=c['ramp_freq'],
                  start_ramp_lower_bounds_heat=sc([x / 2 for x in c['sl']]), start_ramp_upper_bounds_heat=sc([x / 2 + 0.25 for x in c['su']]),
                  shutdown_ramp_lower_bounds_heat=sc([x / 2 for x in c['ql']]), shutdown_ramp_upper_bounds_heat=sc([x / 2 + 0.25 for x in c['qu']]))
        try:
            with impl.Quiet():
                chp = eao.assets.CHPAsset(name='chp', nodes=[n1, nh], min_cap=3. / k, max_cap=8. / k, extra_costs=20., start_costs=1.,
                                          conversion_factor_power_heat=0.5, max_share_heat=1., **kw)
                m = eao.assets.SimpleContract(name='m', nodes=n1, price='p', min_cap=-20. / k, max_cap=20. / k)
                mh = eao.assets.SimpleContract(name='mh', nodes=nh, price='ph', min_cap=-20. / k, max_cap=20. / k)
                op = Portfolio([chp, m, mh]).setup_optim_problem(prices, tg)
            res = impl.solve(op, solver='SCIP')
        except Exception as e:
            r['features'].append('chp-profile-error:%s:%s' % (unit, type(e).__name__))
            return r
        vals[unit] = res if isinstance(res, str) else float(res.value)
    if isinstance(vals['h'], str) or isinstance(vals['min'], str):
        if type(vals['h']) is not type(vals['min']):
            r['violations'].append({'oracle': 'unit_change', 'detail': 'CHP with ramp profiles: main time unit h gives %s, min gives %s' % (vals['h'], vals['min']), 'facts': {'what': 'chp_profiles'}})
        return r
    r['nontrivial'] = abs(vals['h']) > 1e-9
    if abs(vals['h'] - vals['min']) > 1e-6 * max(1.0, abs(vals['h'])):
        r['violations'].append({'oracle': 'unit_change', 'detail': 'CHP with start/shutdown ramp profiles (power and heat, ramp_freq %s): optimal value %.9g with main time unit h, %.9g with min (all rates / 60)' % (
            c['ramp_freq'], vals['h'], vals['min']), 'facts': {'what': 'chp_profiles'}})
    return r


def run_case(c, drv):
    if c['stream'] == 'chp-unit':
        v, obs = CH_.oracle_unit_change(c['case'])
        return {'evaluated': 2, 'nontrivial': bool(obs.get('compared', True)), 'features': ['stream:chp-unit-change'] + list(obs.get('features', [])), 'disagreements': [],
                'violations': v, 'observed': {k: obs[k] for k in obs if k != 'features'}}
    if c['stream'] == 'chp-profiles':
        return run_chp_profiles(c)
    if c['stream'] == 'linked':
        return run_linked(c)
    if c['stream'] == 'split':
        from . import c14
        r = c14.run_case(c['case'], drv)
        r['features'].append('stream:split-other-unit')
        return r
    if c['stream'] == 'coarse-unequal':
        from . import c13
        r = c13.run_case(c['case'], drv)
        r['features'].append('stream:coarse-unequal-steps')
        # of the oracles of C13 only the one that is C12's statement: volume of every fine step = rate x its own length
        r['violations'] = [v for v in r['violations'] if v.get('oracle') == 'coarse_constant_rate']
        return r
    r = {'evaluated': 1, 'nontrivial': False, 'features': ['stream:' + c['stream']], 'disagreements': [], 'violations': []}
    if c['stream'] == 'build':
        rec = CT.run_case(c['case'], drv)
        r['features'] += rec.get('features', [])
        r['disagreements'] = [{'component': 'contract-builders', 'detail': d} for d in rec.get('disagreements', [])]
        r['nontrivial'] = rec.get('nvars', 0) > 0
    elif c['stream'] == 'textbook':
        r2 = TB.run_case(c['case'], drv)
        r2.setdefault('features', []).append('stream:textbook-unequal-steps')
        r2['disagreements'] = [d if isinstance(d, dict) else {'component': 'textbook', 'detail': d} for d in r2.get('disagreements', [])]
        return r2
    else:
        rec = CT.run_oracle(c['case'])
        r['features'] += rec.get('features', [])
        r['violations'] = rec.get('violations', [])
        r['nontrivial'] = bool(rec.get('nontrivial'))
    return r
