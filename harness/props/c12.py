"""C12 Time bookkeeping."""
import random
from ..comp import contract as CT
from ..comp import textbook as TB
from ..comp import storage as ST_
from ..comp import chp as CH_
from .. import gen

ID = 'C12'
THEOREMS = CT.THEOREMS_C12 + [
    ('EAO.Properties.C19', 'EAO.C19.dt_real', 'each step length equals the real elapsed time to the next point in main time units, for any point list (DST, calendar months)'),
] + ST_.THEOREMS_C12_STORAGE + CH_.THEOREMS_C12_CHP
from ..comp import linked as _LK
THEOREMS = THEOREMS + [t for t in _LK.THEOREMS_LINKED if t[1].split('.')[-1] in ['linked_unit_change']]
from ..comp import unitkeys as UK
THEOREMS = THEOREMS + UK.THEOREMS_C12_KEYS
PARTIAL = ['unit_change is proved builder by builder: contract / transport / multi-commodity (rates not given as price keys), Storage (all options), CHP / Plant incl. ramp profiles, min-load costs and costs_only (rates not given as price keys; the constructor guard on declared histories must be stable under the change: it is evaluated on raw values, known finding F-06d); for price-key rates and for LinkedAsset the statement rests on the metamorphic oracles', 'the unit_change theorems are statements over exact rationals; that the floating-point arithmetic of the code (np.cumsum of step lengths against max_store_duration, ceil of duration / step) does not make the result depend on the unit is NOT proved: it rests on the stream non-dyadic unit change (durations in whole grid steps; findings F-12c, F-12d, F-12e were of this kind)']
from ..comp import elapsed as EL_
COMPONENTS = ['contract/transport builders under unit pairs (dt scaling)', 'independent reference LP (harness/comp/textbook.py) on zone-aware daily grids across daylight-saving switches: costs and limits billed by elapsed time']
RULE = ('metamorphic: random small portfolios of contracts and transports re-expressed for another main time unit among h, d, min, s (rates scaled) and re-optimised on the real code: value and dispatched volumes equal; '
        'non-dyadic unit change: unit-free situations (volumes per grid step, durations in WHOLE grid steps) expressed for two main time units in at least one of which the step is no binary fraction '
        '(hourly / 15-min / 30-min / 2h / 4h / 8h grids in d, 5 / 10 / 20-min grids in h and d, against h, min, s; daily / 12h / 6h / hourly grids in weeks; grids with a resolution of seconds - 1 s, 5 s, 10 s, 30 s, 40..90 steps, durations up to 48 steps - in s, min, h, d, W: fixed finding F-12e), every rate (capacities, inflow, holding cost, ramp, last dispatch) and duration '
        '(Storage.max_store_duration, Plant / CHPAsset min_runtime, min_downtime, time_already_running, time_already_off, LinkedAsset time_back / time_forward) rounded once to the nearest float, prices drawn so that the '
        'duration in focus binds (recorded per case: value changes when the duration is one step shorter / longer), both problems solved on the real code: same status, optimal value equal (1e-6 relative), and the optimal dispatch of '
        'either unit is an optimal dispatch in the other (feasible and equally valuable there); first cases: buy in one hour, sell D hours later with a maximal holding time of D hours, D drawn from 1..23, units h / d (fixed finding F-12c); '
        'real CHP / Plant / min-load problems of a case and of the case in another unit are equal; '
        'totals on DST / calendar-month grids equal rate x elapsed time; '
        'elapsed-time totals (harness/comp/elapsed.py; the second sentence of the property on the real code, expected totals computed from the zone-aware instants with pandas only): quantities that ACCUMULATE '
        'over time - natural inflow of a reservoir (released in total = start - end level + inflow rate x elapsed time of its window; level start + inflow x elapsed-so-far - released inside [0, size] after every step), '
        'holding costs (buy in step i / sell in step j, one or two cycles, eff_in: cost_store x volume x elapsed time between the steps; optimum by enumeration of the vertex levels), fixed costs of a ScaledAsset over '
        'SimpleContract / Contract / Transport (fix_costs x scale x elapsed time of its window, scale pinned or free; volume = rate x scale x elapsed time), running costs of a Plant that pays in a block of steps '
        '(running_costs x elapsed time of the on-steps; volume at full load), contracts / transports at their limit (rate x elapsed time) - for assets without window, with a window that STARTS AFTER the grid start '
        '(and / or ends before its end), under split optimisation (interval sizes d / 12h on fine, 2d..4d on daily, MS / 2MS on monthly grids; the later intervals carry the cycles), with a coarser own frequency d '
        'on h / 30min / 15min grids (reservoir, scaled and plain contracts / transports), and combinations late + split / late + coarse; grids from a local midnight 0..3 days before a daylight-saving switch of '
        '2020..2023 in CET, Europe/Berlin, Europe/London, US/Eastern, Australia/Sydney (hourly / 30-min / 15-min: days of 23 / 25 h; daily: steps of 23 / 24 / 25 h), calendar months, and grids without zone; every case '
        'in two main time units among h, d, min (fine), h, d, W (daily, monthly), every rate = rate per hour x hours of the unit: the totals hold in both units and the optimal value is the same '
        '(oracles totals_follow_elapsed_time, unit_change; solver SCIP); not drawn: holding costs with a coarse own frequency (known finding F-13o of C13), plants with an own frequency (refused by a documented '
        'ValueError), wacc, start level != end level under split optimisation (F-14g of C14), windows that cut a coarse step (F-19b of C19), steps whose ends are the repeated hour of a switch back as contract windows; '
        'probes (same module; daily grids of 3..6 days around a switch of 2020..2023 in the five zones, the odd day at any position, two main time units h / d each, oracle limits_follow_step_length: volume of a step = '
        'rate x the OWN length of the step): a Plant whose start / shutdown ramp profile pins the rate in the step of the start / before the shutdown (volume of that step = profile value x its length; '
        'finding F-12f: the nominal step is used, fact kind profile_nominal_step), a Plant with a ramp ramping up against a well-paying market (volume of step t = min(max_cap, ramp x (t + 1)) x its length; finding F-12g: '
        'the ramp is turned into a volume once with the length of the first step, fact kind ramp_first_step_length); a departure that is not exactly the recorded mechanism carries kind profile_volume / ramp_volume; '
        'builder correspondence cases; non-trivial = solved pair with non-zero value; distinct by case hash')
ASSUMPTIONS = ['values equal up to 1e-7 relative (1e-6 in the non-dyadic stream, where the rescaled numbers are not representable exactly)', 're-expressed for another unit = every rate and duration is the nearest float of the exact quotient',
               'elapsed-time totals: totals and values compared with 1e-6 relative (scale: the total, at least 1); elapsed time = difference of the zone-aware instants (pandas), windows clipped to the horizon; holding costs follow the convention that a volume taken in during step i and given out during step j is billed from the begin of step i to the begin of step j']
EXPLANATION = 'elapsed-time totals: accumulating rates (inflow, holding costs, fixed costs of scaled assets, running costs, volume limits) against rate x elapsed time from the instants, for late windows, split optimisation and coarse own frequencies on grids with unequal steps / days, in two main time units each; theorems about the builder models (bounds = rate * dt, invariance under dt scaling: exact rationals); metamorphic oracles on the real code, among them the non-dyadic unit change stream, which exposes the floating-point arithmetic of the code (cumulated step lengths, duration / step quotients) to step lengths, rates and durations that are no binary fractions'


def scenarios(seed, tier):
    n = 400 if tier == 'quick' else 2400
    rnd = random.Random(seed * 7919 + 12)
    # statement level, non-dyadic unit change (own random stream, so that the other streams keep their cases): the situation of
    # known finding F-12c first
    for tag, c in nd_cases(random.Random(seed * 104729 + 1212), 160 if tier == 'quick' else 960):
        yield tag, {'stream': 'nondyadic', 'case': c}
    for i in range(n):
        oc = CT.gen_oracle_case(random.Random(rnd.getrandbits(48)))
        while not oc['what'].startswith('c12'):
            oc = CT.gen_oracle_case(random.Random(rnd.getrandbits(48)))
        yield 'orc%d' % i, {'stream': 'oracle', 'case': oc}
    for i in range(n // 2):
        yield 'build%d' % i, {'stream': 'build', 'case': CT.gen_case(random.Random(rnd.getrandbits(48)))}
    # grids with unequal steps (daily steps across a daylight-saving switch): per-time costs and limits (holding cost, inflow,
    # rates) against an independent reference that bills by ELAPSED time
    for i in range(n // 2):
        r2 = random.Random(rnd.getrandbits(48))
        tz = r2.choice(['CET', 'Europe/Berlin', 'US/Eastern'])
        start = r2.choice(['2021-03-2%d' % r2.randint(4, 7), '2021-10-2%d' % r2.randint(7, 9), '2021-11-0%d' % r2.randint(3, 6)])
        T = r2.randint(3, 8)
        import pandas as pd
        g = {'start': start + 'T00:00:00', 'end': gen.iso(pd.Timestamp(start) + pd.Timedelta(days=T)), 'freq': 'd', 'unit': r2.choice(['h', 'd', 'h']), 'tz': tz,
             'T_nominal': T, 'step_s': 86400}
        gen.fix_grid(g)
        s = gen.gen_portfolio(r2, kinds=['storage', 'storage', 'simple', 'transport', 'contract'], allow_mip=False, allow_freq=False, allow_periodic=False,
                              allow_blocks=False, grids=[('d', g['unit'], pd.Timedelta(days=1))], tz_prob=0.0, tmax=8)
        # replace the generated grid by the zone-aware daily grid; re-draw prices of the right length
        T2 = g['T_nominal']
        s['grid'] = g
        for k in list(s['prices']):
            s['prices'][k] = [gen.q8(r2, -4, 20) for _ in range(T2)]
        bad = False
        for a in s['assets']:
            a['args'].pop('start', None)
            a['args'].pop('end', None)
            for o in ('min_cap', 'max_cap', 'extra_costs', 'min_take', 'max_take'):
                if isinstance(a['args'].get(o), dict):
                    bad = True
            if a['type'] == 'Storage':
                a['args'].setdefault('cost_store', gen.q8(r2, 0.125, 0.5))
                if r2.random() < 0.5:
                    a['args'].setdefault('inflow', gen.q8(r2, 0.0, 0.25))
        if not bad:
            yield 'dst%d' % i, {'stream': 'textbook', 'case': s}
    for x in _split_cases(seed, 25 if tier == 'quick' else 250):
        yield x
    # accumulating rates (inflow, holding costs, fixed costs of scaled assets, running costs, limits) = rate x ELAPSED time from the
    # instants: late windows, split optimisation, coarse own frequency, on grids with unequal steps / days, two main time units each
    for tag, c in EL_.cases(seed, 180 if tier == 'quick' else 1440):
        yield tag, {'stream': 'elapsed', 'case': c}
    # probes of the two recorded deviations from "limits follow the step's own length" (ramp profiles: F-12f, ramp: F-12g) on daily
    # grids across a daylight-saving switch; anything but the two recorded mechanisms alarms
    for tag, c in EL_.probe_cases(seed, 16 if tier == 'quick' else 80):
        yield tag, {'stream': 'elapsed', 'case': c}
    # CHP / Plant / min-load CHP, with and without ramp profiles: the REAL problems of a case and of the case re-expressed in another
    # main time unit are equal (theorem unit_change_chp*; unit pairs h<->min, h<->d, min<->s)
    for i in range(n // 5):
        yield 'chpunit%d' % i, {'stream': 'chp-unit', 'case': CH_.gen_unit_change_case(random.Random(rnd.getrandbits(48)))}
    # durations of a linked asset (time_back / time_forward / time already running) follow the main time unit like all others
    import math
    for i in range(max(6, n // 16)):
        r2 = random.Random(rnd.getrandbits(48))
        T = r2.randint(8, 14)
        yield 'linked%d' % i, {'stream': 'linked', 'T': T, 'p': [20 + 15 * math.sin(t / 3.0) + gen.q8(r2, 0, 5) for t in range(T)],
                               'a1': [2.0, 6.0, gen.q8(r2, 14, 22)], 'a2': [1.0, 3.0, gen.q8(r2, 18, 26)], 'tb': r2.choice([0.25, 0.5, 0.75]),
                               'tf': r2.choice([0.0, 0.0, 0.25]), 'tar': r2.choice([0.0, 0.25, 0.5]), 'mrt': r2.choice([0.0, 0.5])}
    for i in range(max(6, n // 16)):
        r2 = random.Random(rnd.getrandbits(48))
        T = r2.randint(12, 18)
        t0 = r2.randint(4, T - 7)
        # power is worth running only during a short spike (so the plant starts and shuts down inside the horizon), heat is a
        # profitable by-product (so the heat bounds of the profiles bind)
        yield 'chpprof%d' % i, {'stream': 'chp-profiles', 'T': T, 'p': [(200.0 if t0 <= t < t0 + 3 else 0.0) + gen.q8(r2, 0, 2) for t in range(T)],
                                'ph': [10 + gen.q8(r2, 0, 2) for t in range(T)], 'sl': [1.0, 2.0], 'su': [1.5, 2.5], 'ql': [2.0, 1.0], 'qu': [2.5, 1.5],
                                'ramp_freq': r2.choice(['30min', '15min', 'h'])}
    # an asset on a coarser frequency over fine steps of unequal length: the volume of each fine step is rate x ITS length
    from ..comp import periodic as PE
    for i in range(n // 8):
        yield 'coarse%d' % i, {'stream': 'coarse-unequal', 'case': PE.gen_case(random.Random(rnd.getrandbits(48)), oracle=True, kind='freq', dst=True)}
    # LinkedAsset (comp/linked.py): the model of the linking loop against the real set-up, on captured and on generated structured problems
    from ..comp import linked as LK
    _rl = random.Random(seed * 15485863 + 121)
    for i in range(60 if tier == 'quick' else 400):
        yield 'lk%d' % i, {'_stream': 'linked', 'case': LK.gen_case(_rl.__class__(_rl.getrandbits(48)), tmax=6)}
    # unit change with rates given as KEYS into the price data (second price table as the theorems EAO.C12K state): comp/unitkeys.py
    _ruk = random.Random(seed * 15485863 + 122)
    for i in range(100 if tier == 'quick' else 700):
        yield 'uk%d' % i, {'_stream': 'unitkeys', 'case': UK.gen_case(random.Random(_ruk.getrandbits(48)))}


def _split_cases(seed, n):
    """split optimisation on grids whose main time unit is not 'h' (uncoupled portfolios with wacc / takes): the interval
    grids must keep the unit (reuses the C14 split-vs-unsplit oracle)"""
    from . import c14
    k = 0
    for cid, s in c14.scenarios(seed + 1000, 'quick'):
        if '_stream' in s or 'grid' not in s:
            continue      # (the component streams of C14 are no portfolio scenarios)
        if s['grid'].get('unit', 'h') != 'h' and s['stream'] in ('uncoupled', 'takes') and not s.get('fixed_scaled'):
            yield 'split%d' % k, {'stream': 'split', 'case': s}
            k += 1
            if k >= n:
                return


def run_linked(c):
    """two plants linked by a LinkedAsset (asset 1 may dispatch only after asset 2 has been on for time_back) on a 15-minute grid,
    once with main time unit 'h', once with 'min' (rates divided by 60, durations multiplied by 60): same optimal value"""
    import datetime as dt
    import numpy as np
    import eaopack as eao
    from eaopack.portfolio import LinkedAsset, Portfolio
    from .. import impl
    r = {'evaluated': 2, 'nontrivial': False, 'features': ['stream:linked-asset-unit-change'], 'disagreements': [], 'violations': []}
    vals = {}
    for unit, k in (('h', 1.0), ('min', 60.0)):
        n1 = eao.Node('n1')
        tg = eao.Timegrid(dt.datetime(2021, 1, 1), dt.datetime(2021, 1, 1) + dt.timedelta(minutes=15 * c['T']), freq='15min', main_time_unit=unit)
        prices = {'p': np.asarray(c['p'], dtype=float)}
        a1 = eao.assets.Plant(name='a1', nodes=[n1], min_cap=c['a1'][0] / k, max_cap=c['a1'][1] / k, extra_costs=c['a1'][2], start_costs=1.)
        a2 = eao.assets.Plant(name='a2', nodes=[n1], min_cap=c['a2'][0] / k, max_cap=c['a2'][1] / k, extra_costs=c['a2'][2], start_costs=2.,
                              time_already_running=c['tar'] * k, min_runtime=c['mrt'] * k)
        try:
            with impl.Quiet():
                la = LinkedAsset(portfolio=Portfolio([a1, a2]), nodes=[n1], name='la', asset1_variable=('a1', 'disp', n1),
                                 asset2_variable=('a2', 'bool_on', None), time_back=c['tb'] * k, time_forward=c['tf'] * k)
                m = eao.assets.SimpleContract(name='m', nodes=n1, price='p', min_cap=-20. / k, max_cap=20. / k)
                op = Portfolio([la, m]).setup_optim_problem(prices, tg)
            res = impl.solve(op, solver='SCIP')
        except Exception as e:
            r['features'].append('linked-error:%s:%s' % (unit, type(e).__name__))
            return r
        vals[unit] = res if isinstance(res, str) else float(res.value)
    if isinstance(vals['h'], str) or isinstance(vals['min'], str):
        if type(vals['h']) is not type(vals['min']):
            r['violations'].append({'oracle': 'unit_change', 'detail': 'linked plants: main time unit h gives %s, min gives %s' % (vals['h'], vals['min']), 'facts': {'what': 'linked_asset'}})
        return r
    r['nontrivial'] = abs(vals['h']) > 1e-9
    if abs(vals['h'] - vals['min']) > 1e-6 * max(1.0, abs(vals['h'])):
        r['violations'].append({'oracle': 'unit_change', 'detail': 'linked plants (time_back %g h, asset 2 already running %g h): optimal value %.9g with main time unit h, %.9g with min (rates / 60, durations x 60)' % (
            c['tb'], c['tar'], vals['h'], vals['min']), 'facts': {'what': 'linked_asset'}})
    return r


def run_chp_profiles(c):
    """a CHP with start / shutdown ramp profiles (power and heat) on a 15-minute grid, main time unit 'h' vs 'min' (all rates,
    profile bounds included, divided by 60): same optimal value"""
    import datetime as dt
    import numpy as np
    import eaopack as eao
    from eaopack.portfolio import Portfolio
    from .. import impl
    r = {'evaluated': 2, 'nontrivial': False, 'features': ['stream:chp-profiles-unit-change'], 'disagreements': [], 'violations': []}
    vals = {}
    for unit, k in (('h', 1.0), ('min', 60.0)):
        n1, nh = eao.Node('n1'), eao.Node('nh')
        tg = eao.Timegrid(dt.datetime(2021, 1, 1), dt.datetime(2021, 1, 1) + dt.timedelta(minutes=15 * c['T']), freq='15min', main_time_unit=unit)
        prices = {'p': np.asarray(c['p'], dtype=float), 'ph': np.asarray(c['ph'], dtype=float)}
        sc = lambda xs: [x / k for x in xs]
        kw = dict(start_ramp_lower_bounds=sc(c['sl']), start_ramp_upper_bounds=sc(c['su']), shutdown_ramp_lower_bounds=sc(c['ql']), shutdown_ramp_upper_bounds=sc(c['qu']),
                  ramp_freq=c['ramp_freq'],
                  start_ramp_lower_bounds_heat=sc([x / 2 for x in c['sl']]), start_ramp_upper_bounds_heat=sc([x / 2 + 0.25 for x in c['su']]),
                  shutdown_ramp_lower_bounds_heat=sc([x / 2 for x in c['ql']]), shutdown_ramp_upper_bounds_heat=sc([x / 2 + 0.25 for x in c['qu']]))
        try:
            with impl.Quiet():
                chp = eao.assets.CHPAsset(name='chp', nodes=[n1, nh], min_cap=3. / k, max_cap=8. / k, extra_costs=20., start_costs=1.,
                                          conversion_factor_power_heat=0.5, max_share_heat=1., **kw)
                m = eao.assets.SimpleContract(name='m', nodes=n1, price='p', min_cap=-20. / k, max_cap=20. / k)
                mh = eao.assets.SimpleContract(name='mh', nodes=nh, price='ph', min_cap=-20. / k, max_cap=20. / k)
                op = Portfolio([chp, m, mh]).setup_optim_problem(prices, tg)
            res = impl.solve(op, solver='SCIP')
        except Exception as e:
            r['features'].append('chp-profile-error:%s:%s' % (unit, type(e).__name__))
            return r
        vals[unit] = res if isinstance(res, str) else float(res.value)
    if isinstance(vals['h'], str) or isinstance(vals['min'], str):
        if type(vals['h']) is not type(vals['min']):
            r['violations'].append({'oracle': 'unit_change', 'detail': 'CHP with ramp profiles: main time unit h gives %s, min gives %s' % (vals['h'], vals['min']), 'facts': {'what': 'chp_profiles'}})
        return r
    r['nontrivial'] = abs(vals['h']) > 1e-9
    if abs(vals['h'] - vals['min']) > 1e-6 * max(1.0, abs(vals['h'])):
        r['violations'].append({'oracle': 'unit_change', 'detail': 'CHP with start/shutdown ramp profiles (power and heat, ramp_freq %s): optimal value %.9g with main time unit h, %.9g with min (all rates / 60)' % (
            c['ramp_freq'], vals['h'], vals['min']), 'facts': {'what': 'chp_profiles'}})
    return r


# ------------------------------------------------------------------------------------------------------------------------------
# stream "non-dyadic unit change": the property's first sentence on the REAL code with unit pairs / grids in which the step
# length, the rates and the durations are NOT binary fractions in at least one of the two units (1/24, 1/96, 1/12, 1/288 ...),
# so that rounding noise of the code's own arithmetic (cumulated step lengths, duration / step quotients) shows.
# A case is unit-free (volumes per grid step, durations in whole grid steps); `nd_scenario(c, unit)` expresses it for a unit the
# way a user would: every rate and duration is the nearest float of the exact quotient.
# (frequency, step in seconds, [unit pairs: at least one unit in which the step is no binary fraction], largest T)
ND_GRIDS = [
    ('h', 3600, [('h', 'd'), ('min', 'd'), ('s', 'd')], 47),
    ('15min', 900, [('h', 'd'), ('min', 'd')], 40),
    ('30min', 1800, [('h', 'd'), ('min', 'd')], 47),
    ('2h', 7200, [('h', 'd')], 40),
    ('4h', 14400, [('h', 'd')], 30),
    ('8h', 28800, [('h', 'd')], 21),
    ('5min', 300, [('min', 'h'), ('min', 'd'), ('s', 'h'), ('h', 'd')], 40),
    ('10min', 600, [('min', 'h'), ('min', 'd'), ('h', 'd')], 40),
    ('20min', 1200, [('min', 'h'), ('min', 'd'), ('h', 'd')], 40),
]
# the week as main time unit (pandas notation 'W', 7 days): steps of 1/7, 1/14, 1/28, 1/168
ND_GRIDS_WEEK = [
    ('d', 86400, [('d', 'W'), ('h', 'W')], 28),
    ('12h', 43200, [('h', 'W'), ('d', 'W')], 30),
    ('6h', 21600, [('h', 'W'), ('d', 'W')], 40),
    ('h', 3600, [('h', 'W')], 47),
]
# with main_time_unit 'W' every CHPAsset / Plant / LinkedAsset set-up used to raise ValueError in eaopack.assets.convert_time_unit
# (pd.to_timedelta(to_offset('W')): "Value must be Timedelta, ... not Week") while Timegrid, contracts and Storage work in weeks;
# repaired in /repo (a65962a, finding F-12d).  The plant / linked families draw the week too (False: development switch only).
ND_WEEK_PLANTS = True
# grids with a resolution of SECONDS (short horizons of 40..90 steps, durations up to 48 steps): value * Timedelta used to be cut
# to the resolution of the Timedelta (whole seconds for 'min', 'h', 'd'), so a duration a hair below k seconds lost a step on a
# grid in seconds (finding F-12e, repaired in /repo c881ce0: 11/86400 d = 10 steps instead of 11; wrong for 11, 22, 29, 44, 58, 61,
# 85, 88 ... steps from d and 115, 119, 123 ... from h)
ND_GRIDS_SEC = [
    ('s', 1, [('s', 'd'), ('s', 'd'), ('s', 'd'), ('min', 'd'), ('h', 'd'), ('s', 'h'), ('s', 'min'), ('min', 'h'), ('s', 'W')], 90),
    ('5s', 5, [('s', 'd'), ('min', 'd'), ('s', 'h'), ('s', 'min'), ('min', 'h')], 90),
    ('10s', 10, [('s', 'd'), ('min', 'd'), ('s', 'h'), ('s', 'min'), ('min', 'h')], 90),
    ('30s', 30, [('s', 'd'), ('min', 'd'), ('h', 'd'), ('s', 'h'), ('min', 'h')], 90),
]


def _nd_grid(rnd, tmin, tmax, week=True, sec=False):
    if sec:
        freq, step_s, pairs, tlim = ND_GRIDS_SEC[0] if rnd.random() < 0.7 else rnd.choice(ND_GRIDS_SEC[1:])
        ua, ub = rnd.choice(pairs)
        # (the set-up of a plant adds its rows one by one: mostly the shorter horizons, to keep the quick tier quick)
        return freq, step_s, [ua, ub], rnd.randint(tmin, min(tmax, tlim) if rnd.random() < 0.3 else min(tmax, 60))
    in_weeks = rnd.random() < 0.25
    freq, step_s, pairs, tlim = rnd.choice(ND_GRIDS_WEEK if (week and in_weeks) else ND_GRIDS)
    ua, ub = rnd.choice(pairs)
    return freq, step_s, [ua, ub], rnd.randint(min(tmin, tlim), min(tmax, tlim))


def nd_cases(rnd, n):
    """yield (tag, case).  First the situation in which the dependence was first seen (known finding F-12c, fixed): hourly grid of
    one day, units h / d, buy in the first hour, sell D hours later, D drawn from 1..23; then the same two-contract situation on
    other grids / unit pairs / positions, storages against a market with price spikes, plants / CHP with minimum runtime / downtime
    and declared histories, linked plants."""
    for i in range(max(4, n // 16)):
        r2 = random.Random(rnd.getrandbits(48))
        c = ST_.gen_unit_hold_case(r2, 'h', 3600, 24, literal=True)
        c['t0'] = 0
        c['units'] = ['h', 'd']
        yield 'ndwit%d' % i, c
    for i in range(n // 4):
        r2 = random.Random(rnd.getrandbits(48))
        freq, step_s, units, T = _nd_grid(r2, 12, 47)
        c = ST_.gen_unit_hold_case(r2, freq, step_s, T, literal=r2.random() < 0.4)
        c['units'] = units
        yield 'ndhold%d' % i, c
    for i in range(n // 2):
        r2 = random.Random(rnd.getrandbits(48))
        yield 'ndplant%d' % i, gen_nd_plant(r2)
    for i in range(n // 8):
        r2 = random.Random(rnd.getrandbits(48))
        yield 'ndlink%d' % i, gen_nd_linked(r2)
    # grids in seconds: 40..90 steps, durations of up to 48 steps (the conversion of a duration to steps is exposed only where the
    # step is as fine as the resolution the code computes in)
    for i in range(n):
        r2 = random.Random(rnd.getrandbits(48))
        u = r2.random()
        if u < 0.75:
            tag, c = 'ndsecplant%d' % i, gen_nd_plant(r2, sec=True)
        elif u < 0.85:
            tag, c = 'ndseclink%d' % i, gen_nd_linked(r2, sec=True)
        else:
            freq, step_s, units, T = _nd_grid(r2, 40, 90, sec=True)
            tag, c = 'ndsechold%d' % i, ST_.gen_unit_hold_case(r2, freq, step_s, T, literal=r2.random() < 0.4)
            c['units'] = units
        c['bind_check'] = r2.random() < 0.4      # (these problems are larger: whether the duration binds is looked at for a part of them)
        yield tag, c


def gen_nd_plant(rnd, sec=False):
    """a plant (Plant or CHPAsset with a heat market) with a minimal load, selling into a market whose price is below the plant's
    cost except for spikes; one duration parameter is in focus and the prices are drawn so that it binds:
      min_runtime R          one spike shorter than R: the plant must keep running at a loss for the rest of R
      min_downtime Dn        two spikes with a gap of Dn steps (switching off in between is just allowed) or Dn - 1 steps (just not)
      time_already_running   running for a steps of R at the start, prices low at the start: R - a more steps at a loss
      time_already_off       off for a steps of Dn at the start, spike at the start: Dn - a steps of the spike are lost
    ramp (a rate), start costs and discounting optional; exactly one history is declared whenever a minimal downtime is given (the constructor
    guard on raw values, known finding F-06d, is then stable)"""
    freq, step_s, units, T = _nd_grid(rnd, 40, 90, sec=True) if sec else _nd_grid(rnd, 10, 20, week=ND_WEEK_PLANTS)
    big = min(T, 48) if sec else 0        # on the grids in seconds the durations go up to 48 steps
    focus = rnd.choice(['min_runtime', 'min_runtime', 'min_downtime', 'min_downtime', 'time_already_running', 'time_already_off'])
    lo, hi = rnd.choice([(2.0, 6.0), (1.0, 4.0), (3.0, 8.0)])           # volume per step at minimal / full load
    cost = 20.0 + gen.q8(rnd, 0, 6)
    base = cost - rnd.choice([4.0, 6.0, 10.0])
    spike = cost + rnd.choice([30.0, 40.0, 60.0])
    p = [base + gen.q8(rnd, 0, 1) for _ in range(T)]
    dur = {}
    if focus == 'min_runtime':
        R = rnd.randint(2, min(max(8, big), T - 3))
        r = rnd.randint(max(1, R // 3), R - 1)            # long enough to pay for the rest of the minimum runtime
        t0 = rnd.randint(1, T - R - 1)
        for t in range(t0, t0 + r):
            p[t] = spike + gen.q8(rnd, 0, 1)
        dur['min_runtime'] = R
        if rnd.random() < 0.4:
            dur['min_downtime'] = rnd.randint(1, 3)
            dur['time_already_off'] = rnd.randint(1, 4)
    elif focus == 'min_downtime':
        Dn = rnd.randint(2, min(max(7, big), T - 6))
        r1, r2 = rnd.randint(1, 2), rnd.randint(1, 2)
        t0 = rnd.randint(1, T - Dn - r1 - r2)
        gap = Dn if rnd.random() < 0.6 else Dn - 1       # just allowed (one step more would not be) / just not allowed
        for t in list(range(t0, t0 + r1)) + list(range(t0 + r1 + gap, t0 + r1 + gap + r2)):
            p[t] = spike + gen.q8(rnd, 0, 1)
        # deep loss in the gap: switching off in between pays whenever it is allowed
        for t in range(t0 + r1, t0 + r1 + gap):
            p[t] = base - rnd.choice([20.0, 40.0])
        dur['min_downtime'] = Dn
        dur['time_already_off'] = Dn + rnd.randint(0, 2)
        if rnd.random() < 0.4:
            dur['min_runtime'] = rnd.randint(1, 2)
    elif focus == 'time_already_running':
        R = rnd.randint(3, min(max(9, big), T - 2))
        a = rnd.randint(1, R - 1)
        dur['min_runtime'] = R
        dur['time_already_running'] = a
        if rnd.random() < 0.5:
            t0 = rnd.randint(R - a, T - 2)
            for t in range(t0, min(T, t0 + rnd.randint(1, 3))):
                p[t] = spike + gen.q8(rnd, 0, 1)
        if rnd.random() < 0.4:
            dur['min_downtime'] = rnd.randint(1, 3)
    else:
        Dn = rnd.randint(3, min(max(9, big), T - 2))
        a = rnd.randint(1, Dn - 1)
        dur['min_downtime'] = Dn
        dur['time_already_off'] = a
        for t in range(0, min(T, Dn - a + rnd.randint(1, 3))):
            p[t] = spike + gen.q8(rnd, 0, 1)
        if rnd.random() < 0.4:
            dur['min_runtime'] = rnd.randint(1, 3)
    c = {'family': 'plant', 'freq': freq, 'step_s': step_s, 'T': T, 'units': units, 'focus': focus,
         'start': rnd.choice(['2021-01-01T00:00:00', '2021-09-30T12:00:00']), 'cls': 'CHPAsset' if rnd.random() < 0.3 else 'Plant',
         'lo': lo, 'hi': hi, 'cost': cost, 'p': p, 'dur': dur, 'start_costs': rnd.choice([0.0, 1.0, 5.0])}
    if rnd.random() < 0.4:
        c['ramp_step'] = lo + rnd.choice([0.0, 1.0, 2.0])        # largest change of the volume per step from one step to the next
    if dur.get('time_already_running'):
        c['last_step'] = lo                                       # volume of the step before the horizon
    if c['cls'] == 'CHPAsset':
        c['ph'] = [8.0 + gen.q8(rnd, 0, 2) for _ in range(T)]
    if rnd.random() < 0.15:
        c['wacc'] = rnd.choice([0.05, 0.1])
    return c


def gen_nd_linked(rnd, sec=False):
    """two plants linked by a LinkedAsset: the profitable plant a1 may dispatch only after a2 has been on for time_back (focus);
    a2 optionally with declared running time and minimum runtime"""
    import math
    freq, step_s, units, T = _nd_grid(rnd, 40, 48, sec=True) if sec else _nd_grid(rnd, 8, 14, week=ND_WEEK_PLANTS)
    c = {'family': 'linked', 'freq': freq, 'step_s': step_s, 'T': T, 'units': units, 'focus': 'time_back', 'start': '2021-01-01T00:00:00',
         'p': [20 + round(15 * math.sin(t / (T / 6.0 if sec else 3.0)) * 8) / 8.0 + gen.q8(rnd, 0, 5) for t in range(T)],
         'a1': [2.0, 6.0, gen.q8(rnd, 14, 22)], 'a2': [1.0, 3.0, gen.q8(rnd, 18, 26)],
         'dur': {'time_back': rnd.randint(1, 4), 'time_forward': rnd.choice([0, 0, 1]), 'time_already_running': rnd.choice([0, 1, 2]),
                 'min_runtime': rnd.choice([0, 2, 3])}}
    if sec:
        tb = rnd.randint(1, 24)
        c['dur'] = {'time_back': tb, 'time_forward': rnd.choice([0, 0, 1, 2]), 'time_already_running': rnd.choice([0, rnd.randint(1, tb), rnd.randint(1, 24)]),
                    'min_runtime': rnd.choice([0, rnd.randint(2, 24)])}
    return c


def nd_scenario(c, unit, shift=None):
    """the case expressed for main time unit `unit`; shift {duration name: steps} moves durations (to see whether they bind)"""
    shift = shift or {}
    if c['family'] == 'hold':
        return ST_.unit_hold_scenario(c, unit, shift=shift.get('max_store_duration', 0))
    s, T = c['step_s'], c['T']
    rate = lambda v: ST_.unit_rate(v, s, unit)
    durs = {k: ST_.unit_duration(max(0, v + shift.get(k, 0)), s, unit) for k, v in c['dur'].items()}
    grid = ST_.unit_grid(c, unit)
    if c['family'] == 'plant':
        a = {'min_cap': rate(c['lo']), 'max_cap': rate(c['hi']), 'extra_costs': c['cost'], 'start_costs': c['start_costs']}
        a.update(durs)
        if 'ramp_step' in c:
            a['ramp'] = rate(c['ramp_step'])
        if 'last_step' in c:
            a['last_dispatch'] = rate(c['last_step'])
        prices = {'p': list(c['p'])}
        cap = rate(4 * c['hi'])
        wacc = {'wacc': c['wacc']} if 'wacc' in c else {}
        a.update(wacc)
        assets = [{'type': c['cls'], 'name': 'pl', 'nodes': ['n'], 'args': a},
                  {'type': 'SimpleContract', 'name': 'mkt', 'nodes': ['n'], 'args': dict({'price': 'p', 'min_cap': -cap, 'max_cap': cap}, **wacc)}]
        nodes = ['n']
        if c['cls'] == 'CHPAsset':
            a.update({'conversion_factor_power_heat': 0.5, 'max_share_heat': 1.0})
            assets[0]['nodes'] = ['n', 'nh']
            prices['ph'] = list(c['ph'])
            assets.append({'type': 'SimpleContract', 'name': 'mh', 'nodes': ['nh'], 'args': dict({'price': 'ph', 'min_cap': -cap, 'max_cap': cap}, **wacc)})
            nodes = ['n', 'nh']
        return {'grid': grid, 'nodes': nodes, 'prices': prices, 'assets': assets}
    if c['family'] == 'linked':
        a1 = {'type': 'Plant', 'name': 'a1', 'nodes': ['n'], 'args': {'min_cap': rate(c['a1'][0]), 'max_cap': rate(c['a1'][1]), 'extra_costs': c['a1'][2], 'start_costs': 1.0}}
        a2 = {'type': 'Plant', 'name': 'a2', 'nodes': ['n'], 'args': {'min_cap': rate(c['a2'][0]), 'max_cap': rate(c['a2'][1]), 'extra_costs': c['a2'][2], 'start_costs': 2.0,
                                                                     'time_already_running': durs['time_already_running'], 'min_runtime': durs['min_runtime']}}
        la = {'type': 'LinkedAsset', 'name': 'la', 'nodes': ['n'], 'inner': [a1, a2],
              'args': {'asset1_variable': ['a1', 'disp', 'n'], 'asset2_variable': ['a2', 'bool_on', None],
                       'time_back': durs['time_back'], 'time_forward': durs['time_forward']}}
        cap = rate(20.0)
        return {'grid': grid, 'nodes': ['n'], 'prices': {'p': list(c['p'])},
                'assets': [la, {'type': 'SimpleContract', 'name': 'm', 'nodes': ['n'], 'args': {'price': 'p', 'min_cap': -cap, 'max_cap': cap}}]}
    raise ValueError(c['family'])


def _nd_solve(s):
    """real code: build, set up, solve (SCIP; all cases are small MIPs)"""
    import numpy as np
    from .. import impl, scen
    try:
        with impl.Quiet():
            portf, tg, prices, nodes = scen.build(s)
            op = portf.setup_optim_problem(prices, tg)
        res = impl.solve(op, solver='SCIP')
    except Exception as e:
        return {'status': 'error:' + impl.err_class(e), 'msg': str(e)[:200]}
    if isinstance(res, str):
        return {'status': res}
    return {'status': 'ok', 'value': float(res.value), 'x': np.asarray(res.x, dtype=float), 'op': op}


def _nd_transfer(src, dst):
    """'dispatched volumes unchanged', decided through the value: the optimal x of the problem in one unit must be feasible and
    equally valuable in the problem of the other unit (the variables are volumes and switches: the same in every unit); when the
    full x does not carry over, only its DISPATCH part is imposed on the other problem (bounds x -/+ tolerance) and that problem is
    solved again.  Returns None or a description."""
    import copy
    import numpy as np
    from .. import impl
    from ..pf import feasibility_violation
    a, b = src['op'], dst['op']
    if len(a.c) != len(b.c):
        return 'the problems have %d and %d variables' % (len(a.c), len(b.c))
    x = src['x']
    tolv = 1e-6 * max(1.0, abs(dst['value']))
    worst, what = feasibility_violation(b, x)
    if worst <= 1e-6 and abs(float(b.c @ x) - float(b.c @ dst['x'])) <= tolv:
        return None
    op = copy.deepcopy(b)
    idx = np.asarray(sorted(set(op.mapping.index[op.mapping['type'] == 'd'])), dtype=int)
    eps = 1e-6 * max(1.0, float(np.abs(x).max()))
    op.l = np.asarray(op.l, dtype=float).copy()
    op.u = np.asarray(op.u, dtype=float).copy()
    op.l[idx] = np.maximum(op.l[idx], np.minimum(x[idx] - eps, op.u[idx]))
    op.u[idx] = np.minimum(op.u[idx], np.maximum(x[idx] + eps, op.l[idx]))
    try:
        res = impl.solve(op, solver='SCIP')
    except Exception as e:
        return 'dispatch imposed: %s' % type(e).__name__
    if isinstance(res, str):
        return 'with the dispatch imposed the problem is %s (full x: %s violated by %.3g)' % (res, what, worst)
    if abs(float(res.value) - dst['value']) > 10 * tolv:
        return 'with the dispatch imposed the value is %.9g instead of %.9g' % (float(res.value), dst['value'])
    return None


def _nd_describe(s):
    out = []
    for a in s['assets']:
        for b in [a] + a.get('inner', []):
            out.append('%s %s(%s)' % (b['type'], b['name'], ', '.join('%s=%r' % (k, (v['$dt'] if isinstance(v, dict) and '$dt' in v else v)) for k, v in b['args'].items())))
    g = s['grid']
    return 'Timegrid(%s, %s, freq=%r, main_time_unit=%r); %s; prices %s' % (g['start'], g['end'], g['freq'], g['unit'], '; '.join(out), {
        k: (v if len(set(v)) > 1 else 'constant %g' % v[0]) for k, v in s['prices'].items()})


def run_nondyadic(c):
    from fractions import Fraction
    ua, ub = c['units']
    s = c['step_s']
    r = {'evaluated': 2, 'nontrivial': False, 'disagreements': [], 'violations': [],
         'features': ['stream:nondyadic-unit-change', 'nd:' + c['family'], 'nd:focus:' + c['focus'], 'nd:units:%s<->%s' % tuple(sorted(c['units'])), 'nd:freq:' + c['freq']]}
    for k in sorted(set(c.get('opts', {})) | set(c.get('dur', {})) | {k for k in ('ramp_step', 'wacc', 'cls', 'form') if k in c}):
        r['features'].append('nd:with:' + (c[k] if k in ('cls', 'form') else k))
    sa, sb = nd_scenario(c, ua), nd_scenario(c, ub)
    ra, rb = _nd_solve(sa), _nd_solve(sb)
    facts = {'what': 'nondyadic', 'family': c['family'], 'focus': c['focus'], 'units': list(c['units']), 'freq': c['freq'],
             'inputs': {ua: _nd_describe(sa), ub: _nd_describe(sb)}}

    def viol(detail, **kw):
        r['violations'].append({'oracle': 'unit_change', 'detail': detail + ' || ' + ua + ': ' + facts['inputs'][ua] + ' || ' + ub + ': ' + facts['inputs'][ub],
                                'facts': dict(facts, **kw)})
    r['observed'] = {ua: ra.get('value', ra['status']), ub: rb.get('value', rb['status'])}
    if ra['status'] != 'ok' or rb['status'] != 'ok':
        r['features'].append('nd:status:%s' % ra['status'].split(':')[0])
        if ra['status'] != rb['status']:
            viol('the same situation (%s, durations in whole steps of %s) gives %s with main time unit %s and %s with %s' % (
                c['family'], c['freq'], (ra['status'] + ' ' + ra.get('msg', '')).strip(), ua, (rb['status'] + ' ' + rb.get('msg', '')).strip(), ub), kind='status')
        return r
    r['nontrivial'] = abs(ra['value']) > 1e-9
    sc = max(1.0, abs(ra['value']))
    if abs(ra['value'] - rb['value']) > 1e-6 * sc:
        viol('the same situation (%s; %s of %s steps of %s) has optimal value %.9g with main time unit %s and %.9g with %s' % (
            c['family'], c['focus'], (c.get('dur') or {'max_store_duration': c.get('D')}).get(c['focus']), c['freq'], ra['value'], ua, rb['value'], ub), kind='value')
    else:
        for src, dst, us, ud in ((ra, rb, ua, ub), (rb, ra, ub, ua)):
            d = _nd_transfer(src, dst)
            if d:
                viol('the optimal dispatch found with main time unit %s is not an optimal dispatch with %s: %s' % (us, ud, d), kind='dispatch')
                break
    # does the duration in focus bind?  the same problem (reference unit: the one in which the step is a binary fraction, if
    # any) with the duration one grid step shorter / longer
    def dyadic(u):
        q = Fraction(s, ST_.UNIT_S_C12[u])
        return (q.denominator & (q.denominator - 1)) == 0
    uref = ua if dyadic(ua) or not dyadic(ub) else ub
    vref = ra['value'] if uref == ua else rb['value']
    k = c['D'] if c['family'] == 'hold' else c['dur'][c['focus']]
    if not c.get('bind_check', True):
        r['features'].append('nd:binds:not-looked-at')
        return r
    binds = []
    for sh in (-1, 1):
        if k + sh < 0 or (c['family'] == 'hold' and k + sh < 1):
            continue
        rs = _nd_solve(nd_scenario(c, uref, shift={c['focus']: sh}))
        r['evaluated'] += 1
        if rs['status'] != 'ok' or abs(rs['value'] - vref) > 1e-6 * sc:
            binds.append('%+d' % sh)
    r['features'].append('nd:binds:%s' % ('yes' if binds else 'no'))
    r['features'].append('nd:binds:%s:%s' % (c['focus'], ','.join(binds) if binds else 'no'))
    r['observed']['binds'] = binds
    return r


def run_case(c, drv):
    if isinstance(c, dict) and c.get('_stream') == 'unitkeys':
        rec = UK.run_case(c['case'], drv)
        return {'evaluated': 1, 'nontrivial': bool(rec.get('nontrivial')), 'features': ['stream:unitkeys'] + list(rec.get('features', [])),
                'disagreements': [d if isinstance(d, dict) else {'component': 'unit change with keys', 'detail': d} for d in rec['disagreements']],
                'violations': rec['violations']}
    if isinstance(c, dict) and c.get('_stream') == 'linked':
        from ..comp import linked as LK
        r = LK.run_case(c['case'], drv, with_oracle=False)      # the tie of the linked model; its documented-behaviour oracle states no property of this list
        r['features'] = ['stream:linked'] + list(r.get('features', []))
        return r
    if c['stream'] == 'nondyadic':
        return run_nondyadic(c['case'])
    if c['stream'] == 'elapsed':
        return EL_.run_case(c['case'])
    if c['stream'] == 'chp-unit':
        v, obs = CH_.oracle_unit_change(c['case'])
        return {'evaluated': 2, 'nontrivial': bool(obs.get('compared', True)), 'features': ['stream:chp-unit-change'] + list(obs.get('features', [])), 'disagreements': [],
                'violations': v, 'observed': {k: obs[k] for k in obs if k != 'features'}}
    if c['stream'] == 'chp-profiles':
        return run_chp_profiles(c)
    if c['stream'] == 'linked':
        return run_linked(c)
    if c['stream'] == 'split':
        from . import c14
        r = c14.run_case(c['case'], drv)
        r['features'].append('stream:split-other-unit')
        return r
    if c['stream'] == 'coarse-unequal':
        from . import c13
        r = c13.run_case(c['case'], drv)
        r['features'].append('stream:coarse-unequal-steps')
        # of the oracles of C13 only the one that is C12's statement: volume of every fine step = rate x its own length
        r['violations'] = [v for v in r['violations'] if v.get('oracle') == 'coarse_constant_rate']
        return r
    r = {'evaluated': 1, 'nontrivial': False, 'features': ['stream:' + c['stream']], 'disagreements': [], 'violations': []}
    if c['stream'] == 'build':
        rec = CT.run_case(c['case'], drv)
        r['features'] += rec.get('features', [])
        r['disagreements'] = [{'component': 'contract-builders', 'detail': d} for d in rec.get('disagreements', [])]
        r['nontrivial'] = rec.get('nvars', 0) > 0
    elif c['stream'] == 'textbook':
        r2 = TB.run_case(c['case'], drv)
        r2.setdefault('features', []).append('stream:textbook-unequal-steps')
        r2['disagreements'] = [d if isinstance(d, dict) else {'component': 'textbook', 'detail': d} for d in r2.get('disagreements', [])]
        return r2
    else:
        rec = CT.run_oracle(c['case'])
        r['features'] += rec.get('features', [])
        r['violations'] = rec.get('violations', [])
        r['nontrivial'] = bool(rec.get('nontrivial'))
    return r
