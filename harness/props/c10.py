"""C10 Purity of set-up."""
import random
from ..comp import history as H

ID = 'C10'
P = 'EAO.Properties.C10'
THEOREMS = [
    (P, 'EAO.C10.setup_pure', 'slot model of the mutable state (restricted-grid and discount slots on shared grid objects, grid pointers, inner windows): for every reachable state and every set-up call the builder reads exactly the asset\'s own window, frequency and wacc'),
    (P, 'EAO.C10.setup_pure_with_grid', 'with an explicit grid argument the result is pure for any history, even with all assets sharing one grid object'),
    (P, 'EAO.C10.setup_pure_portfolio', 'the same for portfolio set-up'),
    (P, 'EAO.C10.inner_windows_restored', 'the windows of assets wrapped by a structured asset equal the constructed ones in every reachable state'),
    (P, 'EAO.C10.setup_not_pure_without_rederive', 'machine-checked counterexample for the pre-fix behaviour (set-up without grid argument did not re-derive): documents why fix 7e0d787 matters'),
    (P, 'EAO.C10.setup_pure_split', 'the same for a split set-up: every interval problem is built from the asset\'s own data on the interval grid'),
    (P, 'EAO.C10.portfolio_setup_all_on', 'after a portfolio set-up with grid g the portfolio, all assets and all wrapped assets sit on g'),
    (P, 'EAO.C10.scaled_noarg_not_pure_before_fix', 'machine-checked counterexample for the behaviour before fix 19afd7c (scaled asset without grid argument)'),
    (P, 'EAO.C10.split_leaves_wrapped_assets_on_interval_grid', 'machine-checked witness of known finding F-10e: after a split set-up wrapped assets stay on a temporary interval grid'),
    (P, 'EAO.C10.wrapped_noarg_after_split_not_pure', 'hence a direct set-up of a wrapped asset without grid argument depends on whether a split ran before (known finding F-10e)'),
    (P, 'EAO.C10.normalise_intervals', 'normal form of interval data (lists, implicit ends)'),
    (P, 'EAO.C10.values_to_grid_normalise', 'evaluating the normal form gives the same result as evaluating the raw form'),
    (P, 'EAO.C10.normalise_idem', 'normalisation is idempotent'),
]
PARTIAL = ['the state model covers only the slot logic (who writes the restricted/discount slots and grid pointers, what each builder reads back). Python aliasing of containers, pandas in-place semantics and the numeric content are covered ONLY by the history oracle on the real code; there is no differential test between the state model and the code (tie by inspection of the cited lines)']
COMPONENTS = ['history oracle: n-th set-up on the same objects vs a fresh object tree and fresh grid (exact comparison of c, l, u, rows, mapping)']
RULE = ('random histories of 2-8 calls (asset/portfolio/split set-up with and without grid argument, skip nodes, fix windows, optimise incl. soft-then-plain, extract_output, dcf, fill_level, make_slp, to_json, cost samples) on the same objects over 1-3 grid variants (shifted, other frequency, zone, main time unit, same object reused or fresh) and price containers in 5 forms; '
        'non-trivial = history with >= 2 compared set-up calls on differing grids or prices; distinct by case hash')
ASSUMPTIONS = []
EXPLANATION = 'refinement theorem about an explicit slot model + history oracle (the comparison with a fresh object tree IS the property)'
TECHNIQUE = 'Lean 4 theorems about an explicit state-machine model of the mutable slots + history oracle on the real code (fresh-object comparison)'
NEEDS_DRIVER = False


def scenarios(seed, tier):
    n = 250 if tier == 'quick' else 2500
    rnd = random.Random(seed * 7919 + 10)
    for name, c in H.witness_cases().items():
        yield 'witness:' + name, c
    for i in range(n):
        yield 'hist%d' % i, H.gen_case(random.Random(rnd.getrandbits(48)))


def run_case(case, drv):
    res = H.execute(case)
    viol = H.oracle(case, res, do_shrink=True)
    out = {'evaluated': max(1, res.get('n_compared', 1)), 'nontrivial': res.get('n_compared', 0) >= 2, 'features': list(res.get('features', [])),
           'disagreements': [], 'violations': []}
    for v in viol:
        f = dict(v.get('facts', {}))
        f['class'] = H.classify(v)
        out['violations'].append({'oracle': v.get('oracle'), 'detail': v.get('detail'), 'facts': f, 'scenario': v.get('scenario', case)})
    out['observed'] = {'calls': res.get('n_calls'), 'compared': res.get('n_compared')}
    return out
