"""C10 Purity of set-up.  Registered lists, scenarios and the case runner live in harness/comp/history.py (history oracle on the real
code + differential test of the Lean slot model against the real objects)."""
from ..comp import history as H

ID = 'C10'
THEOREMS = H.THEOREMS
PARTIAL = H.PARTIAL
COMPONENTS = H.COMPONENTS
RULE = H.RULE
ASSUMPTIONS = []
EXPLANATION = 'refinement theorem about an explicit slot model, tied to the real objects by a differential test after every operation + history oracle (the comparison with a fresh object tree IS the property; constructor parameters of the assets compared with their values after construction after every set-up call: oracle parameter_changed; price containers that a call changed are handed, as a copy and next to a pristine copy, to later calls - cast to every grid of the case, set-up of a fresh tree - which must agree: oracle prices_changed_for_later_calls; streams layout (same object, other variables from one set-up to the next because the grid or the data changed) and pdata (one price container object, every container kind, through every door on several horizons))'
TECHNIQUE = 'Lean 4 theorems about an explicit state-machine model of the mutable slots, differential test of that model against the real objects, history oracle on the real code (fresh-object comparison, constructor parameters unchanged, changed price containers re-used in later calls)'
NEEDS_DRIVER = True
scenarios = H.scenarios
run_case = H.run_case
