"""C06 Plant / CHP unit commitment."""
import os
import random
from ..comp import chp as CH
from ..comp import chpprof as CP
from ..comp import chpregrid as RG

ID = 'C06'
THEOREMS = CH.THEOREMS + CP.THEOREMS_C06_PROFILE
PARTIAL = CH.PARTIAL
MODELLED = CH.MODELLED
COMPONENTS = ['CHP/Plant builder (on the real Contract base problem) vs CHPAsset.setup_optim_problem: exact rows over all include-flag combinations, incl. start/shutdown ramp profiles (with heat variants and _convert_ramp), CHPAsset_with_min_load_costs and costs_only', 'unit-commitment automaton (model) vs feasibility of pinned on/off patterns in the REAL asset problem (HiGHS)', 'the same two for the problem ONE asset object builds on each grid of a sequence of grids of different frequency / main time unit (harness/comp/chpregrid.py)']
RULE = ('profile cases (start-only, shutdown-only, both, heat variants, ramp_freq finer / coarser / equal) and min-load cases (threshold and costs as scalar, key, dict, array, None, negative; own windows) in the build and portfolio streams with the oracles chp.profile (k-th step after a start / before a shutdown within the k-th profile bounds) and chp.min_load (below threshold while on => flag); streams: builder correspondence over all include-flag combinations (on/start variables, heat node, fuel node, ramp, initial state, parameter forms, windows, step != main unit); pattern oracle: all 2^T on/off patterns (T <= 7 quick, <= 10 thorough) pinned in the real problem vs the automaton; portfolio oracle recomputing capacity, ramps, heat share, fuel, starts from x; '
        "stream 'start-costs-vary' (every 10th case): plants / CHPs with start costs varying in time and zero in some steps of the window (interval dict covering part of the window or with zero values, price key, array), mostly nothing else calling for start variables, block prices that make cycling attractive; oracle chp.start_costs on every solved portfolio with start costs: in a step with an off->on transition (on variables, without them read from the dispatch) the plant's cash flow holds at least the start costs of that step beyond the costs of its other variables (lower bound only: charging without a transition is known finding F-06b); "
        "probe stream (40 quick / 240 thorough cases apart from the normal streams): plants / CHPs with a start ramp profile and a general ramp, inside their start ramp at the beginning of the horizon or off before; oracle chp.profile_ramp pins the dispatch that follows the (remaining) start profile and then stays constant in the real asset problem: admissible under the statement whatever the ramp (control: the same start one step later); "
        "stream 'regrid' (160 quick / 960 thorough cases): ONE Plant / CHPAsset / CHPAsset_with_min_load_costs OBJECT taken through a sequence of 2-4 time grids that differ in frequency with the same main time unit (hourly then 15 min, 4-hourly then hourly, back again, ...), in the main time unit with the same frequency, in both, or only in the horizon, optionally going through setup_optim_problem(costs_only=True), Portfolio.create_cost_samples, Portfolio.setup_optim_problem, set_timegrid, to_json, a JSON round trip or a deep copy in between; every set-up of the sequence is judged ON ITS OWN GRID like a fresh case: exact rows of the shared object vs the model, oracle chp.pattern (all 2^T patterns pinned in the real rows of the shared object vs specification / automaton with the durations converted to steps of that grid), chp.first_ramp, chp.start_flag, and for an optimised stage the portfolio oracles; "
        "stream 'window-tables' (120 quick / 720 thorough cases): portfolio runs with a plant / CHP whose OWN window starts strictly after the grid start, ends strictly before the grid end, or both (placements drawn from the seed; the other bound absent, equal to the grid's or beyond the horizon), mostly with fuel node, consumption_if_on, start_fuel and start costs in all parameter forms, mostly a positive minimum capacity, in part block prices relative to the window that make the unit cycle; oracle chp.tables on EVERY solved portfolio (all streams) states the last clauses of C06 on the OUTPUT TABLES of io.extract_output (dispatch per node and step, internal variables bool_on / bool_start as reported) over every step of the optimisation grid, nothing read from x or the mapping: reported off or outside the own window => power, heat and fuel zero and no flag; reported on => virtual output within [min_cap, max_cap] of the step; fuel node dispatch per step = -(virtual output / efficiency + consumption_if_on x reported on + start_fuel x reported start (without start variables: off->on transition of the reported state)); a start is reported at every off->on transition of the reported state (a start reported without transition: known finding F-06b, judged by chp.start_flag); the x-based portfolio oracles place the asset's variables with the asset's own window computed on a fresh time grid (inside a portfolio the shared Timegrid object carries the window of the asset set up last); "
        "oracle chp.commitment on every solved portfolio with on variables and without ramp profiles (all streams): the optimised on/off pattern satisfies the run-length specification with minimum runtime / downtime / initial state in steps of the grid of the case; "
        'non-trivial = case with on-variables or a solved portfolio; distinct by case hash')
ASSUMPTIONS = ['pattern feasibility decided by HiGHS MILP on the real rows', "oracle chp.tables: an entry missing in the internal-variables table (None / NaN) counts as 0 = off / no start; with start / shutdown ramp profiles only its fuel clause and the outside-the-window clause are judged", "stream 'regrid': the asset's parameters are given in grid-independent forms (scalars, price keys, interval data reaching beyond every horizon); each stage is judged against the statement on the stage's own grid (durations in main time units of that grid, rounded up to steps)"]
EXPLANATION = 'rows-iff-spec and spec-iff-automaton theorems (unbounded in T) about the model of the generated rows; exact row correspondence; pattern and portfolio oracles on the real code (the portfolio oracle also on the output tables of extract_output over the whole grid, with plants whose own window lies inside the horizon), also for one object set up on a sequence of grids of different frequency / main time unit (each set-up judged on its own grid)'


# TODO switch (coordinator): the statement-level probe chp.profile_ramp reproduces two behaviours of the unchanged code that
# contradict the ramp clause of C06 (proposed known findings F-06h, F-06i).  Until known_findings.json carries the two
# entries a run with the probe prints VIOLATION ... oracle=chp.profile_ramp; VERIF_C06_PROBES=0 leaves the probe stream out.
PROBE_PROFILE_RAMP = os.environ.get('VERIF_C06_PROBES', '1') != '0'


def scenarios(seed, tier):
    n = 800 if tier == 'quick' else 4800
    rnd = random.Random(seed * 7919 + 6)
    kinds = ['build', 'build', 'build', 'pattern', 'portfolio']
    for i in range(n):
        r1 = random.Random(rnd.getrandbits(48))
        if i % 10 == 9:
            c = CH.gen_focus_start_fuel(r1, tmax=8 if tier == 'quick' else 10)
        elif i % 10 == 4:
            c = CH.gen_focus_ramp_conv(r1, tmax=8 if tier == 'quick' else 10)
        elif i % 10 == 7:
            c = CH.gen_focus_start_costs_vary(r1, tmax=8 if tier == 'quick' else 10)
        else:
            c = CH.gen_case(r1, kind=kinds[i % 5], tmax=8 if tier == 'quick' else 10)
        c['_tier'] = tier
        yield 'chp%d' % i, c
    rnd = random.Random(seed * 7919 + 6006)
    for i in range(160 if tier == 'quick' else 960):
        c = RG.gen_case(random.Random(rnd.getrandbits(48)), tmax=7 if tier == 'quick' else 9)
        c['_tier'] = tier
        yield 'regrid%d' % i, c
    rnd = random.Random(seed * 7919 + 60613)
    for i in range(120 if tier == 'quick' else 720):
        c = CH.gen_focus_window_tables(random.Random(rnd.getrandbits(48)), tmax=8 if tier == 'quick' else 10)
        c['_tier'] = tier
        yield 'wintab%d' % i, c
    if PROBE_PROFILE_RAMP:
        rnd = random.Random(seed * 7919 + 606)
        for i in range(40 if tier == 'quick' else 240):
            c = CH.gen_probe_profile_ramp(random.Random(rnd.getrandbits(48)), tmax=8)
            c['_tier'] = tier
            yield 'probe%d' % i, c


def run_case(case, drv):
    tier = case.pop('_tier', 'quick')
    if case.get('kind') == 'regrid':
        r = RG.run_case(case, drv, pattern_tmax=7 if tier == 'quick' else 9)
    else:
        r = CH.run_case(case, drv, pattern_tmax=7 if tier == 'quick' else 10)
    if case.get('focus'):
        r['features'].append('focus:' + case['focus'])
    if (r.get('observed', {}).get('paid_transitions') or 0) > 0:
        r['features'].append('paid-transition')
    r['disagreements'] = [d if isinstance(d, dict) else {'component': 'chp', 'detail': d} for d in r['disagreements']]
    r.setdefault('evaluated', 1 + int(r.get('observed', {}).get('patterns', 0) or 0))
    r.setdefault('nontrivial', ('on' in r['features']) or ('solved' in r['features']))
    return r
