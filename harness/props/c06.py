"""C06 Plant / CHP unit commitment."""
import random
from ..comp import chp as CH

ID = 'C06'
P = 'EAO.Properties.C06'
THEOREMS = [
    (P, 'EAO.C06.commit_rows_iff_spec', 'for all T, min runtime R, min downtime D (in steps) and initial states: an on/off pattern extends to a 0/1 start assignment satisfying the GENERATED start-definition, min-runtime and min-downtime rows and initial-state bounds iff it satisfies the run-length specification MinUpDown'),
    (P, 'EAO.C06.commit_rows_iff_spec_bool', 'the same in Boolean form'),
    (P, 'EAO.C06.spec_iff_automaton', 'MinUpDown holds iff the unit-commitment automaton (state = on?, time in state) accepts, under the constructor guard evaluated in steps'),
    (P, 'EAO.C06.commit_rows_iff_automaton', 'the two combined: admissible patterns = accepted patterns, unbounded in T'),
    (P, 'EAO.C06.commitWF_of_ok', 'the well-formedness hypothesis follows from a decidable check the driver evaluates on every request'),
    (P, 'EAO.C06.capacity_on_off', 'off => virtual dispatch (power + k*heat) = 0; on => between min and max capacity'),
    (P, 'EAO.C06.capacity_without_on', 'without on-variables: between min and max capacity'),
    (P, 'EAO.C06.ramp_steps', 'the ramp rows for t >= 1 in terms of the true virtual dispatch of steps t-1 and t'),
    (P, 'EAO.C06.ramp_steps_on', '|v_t - v_{t-1}| <= ramp when on at both steps (or without on-variables)'),
    (P, 'EAO.C06.ramp_steps_shutdown', 'a shutdown needs v_{t-1} <= ramp'),
    (P, 'EAO.C06.ramp_first_step', 'first step relative to the last dispatch, as the code has it'),
    (P, 'EAO.C06.ramp_first_step_running', 'already running and on: |v_0 - last_dispatch| <= ramp'),
    (P, 'EAO.C06.first_step_up_ramp_enforced_on_old_witness', 'the witness of the repaired defect F-06a is now rejected'),
    (P, 'EAO.C06.start_flag', 'every feasible point has start_{t+1} >= on_{t+1} - on_t'),
    (P, 'EAO.C06.start_flag_first', 'start_0 = on_0 when the unit was off before'),
    (P, 'EAO.C06.spurious_start_feasible', 'machine-checked witness of known finding F-06b: a start may be flagged without an off-to-on transition'),
    (P, 'EAO.C06.heat_share', 'heat <= share * power'),
    (P, 'EAO.C06.fuel_rows', 'fuel-node dispatch = -(power + k*heat)/efficiency - consumption_if_on*on - start_fuel*start'),
    (P, 'EAO.C06.fuel_rows_of_ok', 'the same from the decidable check evaluated per request'),
    (P, 'EAO.C06.buildCHP_ok', 'whatever buildCHP returns is the base problem or the assembled CHP problem of the resolved inputs'),
]
PARTIAL = ['start/shutdown ramp PROFILES (start_ramp_*/shutdown_ramp_*, _convert_ramp, shutdown variables) and CHPAsset_with_min_load_costs are not in the model: the theorems cover the profile-free case; the statement "start flagged exactly at off-to-on transitions" holds only as start >= transition (known finding F-06b: spurious starts are feasible)']
COMPONENTS = ['CHP/Plant builder (on the real Contract base problem) vs CHPAsset.setup_optim_problem: exact rows over all include-flag combinations', 'unit-commitment automaton (model) vs feasibility of pinned on/off patterns in the REAL asset problem (HiGHS)']
RULE = ('three streams: builder correspondence over all include-flag combinations (on/start variables, heat node, fuel node, ramp, initial state, parameter forms, windows, step != main unit); pattern oracle: all 2^T on/off patterns (T <= 7 quick, <= 10 thorough) pinned in the real problem vs the automaton; portfolio oracle recomputing capacity, ramps, heat share, fuel, starts from x; '
        'non-trivial = case with on-variables or a solved portfolio; distinct by case hash')
ASSUMPTIONS = ['pattern feasibility decided by HiGHS MILP on the real rows']
EXPLANATION = 'rows-iff-spec and spec-iff-automaton theorems (unbounded in T) about the model of the generated rows; exact row correspondence; pattern and portfolio oracles on the real code'


def scenarios(seed, tier):
    n = 400 if tier == 'quick' else 4000
    rnd = random.Random(seed * 7919 + 6)
    kinds = ['build', 'build', 'build', 'pattern', 'portfolio']
    for i in range(n):
        r1 = random.Random(rnd.getrandbits(48))
        if i % 10 == 9:
            c = CH.gen_focus_start_fuel(r1, tmax=8 if tier == 'quick' else 10)
        elif i % 10 == 4:
            c = CH.gen_focus_ramp_conv(r1, tmax=8 if tier == 'quick' else 10)
        else:
            c = CH.gen_case(r1, kind=kinds[i % 5], tmax=8 if tier == 'quick' else 10)
        c['_tier'] = tier
        yield 'chp%d' % i, c


def run_case(case, drv):
    tier = case.pop('_tier', 'quick')
    r = CH.run_case(case, drv, pattern_tmax=7 if tier == 'quick' else 10)
    r['disagreements'] = [d if isinstance(d, dict) else {'component': 'chp', 'detail': d} for d in r['disagreements']]
    r.setdefault('evaluated', 1 + int(r.get('observed', {}).get('patterns', 0) or 0))
    r.setdefault('nontrivial', ('on' in r['features']) or ('solved' in r['features']))
    return r
