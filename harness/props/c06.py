"""C06 Plant / CHP unit commitment."""
import random
from ..comp import chp as CH

ID = 'C06'
THEOREMS = CH.THEOREMS
PARTIAL = CH.PARTIAL
MODELLED = CH.MODELLED
COMPONENTS = ['CHP/Plant builder (on the real Contract base problem) vs CHPAsset.setup_optim_problem: exact rows over all include-flag combinations, incl. start/shutdown ramp profiles (with heat variants and _convert_ramp), CHPAsset_with_min_load_costs and costs_only', 'unit-commitment automaton (model) vs feasibility of pinned on/off patterns in the REAL asset problem (HiGHS)']
RULE = ('profile cases (start-only, shutdown-only, both, heat variants, ramp_freq finer / coarser / equal) and min-load cases (threshold and costs as scalar, key, dict, array, None, negative; own windows) in the build and portfolio streams with the oracles chp.profile (k-th step after a start / before a shutdown within the k-th profile bounds) and chp.min_load (below threshold while on => flag); streams: builder correspondence over all include-flag combinations (on/start variables, heat node, fuel node, ramp, initial state, parameter forms, windows, step != main unit); pattern oracle: all 2^T on/off patterns (T <= 7 quick, <= 10 thorough) pinned in the real problem vs the automaton; portfolio oracle recomputing capacity, ramps, heat share, fuel, starts from x; '
        'non-trivial = case with on-variables or a solved portfolio; distinct by case hash')
ASSUMPTIONS = ['pattern feasibility decided by HiGHS MILP on the real rows']
EXPLANATION = 'rows-iff-spec and spec-iff-automaton theorems (unbounded in T) about the model of the generated rows; exact row correspondence; pattern and portfolio oracles on the real code'


def scenarios(seed, tier):
    n = 800 if tier == 'quick' else 4800
    rnd = random.Random(seed * 7919 + 6)
    kinds = ['build', 'build', 'build', 'pattern', 'portfolio']
    for i in range(n):
        r1 = random.Random(rnd.getrandbits(48))
        if i % 10 == 9:
            c = CH.gen_focus_start_fuel(r1, tmax=8 if tier == 'quick' else 10)
        elif i % 10 == 4:
            c = CH.gen_focus_ramp_conv(r1, tmax=8 if tier == 'quick' else 10)
        else:
            c = CH.gen_case(r1, kind=kinds[i % 5], tmax=8 if tier == 'quick' else 10)
        c['_tier'] = tier
        yield 'chp%d' % i, c


def run_case(case, drv):
    tier = case.pop('_tier', 'quick')
    r = CH.run_case(case, drv, pattern_tmax=7 if tier == 'quick' else 10)
    r['disagreements'] = [d if isinstance(d, dict) else {'component': 'chp', 'detail': d} for d in r['disagreements']]
    r.setdefault('evaluated', 1 + int(r.get('observed', {}).get('patterns', 0) or 0))
    r.setdefault('nontrivial', ('on' in r['features']) or ('solved' in r['features']))
    return r
