"""C08 Horizon and windows."""
import copy
import random
import numpy as np
import pandas as pd
from .. import gen, pf, impl, scen
from ..comp import contract as CT
from ..comp import storage as ST_
from ..comp import chp as CH_
from ..comp import scaled as SC_
from ..comp import c08gen as G8
from ..comp import c08coarse as G8C

ID = 'C08'
THEOREMS = CT.THEOREMS_C08 + [
    ('EAO.Properties.C20', 'EAO.C20.order_outside_inert', 'an order with no step in the horizon has zero cost, no mapping row, no restriction and occurs in no nodal row'),
    ('EAO.Properties.C19', 'EAO.C19.restricted_is_filter', 'the asset grid is exactly the sub-list of grid points in [start, end)'),
] + ST_.THEOREMS_C08_STORAGE + CH_.THEOREMS_C08 + SC_.THEOREMS_C08_SCALED
from ..comp import linked as _LK
THEOREMS = THEOREMS + [t for t in _LK.THEOREMS_LINKED if t[1].split('.')[-1] in ['linked_window', 'linked_wf', 'linked_ok', 'late_start_index_error']]
from ..comp import wrapwin as _WW
THEOREMS = THEOREMS + _WW.THEOREMS_C08_WRAP
PARTIAL = ['window theorems (every mapping row inside the asset\'s own grid, zero read-out outside it, empty window inert) are proved builder by builder: contract / transport / multi-commodity / order book, Storage (all options), CHP / Plant / min-load CHP / ramp profiles, and for the wrappers ScaledAsset and StructuredAsset relative to what they wrap; LinkedAsset is not modelled; that the window of a StructuredAsset reaches every wrapped asset (also the order book, which has no start/end parameter of its own) is not a theorem but searched for failing inputs by stream swin against the window applied by hand; that the start/end of a ScaledAsset reach its base asset is likewise searched by the oracles (top-level scaled assets with own windows in stream meta, wrapped ones in stream swin), not proved; the metamorphic statement (an asset outside the horizon changes nothing ELSE) follows from these plus the composition theorems of C09 and is searched for failing inputs by the oracle; '
           'that the part of the horizon outside every window changes nothing (time blocks of a storage, run times of a plant, coarse steps and take periods are counted from the asset\'s own window, not from the horizon) is not a theorem but searched by stream hext and the horizon cut of stream meta; '
           'take_prorated is a theorem about the model of the builders (tied by the correspondence cases, which include two-variable contracts); on the real code the prorated right-hand side is checked by the oracles of streams oracle (one variable per step) and take (one and two)']
COMPONENTS = ['contract/transport builders (simple_contract, contract, multi, transport, ext_transport) vs the real builders, incl. windows in 9 placements and take periods inside/straddling/outside']
RULE = ('streams and oracles: (a) builder correspondence cases over all option combinations; (b) metamorphic: a random portfolio plus an extra asset of ANY kind whose window lies entirely outside the horizon (before/after), or extra take periods / orders outside: value and the other assets\' solution unchanged; '
        '(c) every asset\'s dispatch is zero outside its own window clipped to the horizon (scaled asset: own start/end intersected with the window of its base; own windows in all placements), and every asset wrapped in a StructuredAsset is - per wrapped asset, at external and internal nodes - dispatched only inside the structure\'s window intersected with its own; proration of take periods checked against date arithmetic; '
        '(d) windows in a split optimisation; '
        '(e) stream swin (comp/c08gen.py): a StructuredAsset WITH a window (10 placements relative to the horizon) around 1-4 assets of all kinds (order book, simple contract, contract, storage, plant, CHP, min-load CHP, transport, extended transport, multi-commodity, scaled asset with own and/or base window; at the external nodes and at an internal node), '
        'the orders of wrapped order books placed anywhere relative to horizon AND window (inside, straddling, inside the horizon but outside the window, outside the horizon) at prices worth executing against the node\'s market: oracles (c) on the structure\'s dispatch columns, on its internal-variable table (dispatch at internal nodes, executed fractions of wrapped orders) and per wrapped asset, '
        'plus the reference optimum of the same portfolio with the window applied BY HAND (window removed from the structure, wrapped windows intersected, orders cut to the window, orders without a part inside dropped); '
        '(f) stream cwin (comp/c08coarse.py): an asset of every class that accepts freq, at a frequency of 2-4 grid steps, whose own window reaches beyond the horizon at the start, the end or both (by whole coarse steps, by part of one, also between grid points) or lies entirely outside it: '
        'works whenever the same asset without freq works, no dispatch outside the window clipped to the horizon, same optimum (and the solution still optimal) with the window shrunk to the asset\'s own coarse cuts enclosing the horizon and, where the horizon starts on such a cut, with the window clipped to the horizon; entirely outside: optimum as without the asset; '
        '(g) stream hext (comp/c08gen.py): portfolios in which EVERY asset has an explicit window inside the horizon H (storages optimised in time blocks - block_size from 2 steps to half the window, also a week and sizes that are no multiple of the step - '
        'with own starts at any offset, plain storages, plants / CHP with minimum run and down times and a history, contracts / transports / multi-commodity contracts with take periods anywhere, assets at a coarser frequency with windows on whole coarse steps, '
        'scaled assets, order books with all orders inside H, markets), optimised on H and on H extended by 0-5 steps before and 0-4 after (prices there arbitrary; no discounting when extended before, since discounting counts from the start of the horizon): '
        'both work or both fail, same optimum, no dispatch outside the windows, and the solution on either horizon, carried over asset by asset, is feasible and optimal on the other; '
        'the horizon cut of stream meta (all windows of a random portfolio clamped to the horizon cut by k steps) now cuts at the end, at the start or at both; '
        '(h) stream take (comp/c08gen.py): Contract and MultiCommodityContract with one AND with two variables per step (extra costs in any form with capacities of both signs), ExtendedTransport, Plant, CHPAsset; own windows in 8 grid-aligned placements; '
        '1-3 max_take / min_take periods anywhere relative to horizon and window: the right-hand side of every take row of the asset\'s own problem equals V * covered / (e - s) by date arithmetic (covered = the steps inside window and period), exactly as many take rows as periods covering a step, '
        'and, for the contract and transport classes next to markets that make taking pay off or not, what is taken in the covered steps in the optimum respects the prorated bound; '
        'non-trivial = solved scenario in which the tested element exists (swin: the window excludes at least one step of the horizon; cwin: the coarse asset is dispatched, or lies outside; hext: both horizons solved; take: a period covers a step); distinct by case hash')
ASSUMPTIONS = ['values compared with tolerance 2e-6 relative; dispatch outside a window counts from 1e-6 of the largest dispatch; solutions compared by transport into the other problem (ties allowed); '
               'covered duration of a take period = total length of the steps of the horizon that begin inside the asset\'s window and inside the period (take dates and windows of stream take lie on grid points, where this is the length of the overlap)']
# the start side of the horizon cut of stream meta (d).  False: cut at the end only.
ALLOW_CUT_START = True
EXPLANATION = ('theorems about the builder models; correspondence; metamorphic oracles on the real code (inert elements outside the horizon; windows of structured assets against the window applied by hand; coarse-frequency assets whose window reaches beyond the horizon; '
               'the same portfolio with all windows inside the horizon on a horizon extended before / after); take rows of one- and two-variable contracts against date arithmetic')


def scenarios(seed, tier):
    n = 240 if tier == 'quick' else 1440
    rnd = random.Random(seed * 7919 + 8)
    for i in range(n):
        yield 'build%d' % i, {'stream': 'build', 'case': CT.gen_case(random.Random(rnd.getrandbits(48)), malformed=(i % 6 == 5))}
    for i in range(n):
        oc = CT.gen_oracle_case(random.Random(rnd.getrandbits(48)))
        while not oc['what'].startswith('c08'):
            oc = CT.gen_oracle_case(random.Random(rnd.getrandbits(48)))
        yield 'orc%d' % i, {'stream': 'oracle', 'case': oc}
    for i in range(n):
        r2 = random.Random(rnd.getrandbits(48))
        s = gen.gen_portfolio(r2, tmax=8 if tier == 'quick' else 14, tz_prob=0.1, allow_periodic=False, allow_freq=False)
        s['extra_seed'] = r2.getrandbits(40)
        for a in s['assets']:
            # the scaled asset's OWN start / end (any placement), over a base with or without a window of its own
            if a['type'] == 'ScaledAsset' and r2.random() < 0.6:
                gen.put_window(a['args'], gen.window(r2, s['grid'], kinds=['inside', 'inside', 'start_only', 'end_only', 'straddle_start', 'straddle_end',
                                                                          'covering', 'equal', 'before', 'after', 'offgrid']))
        if i % 6 == 5:
            # a unit that is running at the start and committed (remaining minimum runtime) beyond the end of its own window
            s['assets'] = [a for a in s['assets'] if a['type'] not in ('OrderBook', 'StructuredAsset')]
            nd = [x for x in s['nodes'] if not x.endswith('_i1')][0]
            pl = gen.gen_plant(r2, s['grid'], s['prices'], s['grid']['T_nominal'], 'cpl', [nd], chp=False, allow_mip=True)
            pl['args'].update({'min_cap': pl['args'].get('min_cap', 1.0), 'min_runtime': float(s['grid']['T_nominal'] + 3), 'time_already_running': float(r2.randint(1, 2)),
                               'start_costs': gen.q8(r2, 1, 4)})
            for k_ in ('time_already_off', 'min_downtime', 'ramp', 'last_dispatch', 'start', 'end'):
                pl['args'].pop(k_, None)
            s['assets'].append(pl)
        if i % 3 == 0 and not any(a['type'] == 'OrderBook' for a in s['assets']):
            nd = r2.choice([x for x in s['nodes'] if not x.endswith('_i1')])
            s['assets'].insert(r2.randint(0, len(s['assets'])), gen.gen_orderbook(r2, s['grid'], s['prices'], s['grid']['T_nominal'], 'book', nd))
        yield 'meta%d' % i, {'stream': 'meta', 'case': s}
    for i in range(n // 2):
        # windows in a split optimisation, incl. intervals in which nothing is active yet
        r2 = random.Random(rnd.getrandbits(48))
        s = gen.gen_portfolio(r2, tmax=12, tz_prob=0.1, kinds=['simple', 'contract', 'transport', 'storage', 'multi_nt', 'plant_lp', 'simple'], allow_mip=False,
                              allow_periodic=False, allow_freq=False, allow_blocks=False)
        if r2.random() < 0.6:
            gen.make_late_start(s, r2)
        s['parts'] = r2.choice([2, 3, 4])
        yield 'split%d' % i, {'stream': 'split', 'case': s}
    for i in range(n):
        # a StructuredAsset WITH a window around assets of all kinds, incl. order books whose orders lie partly / entirely outside
        # that window (inside the horizon) at attractive prices
        r2 = random.Random(rnd.getrandbits(48))
        yield 'swin%d' % i, {'stream': 'swin', 'case': G8.gen_struct_window_case(r2, tmax=9 if tier == 'quick' else 14, allow_mip=(i % 3 != 0))}
    for i in range(n // 2):
        # an asset with a COARSER frequency than the grid whose own window reaches beyond the horizon or lies entirely outside it
        yield 'cwin%d' % i, {'stream': 'cwin', 'case': G8C.gen_case(random.Random(rnd.getrandbits(48)), tmax=16 if tier == 'quick' else 30)}
    for i in range(n // 2):
        # every asset with an explicit window inside the horizon H; the same portfolio on H extended before and / or after
        yield 'hext%d' % i, {'stream': 'hext', 'case': G8.gen_hext_case(random.Random(rnd.getrandbits(48)), tmax=24 if tier == 'quick' else 40, allow_mip=(i % 3 != 0))}
    for i in range(n // 2):
        # take periods placed anywhere relative to horizon and window, on contracts with one or two variables per step
        yield 'take%d' % i, {'stream': 'take', 'case': G8.gen_take_case(random.Random(rnd.getrandbits(48)), tmax=10 if tier == 'quick' else 16)}
    # LinkedAsset (comp/linked.py): the model of the linking loop against the real set-up, on captured and on generated structured problems
    from ..comp import linked as LK
    _rl = random.Random(seed * 15485863 + 81)
    for i in range(60 if tier == 'quick' else 400):
        yield 'lk%d' % i, {'_stream': 'linked', 'case': LK.gen_case(_rl.__class__(_rl.getrandbits(48)), tmax=6)}
    # windows of wrappers (StructuredAsset / ScaledAsset nested to depth 3) against the literal and the pure model: every
    # set_restricted_grid call, the restored attributes, the exact problem; oracle on the real code alone (comp/wrapwin.py)
    _rw = random.Random(seed * 15485863 + 88)
    for i in range(150 if tier == 'quick' else 1000):
        yield 'ww%d' % i, {'_stream': 'wrapwin', 'case': _WW.gen_case(random.Random(_rw.getrandbits(48)))}


def outside_asset(rnd, scn):
    """an asset of a random kind whose window lies entirely outside the horizon"""
    g = scn['grid']
    T = g['T_nominal']
    prices = scn['prices']
    node = rnd.choice([n for n in scn['nodes'] if not n.endswith('_i1')])
    others = [n for n in scn['nodes'] if n != node and not n.endswith('_i1')]
    kind = rnd.choice(['simple', 'contract', 'storage', 'plant', 'orderbook', 'scaled', 'transport', 'multi', 'chp', 'structured'])
    nm = 'ghost'
    if kind in ('transport', 'multi', 'chp') and not others:
        kind = 'simple'
    if kind == 'simple':
        a = gen.gen_simple_contract(rnd, g, prices, T, nm, node)
    elif kind == 'contract':
        a = gen.gen_contract(rnd, g, prices, T, nm, node)
    elif kind == 'storage':
        a = gen.gen_storage(rnd, g, prices, T, nm, [node], True, True)
    elif kind == 'plant':
        a = gen.gen_plant(rnd, g, prices, T, nm, [node], chp=False)
    elif kind == 'chp':
        a = gen.gen_plant(rnd, g, prices, T, nm, [node, others[0]], chp=True)
    elif kind == 'transport':
        a = gen.gen_transport(rnd, g, prices, T, nm, node, others[0], ext=rnd.random() < 0.5)
    elif kind == 'multi':
        a = gen.gen_multi(rnd, g, prices, T, nm, [node, others[0]])
    elif kind == 'orderbook':
        a = gen.gen_orderbook(rnd, g, prices, T, nm, node)
        o = a['args']['orders']
        n = len(o['start'])
        where = rnd.choice(['before', 'after'])
        o['start'] = [gen.dtv(gen.P(g, -6 - k) if where == 'before' else gen.P(g, T + 1 + k)) for k in range(n)]
        o['end'] = [gen.dtv(gen.P(g, -2) if where == 'before' else gen.P(g, T + 5 + k)) for k in range(n)]
        if not all(gen.ok_local(pd.Timestamp(x['$dt']), g) for x in o['start'] + o['end']):
            return None
        return a
    elif kind == 'scaled':
        base = gen.gen_storage(rnd, g, prices, T, nm + '_b', [node], False, False) if rnd.random() < 0.5 else gen.gen_simple_contract(rnd, g, prices, T, nm + '_b', node)
        a = {'type': 'ScaledAsset', 'name': nm, 'base': base, 'args': {'min_scale': 0.0, 'max_scale': 2.0, 'norm_scale': 1.0, 'fix_costs': gen.q8(rnd, 0, 1)}}
    else:
        inner = [gen.gen_transport(rnd, g, prices, T, nm + '_tr', nm + '_i1', node), gen.gen_simple_contract(rnd, g, prices, T, nm + '_c', nm + '_i1')]
        inner[0]['args'].pop('costs_time_series', None)
        a = {'type': 'StructuredAsset', 'name': nm, 'nodes': [node], 'inner': inner, 'args': {}, 'inner_nodes': [nm + '_i1']}
    w = gen.window(rnd, g, kinds=['before', 'after'])
    if w[0] == 'none':
        return None
    tgts = [a['args']]
    if a['type'] == 'ScaledAsset':
        # the window outside the horizon sits on the base, on the scaled asset itself (base without window), or on both
        tgts = rnd.choice([[a['base']['args']], [a['args']], [a['base']['args'], a['args']]])
    for tgt in tgts:
        tgt.pop('start', None)
        tgt.pop('end', None)
        gen.put_window(tgt, w)
    return a


def window_of(spec):
    a = spec.get('base', spec).get('args', {}) if spec['type'] == 'ScaledAsset' else spec.get('args', {})
    return a.get('start'), a.get('end')


def spec_mask(tg, tz, spec):
    """steps of the horizon inside the window of an asset specification; a ScaledAsset is active in the intersection of its own
    start/end with the window of its base asset (it hands its window down to the base)"""
    mask = window_mask(tg, tz, *window_of(spec))
    if spec['type'] == 'ScaledAsset':
        mask = mask & window_mask(tg, tz, spec.get('args', {}).get('start'), spec.get('args', {}).get('end'))
    return mask


def has_window(spec):
    return any(x is not None for x in window_of(spec)) or (spec['type'] == 'ScaledAsset' and any(k in spec.get('args', {}) for k in ('start', 'end')))


def window_mask(tg, tz, s, e):
    """steps of the horizon whose start lies in [s, e) (scenario dates: naive local times of the grid's zone; None = open)"""
    tp = tg.timepoints
    mask = np.ones(tg.T, dtype=bool)
    if s is not None:
        ts = pd.Timestamp(s['$dt'])
        ts = ts.tz_localize(tz) if tz else ts
        mask &= np.asarray(tp >= ts)
    if e is not None:
        te = pd.Timestamp(e['$dt'])
        te = te.tz_localize(tz) if tz else te
        mask &= np.asarray(tp < te)
    return mask


def check_windows(base, rec, viol, feats, mode='mono'):
    """(c) every asset's reported dispatch is zero outside its own window clipped to the horizon"""
    tg = rec['tg']
    tz = base['grid'].get('tz')
    disp = rec['out']['dispatch']
    cols = impl.disp_cols(rec['portf'])
    scale = max(1.0, float(np.abs(disp.values).max()) if disp.size else 1.0)
    hit = False
    for spec, a in zip(base['assets'], rec['portf'].assets):
        if spec['type'] == 'OrderBook':
            continue
        if not has_window(spec):
            continue
        mask = spec_mask(tg, tz, spec)
        for n in a.nodes:
            col = cols[(a.name, n.name)]
            if list(cols.values()).count(col) > 1 or col not in disp.columns:
                continue
            v = disp[col].values.astype(float)
            bad = np.where((~mask) & (np.abs(v) > 1e-6 * scale))[0]
            if len(bad):
                viol('%sasset %r (%s) is dispatched at step %d (%.6g) outside its window' % ('split optimisation: ' if mode == 'split' else '', a.name, spec['type'], int(bad[0]), v[bad[0]]),
                     what='outside_window', asset_type=spec['type'], mode=mode)
                break
            if mode == 'split' and mask.any() and float(np.abs(v[mask]).max()) > 1e-6 * scale:
                hit = True
        feats.append('windowed-asset')
        if spec['type'] == 'ScaledAsset' and any(k in spec.get('args', {}) for k in ('start', 'end')):
            feats.append('scaled-asset-with-own-window:base-window=%s' % any(x is not None for x in window_of(spec)))
    return scale, hit


def run_meta(scn, r):
    feats = r['features']

    def viol(msg, **facts):
        r['violations'].append({'oracle': 'horizon_and_windows', 'detail': msg, 'facts': facts})
    base = {k: v for k, v in scn.items() if k != 'extra_seed'}
    for a in base['assets']:
        feats.append('asset:' + a['type'])
    try:
        rec = pf.setup_mono(base)
        pf.solve_rec(rec)
    except Exception as e:
        feats.append('setup-error:' + impl.err_class(e))
        return
    if isinstance(rec['res'], str):
        feats.append('unsolved')
        return
    scale, _ = check_windows(base, rec, viol, feats)
    check_wrapped(base, rec, viol, feats)
    if 'windowed-asset' in feats:
        r['nontrivial'] = True
    rnd = random.Random(scn['extra_seed'])
    # (d) the part of the horizon before / after every asset's window matters to nobody: with all windows starting j steps after the
    #     start and / or ending k steps before the end of the horizon, the optimum equals the optimum on the horizon cut there
    #     (start side only without discounting, which counts from the start of the horizon)
    g0 = base['grid']
    T0 = g0['T_nominal']
    if T0 >= 4 and not any(a['type'] in ('OrderBook', 'StructuredAsset') for a in base['assets']):
        try:
            side = rnd.choice(['end', 'start', 'both']) if ALLOW_CUT_START else 'end'
            if side != 'end' and any('wacc' in x.get('args', {}) for x in scen.all_asset_specs(base)):
                side = 'end'
            k_cut = rnd.randint(1, max(1, T0 // 3)) if side != 'start' else 0
            j_cut = rnd.randint(1, max(1, T0 // 3)) if side != 'end' else 0
            ps, pe = gen.P(g0, j_cut), gen.P(g0, T0 - k_cut)

            def clamp(args):
                ts = lambda v: pd.Timestamp(v['$dt'])
                if k_cut and ('end' not in args or ts(args['end']) > pe):
                    args['end'] = gen.dtv(pe)
                if j_cut and ('start' not in args or ts(args['start']) < ps):
                    args['start'] = gen.dtv(ps)
                if 'start' in args and 'end' in args and ts(args['start']) >= ts(args['end']):
                    # (nothing left of the asset's own window: it gets the whole cut horizon)
                    for key, cut_, p_ in (('start', j_cut, ps), ('end', k_cut, pe)):
                        if cut_:
                            args[key] = gen.dtv(p_)
                        else:
                            args.pop(key)
            if gen.ok_local(pe, g0) and gen.ok_local(ps, g0):
                early = copy.deepcopy(base)
                for a in early['assets']:
                    clamp(a['base']['args'] if a['type'] == 'ScaledAsset' else a['args'])
                    if a['type'] == 'ScaledAsset':
                        clamp(a['args'])
                cut = copy.deepcopy(early)
                cut['grid'] = dict(g0)
                cut['grid']['start'] = g0['_pts'][j_cut]
                cut['grid']['end'] = g0['_pts'][T0 - k_cut]
                gen.fix_grid(cut['grid'])
                cut['prices'] = {k_: list(v_)[j_cut:T0 - k_cut] for k_, v_ in early['prices'].items()}
                re_, rc_ = pf.setup_mono(early), pf.setup_mono(cut)
                if rc_['tg'].T == T0 - k_cut - j_cut and re_['tg'].T == T0:
                    pf.solve_rec(re_)
                    pf.solve_rec(rc_)
                    r['evaluated'] += 2
                    feats.append('horizon-cut:' + side)
                    a_, b_ = re_['res'], rc_['res']
                    txt = 'all windows start %d steps after the start and end %d steps before the end of the horizon' % (j_cut, k_cut)
                    if isinstance(a_, str) != isinstance(b_, str):
                        viol('%s: optimisation on the full horizon %s, on the horizon cut there %s' % (
                            txt, a_ if isinstance(a_, str) else 'successful', b_ if isinstance(b_, str) else 'successful'), what='horizon_cut_status', side=side)
                    elif not isinstance(a_, str) and abs(float(a_.value) - float(b_.value)) > 2e-6 * max(1.0, abs(float(b_.value))):
                        viol('%s: optimum %.9g on the full horizon, %.9g on the horizon cut there' % (txt, float(a_.value), float(b_.value)), what='horizon_cut_value', side=side)
        except Exception as e:
            feats.append('horizon-cut-skip:' + impl.err_class(e))
    # (b') an extra ORDER lying entirely outside the horizon, placed anywhere in an existing order book (also before
    #      orders that do deliver), is inert
    obs = [k for k, a in enumerate(base['assets']) if a['type'] == 'OrderBook']
    if obs:
        g = base['grid']
        T = g['T_nominal']
        ext = copy.deepcopy(base)
        o = ext['assets'][rnd.choice(obs)]['args']['orders']
        where = rnd.choice(['before', 'after'])
        s_, e_ = (gen.P(g, -6), gen.P(g, -2)) if where == 'before' else (gen.P(g, T + 1), gen.P(g, T + 4))
        if gen.ok_local(s_, g) and gen.ok_local(e_, g):
            pos = rnd.choice([0, 0, rnd.randint(0, len(o['start']))])
            o['start'].insert(pos, gen.dtv(s_))
            o['end'].insert(pos, gen.dtv(e_))
            o['capa'].insert(pos, rnd.choice([-1, 1]) * gen.q8(rnd, 0.25, 4))
            o['price'].insert(pos, gen.q8(rnd, -2, 15))
            feats.append('ghost-order:%s@%d/%d' % (where, pos, len(o['start'])))
            r['evaluated'] += 1
            try:
                rx = pf.setup_mono(ext)
                pf.solve_rec(rx)
                V0 = float(rec['res'].value)
                if isinstance(rx['res'], str):
                    viol('adding an order that lies outside the horizon at position %d of the order book makes the optimisation fail (%s)' % (pos, rx['res']), what='ghost_order_status')
                elif abs(float(rx['res'].value) - V0) > 2e-6 * max(1.0, abs(V0)):
                    viol('adding an order that lies outside the horizon at position %d of the order book changes the optimal value from %.8g to %.8g' % (pos, V0, float(rx['res'].value)), what='ghost_order_value')
                r['nontrivial'] = True
            except Exception as e:
                viol('adding an order that lies outside the horizon at position %d of the order book makes set-up / optimisation / read-out raise %s (%s)' % (pos, type(e).__name__, str(e)[:120]), what='ghost_order_raises')
    # (b) an extra asset entirely outside the horizon is inert
    ext = copy.deepcopy(base)
    ghost = outside_asset(rnd, ext)
    if ghost is None:
        return
    pos = rnd.randint(0, len(ext['assets']))
    ext['assets'].insert(pos, ghost)
    for x in ghost.get('inner_nodes', []):
        ext['nodes'].append(x)
    feats.append('ghost:' + ghost['type'] + ('/' + ghost['base']['type'] if 'base' in ghost else ''))
    r['evaluated'] += 1
    try:
        rx = pf.setup_mono(ext)
        pf.solve_rec(rx)
    except Exception as e:
        viol('adding a %s whose window lies outside the horizon makes the set-up raise %s (%s)' % (ghost['type'], type(e).__name__, str(e)[:120]), what='ghost_raises', asset_type=ghost['type'])
        return
    if isinstance(rx['res'], str):
        viol('adding a %s whose window lies outside the horizon makes the optimisation fail (%s)' % (ghost['type'], rx['res']), what='ghost_status', asset_type=ghost['type'])
        return
    V0, V1 = float(rec['res'].value), float(rx['res'].value)
    tol = 2e-6 * max(1.0, abs(V0))
    if abs(V0 - V1) > tol:
        viol('adding a %s whose window lies outside the horizon changes the optimal value from %.8g to %.8g' % (ghost['type'], V0, V1), what='ghost_value', asset_type=ghost['type'])
        return
    # the other assets' solution of the extended problem is an optimal solution of the original problem
    b0 = pf.asset_blocks(rec)
    b1 = pf.asset_blocks(rx)
    x = np.zeros(len(rec['op'].c))
    ok = True
    for a in rec['portf'].assets:
        lo, hi = b0[a.name][0]
        lo1, hi1 = b1[a.name][0]
        if hi - lo != hi1 - lo1:
            ok = False
            break
        x[lo:hi] = rx['res'].x[lo1:hi1]
    if not ok:
        viol('adding an outside asset changes the number of variables of another asset', what='ghost_sizes', asset_type=ghost['type'])
        return
    worst, what = pf.feasibility_violation(rec['op'], x)
    val = -float(np.dot(rec['op'].c, x))
    if worst > 1e-5 or abs(val - V0) > tol:
        viol('with a %s outside the horizon added, the dispatch of the other assets is no longer an optimal solution of the original problem (violates %s by %.3g, value %.8g vs %.8g)' % (ghost['type'], what, worst, val, V0),
             what='ghost_dispatch', asset_type=ghost['type'])
    gd = [c for (an, nn), c in impl.disp_cols(rx['portf']).items() if an == 'ghost']
    for c in gd:
        if c in rx['out']['dispatch'].columns and float(np.abs(rx['out']['dispatch'][c].values).max()) > 1e-6 * scale:
            viol('the asset outside the horizon is dispatched', what='ghost_dispatched', asset_type=ghost['type'])
    r['nontrivial'] = True


def run_split(scn, r):
    feats = r['features']

    def viol(msg, **facts):
        r['violations'].append({'oracle': 'horizon_and_windows', 'detail': msg, 'facts': facts})
    base = {k: v for k, v in scn.items() if k not in ('parts', 'late_start')}
    try:
        tg = scen.make_grid(base['grid'])
        step = base['grid']['step_s']
        tot = step * max(1, tg.T // scn['parts'])
        interval = ('%dmin' % (tot // 60)) if tot % 3600 else ('%dh' % (tot // 3600))
        rs = pf.setup_split(base, interval)
        pf.solve_rec(rs)
    except Exception as e:
        feats.append('setup-error:' + impl.err_class(e))
        return
    if isinstance(rs['res'], str):
        feats.append('unsolved')
        return
    feats.append('late-start' if scn.get('late_start') else 'no-late-start')
    _, hit = check_windows(base, rs, viol, feats, mode='split')
    r['nontrivial'] = bool(hit)


def check_internal(base, rec, viol, feats):
    """(c') what a StructuredAsset with a window wraps at INTERNAL nodes: the read-out of the wrapped assets' variables (table
    `internal_variables`, columns '<structure> (<variable>__<wrapped asset>)': dispatch at internal nodes, executed fraction of
    the orders of a wrapped order book, ...) shows nothing outside the structure's window"""
    iv = rec['out'].get('internal_variables')
    if iv is None or not len(iv.columns):
        return
    tz = base['grid'].get('tz')
    for spec in base['assets']:
        if spec['type'] != 'StructuredAsset':
            continue
        s, e = window_of(spec)
        if s is None and e is None:
            continue
        mask = window_mask(rec['tg'], tz, s, e)
        for col in iv.columns:
            if not str(col).startswith(spec['name'] + ' ('):
                continue
            v = np.nan_to_num(pd.to_numeric(iv[col], errors='coerce').values.astype(float))
            bad = np.where((~mask) & (np.abs(v) > 1e-6))[0]
            feats.append('windowed-internal-variable')
            if len(bad):
                inner = str(col)[len(spec['name']) + 2:-1].split('__')[-1]
                it = [b['type'] for b in spec['inner'] if b['name'] == inner]
                viol('structured asset %r with a window: wrapped asset %r has the non-zero internal variable %s = %.6g at step %d outside the window' % (
                    spec['name'], inner, col, v[bad[0]], int(bad[0])), what='outside_window_internal', asset_type='StructuredAsset', inner_type=(it or [None])[0])
                break


def check_wrapped(base, rec, viol, feats):
    """(c'') per WRAPPED asset of a StructuredAsset: its dispatch (problem's own record of the structure: variable x factor per wrapped
    asset, node - external or internal - and step; NOT netted over the wrapped assets as the structure's dispatch column is) is zero
    outside the structure's window intersected with the wrapped asset's own window.  For a wrapped order book these are the
    deliveries of its executed orders."""
    m = rec['op'].mapping
    if m is None or 'internal_asset' not in m.columns:
        return
    x = np.asarray(rec['res'].x, dtype=float)
    tz = base['grid'].get('tz')
    T = rec['tg'].T
    for spec in base['assets']:
        if spec['type'] != 'StructuredAsset':
            continue
        ms = window_mask(rec['tg'], tz, *window_of(spec))
        rows = m[(m['asset'] == spec['name']) & m['type'].isin(['d', 'i']) & m['node'].notnull()]
        for b in spec['inner']:
            mask = ms if b['type'] == 'OrderBook' else (ms & spec_mask(rec['tg'], tz, b))
            if mask.all():
                continue
            feats.append('windowed-wrapped-asset')
            rb = rows[rows['internal_asset'] == b['name']]
            if not len(rb):
                continue
            fac = rb['disp_factor'].values.astype(float) if 'disp_factor' in rb.columns else np.ones(len(rb))
            val = x[rb.index.values.astype(int)] * np.where(np.isnan(fac), 1.0, fac)
            steps = rb['time_step'].values.astype(int)
            scale = max(1.0, float(np.abs(val).max()))
            for nd in rb['node'].unique():
                tot = np.zeros(T)
                sel = (rb['node'] == nd).values
                np.add.at(tot, steps[sel], val[sel])
                bad = np.where((~mask) & (np.abs(tot) > 1e-6 * scale))[0]
                if len(bad):
                    viol('structured asset %r: wrapped asset %r (%s) is dispatched at node %s at step %d (%.6g) outside the window it has inside the structure' % (
                        spec['name'], b['name'], b['type'], nd, int(bad[0]), tot[bad[0]]), what='outside_window_wrapped', asset_type='StructuredAsset', inner_type=b['type'])
                    break


def run_swin(scn, r):
    """stream 'swin': a StructuredAsset with a window around assets of all kinds (comp/c08gen.py)"""
    feats = r['features']

    def viol(msg, **facts):
        r['violations'].append({'oracle': 'horizon_and_windows', 'detail': msg, 'facts': facts})
    base = {k: v for k, v in scn.items() if k != 'window_kind'}
    sa = [a for a in base['assets'] if a['type'] == 'StructuredAsset'][0]
    feats.append('struct-window:' + str(scn.get('window_kind')))
    for b in sa['inner']:
        feats.append('wrapped:%s@%s' % (b['type'], 'internal' if any(n in sa.get('inner_nodes', []) for n in b['nodes']) else 'external'))
    flat, ff = G8.flatten_by_hand(base)
    inner_types = sorted(set(b['type'] for b in sa['inner']))

    def run(s_):
        try:
            rec_ = pf.setup_mono(s_)
            pf.solve_rec(rec_)
            return rec_, None
        except Exception as e_:
            return None, e_
    rec, err = run(base)
    rf, errf = run(flat)
    r['evaluated'] += 1
    if err is not None or errf is not None:
        if (err is None) != (errf is None):
            viol('structured asset with window %s around %s: set-up / optimisation / read-out %s, with the window applied by hand to the wrapped assets and orders %s' % (
                scn.get('window_kind'), inner_types, 'raises %s (%s)' % (type(err).__name__, str(err)[:100]) if err is not None else 'works',
                'raises %s (%s)' % (type(errf).__name__, str(errf)[:100]) if errf is not None else 'works'), what='struct_window_raises', inner_types=inner_types)
        else:
            feats.append('setup-error:' + impl.err_class(err))
        return
    a_, b_ = rec['res'], rf['res']
    if isinstance(a_, str) or isinstance(b_, str):
        if isinstance(a_, str) != isinstance(b_, str):
            viol('structured asset with window %s around %s: optimisation %s, with the window applied by hand to the wrapped assets and orders %s' % (
                scn.get('window_kind'), inner_types, a_ if isinstance(a_, str) else 'successful', b_ if isinstance(b_, str) else 'successful'),
                what='struct_window_status', inner_types=inner_types)
        else:
            feats.append('unsolved')
        return
    # (c) nothing at the external nodes outside the window, (c') nothing at internal nodes / in the executed fractions outside it
    check_windows(base, rec, viol, feats)
    check_internal(base, rec, viol, feats)
    check_wrapped(base, rec, viol, feats)
    # (e) the window applied by hand gives the same optimum
    V0, V1 = float(rec['res'].value), float(rf['res'].value)
    if abs(V0 - V1) > 2e-6 * max(1.0, abs(V0), abs(V1)):
        viol('structured asset with window %s around %s: optimum %.9g; with the window applied by hand (wrapped windows intersected, %d of %d orders cut to the window, %d without a part inside dropped) the optimum is %.9g' % (
            scn.get('window_kind'), inner_types, V0, ff['cut'], ff['orders'], ff['dropped'], V1), what='struct_window_value', inner_types=inner_types)
    mask = window_mask(rec['tg'], base['grid'].get('tz'), *window_of(sa))
    if ff['orders']:
        feats.append('orders-cut' if ff['cut'] else 'no-order-cut')
        feats.append('orders-dropped' if ff['dropped'] else 'no-order-dropped')
    feats.append('window-steps:%s' % ('none' if not mask.any() else 'all' if mask.all() else 'some'))
    r['nontrivial'] = bool((~mask).any())
    r['observed'] = {'value': V0, 'value_by_hand': V1, 'orders': ff}


def run_case(c, drv):
    if isinstance(c, dict) and c.get('_stream') == 'wrapwin':
        dis, viol, ir, mr = _WW.run_case(c['case'], drv)
        return {'evaluated': 1, 'nontrivial': mr is not None and not mr.get('error'), 'features': ['stream:wrapwin', 'ww:' + str(c['case'].get('stream'))],
                'disagreements': [{'component': 'wrapper windows', 'detail': d} for d in dis], 'violations': viol}
    if isinstance(c, dict) and c.get('_stream') == 'linked':
        from ..comp import linked as LK
        r = LK.run_case(c['case'], drv, with_oracle=False)      # the tie of the linked model; its documented-behaviour oracle states no property of this list
        r['features'] = ['stream:linked'] + list(r.get('features', []))
        return r
    r = {'evaluated': 1, 'nontrivial': False, 'features': ['stream:' + c['stream']], 'disagreements': [], 'violations': []}
    if c['stream'] == 'build':
        rec = CT.run_case(c['case'], drv)
        r['features'] += rec.get('features', [])
        r['disagreements'] = [{'component': 'contract-builders', 'detail': d} for d in rec.get('disagreements', [])]
        r['nontrivial'] = rec.get('nvars', 0) > 0
        r['observed'] = {k: rec.get(k) for k in ('impl', 'nvars', 'nrows', 'exact')}
    elif c['stream'] == 'oracle':
        rec = CT.run_oracle(c['case'])
        r['features'] += rec.get('features', [])
        r['violations'] = rec.get('violations', [])
        r['nontrivial'] = bool(rec.get('nontrivial'))
    elif c['stream'] == 'split':
        run_split(c['case'], r)
    elif c['stream'] == 'swin':
        run_swin(c['case'], r)
    elif c['stream'] == 'cwin':
        G8C.run_case(c['case'], r)
    elif c['stream'] == 'hext':
        G8.run_hext(c['case'], r, check_windows)
    elif c['stream'] == 'take':
        G8.run_take(c['case'], r)
    else:
        run_meta(c['case'], r)
    return r
