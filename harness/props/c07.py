"""C07 Mapping faithfulness."""
import random
import numpy as np
import scipy.sparse as sp
from .. import gen, pf, impl
from ..comp import c07gen

ID = 'C07'
THEOREMS = [
    ('EAO.Properties.C07', 'EAO.C07.assemble_sizes', 'cost and bound vectors have one entry per variable; n = sum of asset sizes'),
    ('EAO.Properties.C07', 'EAO.C07.assemble_cols', 'every column index of every row (asset rows and nodal rows) is an existing variable'),
    ('EAO.Properties.C07', 'EAO.C07.assemble_block', 'variable offset_i + j carries exactly asset i\'s cost and bounds of its variable j'),
    ('EAO.Properties.C07', 'EAO.C07.assemble_mapping_faithful', 'every mapping row is the shifted row of exactly the asset it names and points into that asset\'s block'),
    ('EAO.Properties.C07', 'EAO.C07.rowless_not_in_nodal', 'a variable without mapping row occurs in no nodal row'),
    ('EAO.Properties.C07', 'EAO.C07.nodal_rows_exact', 'exactly one nodal row per (node not skipped, step) that has dispatch, none otherwise; the nodal record lists them in order'),
    ('EAO.Properties.C19', 'EAO.C19.coarse_partition', 'the model\'s coarse grid (expectation of the coarse-interval oracle): one coarse step per pair of cuts, its minor list = the fine steps in [cut k, cut k+1), consecutive, disjoint, dt = sum of the fine dt'),
]
from ..comp import splitmapping as _SMP
THEOREMS = THEOREMS + _SMP.THEOREMS_C07_SPLIT
from ..comp import splitmappingtie as _SMT
THEOREMS = THEOREMS + _SMT.THEOREMS_C07_TIE
COMPONENTS = ['hypotheses of the assembly theorems (well-formedness of asset problems) evaluated on every captured real asset problem', 'assemble (all aspects, positional) on captured real asset problems',
              'coarsen (fine steps per coarse step, coarse step lengths) vs the restricted grid the real code builds for every asset on a coarser frequency']
RULE = ('random portfolios incl. order books with out-of-horizon orders (row-less variables), transports/multi-commodity (several rows per variable), '
        'MIP assets and scaled assets (appended variables), scaled assets inside a structured asset at its internal node (every fifth case: the scale keeps the kind size, finding F-07c), adversarial asset/node names; '
        'stream gap: nodes whose dispatch has gaps in time (dead zones inside the horizon for a random set of nodes: all assets, wrapped assets and orders touching them live in the remaining segments; few full-horizon markets) - nodal rows checked in both directions; '
        'stream coarse: assets on their own coarser frequency whose coarse steps hold unequal numbers of fine steps (calendar days of 23/24/25 h and weeks on zone-aware sub-daily grids across a daylight-saving switch, '
        'life times beginning part of a coarse step before the horizon or inside it, remainders) and equal-length controls; '
        'stream param: portfolios of all asset classes (contracts, multi-commodity contracts, plants, CHPs incl. the min-load class, wrapped and scaled assets; own windows) whose per-step parameters '
        '(extra/start/running costs, start fuel, consumption if on, fuel efficiency, conversion factor, heat share, min-load threshold and costs, capacities) come in every accepted form: '
        'interval data covering only PART of the asset\'s window (nothing given before / after / in a hole in the middle / several holes / nothing at all; boundaries between grid points; with and without \'end\'), '
        'complete interval data, price keys, arrays, numbers - the documented default (0 resp. 1) applies where nothing is given (capacities have none: always complete); every eighth case also split; '
        'stream zero: dispatch rows of factor zero and other degenerate-but-legitimate quantities as a family across asset types - multi-commodity contracts with commodity factors 0 (any position, several, all), '
        'order books with orders of capacity 0 (some, all, alone in their node), plants / CHPs with a fuel node whose consumption if on / start fuel is 0 written out (number, zeros as interval data, '
        'interval data covering part of the window, price key), the same as base of a scaled asset, inside a structured asset (zero factor at the external or the internal node) and on the asset\'s own coarser frequency; '
        'zero capacities (contract, transport, storage in / out) as companions; the nodes with zero rows are mostly quiet: the other assets touching them live outside a dead zone (they all start later / end earlier / are absent), '
        'so that at some (node, step) the zero rows are the only dispatch; every sixth case also split; '
        'non-trivial = problem with >= 2 assets and >= 1 nodal row; distinct by scenario hash')
ASSUMPTIONS = []
from ..comp import linked as _LK
THEOREMS = THEOREMS + [t for t in _LK.THEOREMS_LINKED if t[1].split('.')[-1] in ['linked_wf', 'linked_rows_lt_n', 'linked_costs_only', 'several_labels', 'no_matrix']]
PARTIAL = ['cost vectors for price samples (costs_only): NaN entries and length only (length not for periodic assets: finding F-17e of C17); that they equal the cost vector of the problem is C17\'s statement; '
           'arrays as parameters are drawn for top-level assets of unsplit set-ups only (an array has one entry per step of the asset\'s window; in a split set-up no array fits all intervals); '
           'transports take numbers only (their constructor compares the capacities as numbers)',
           'the coarse-interval oracle identifies the coarse step of a variable by the first step its rows name (every variable must be mapped to exactly the fine steps of ONE coarse step of the asset, in proportion to their lengths, '
           'and no two variables of the same kind and node to the same one); that the cost and bounds of the variable are those of THAT coarse step is a statement about the builders (C13 / builder correspondences), not checked here',
           'assets that are both coarse and periodic, and coarse assets wrapped in a structured asset, are outside the coarse-interval oracle (their variables are merged / relabelled afterwards)']
EXPLANATION = ('theorems about the model assemble; exact positional correspondence with the real portfolio problem; structural oracle on the real OptimProblem objects (portfolio and every captured asset problem): '
               'sizes, index range, NaN entries (c, l, u, b, A of the portfolio problem and of every asset problem), blocks, row-less variables, nodal rows <-> (node, step) pairs with dispatch in both directions '
               '(a dispatch row counts whatever its factor, zero included: the variable is mapped to that node and step; the row of such a pair may read 0 = 0), the nodal record in the order of the rows, '
               'each nodal row = sum of the dispatch variables mapped to its node and step with their factors; the same nodal statement on the problem the inner portfolio of every structured asset produces (own nodes skipped); '
               'every asset is also set up stand-alone for its cost vector for price samples (costs_only): no NaN, one entry per variable; when the portfolio set-up raises, the assets\' stand-alone problems are examined all the same; '
               'all streams: where interval data of a parameter with a documented default leave steps of the horizon open, the same scenario with the default WRITTEN OUT as explicit intervals over the rest of time '
               'is set up too - a set-up that raises only without the explicit default (the NaN assertion of the problem), or a problem (c, l, u, b, A, row types) that differs, means that the open steps did not get the default; '
               'for assets on a coarser frequency the steps named by the rows of each variable '
               'are compared with the coarse steps of the Lean model of Timegrid\'s coarse branch (theorem C19.coarse_partition; model tied to the real restricted grid on every such asset)')


def scenarios(seed, tier):
    n = 600 if tier == 'quick' else 3600
    rnd = random.Random(seed * 7919 + 7)
    for i in range(n):
        s = gen.gen_portfolio(random.Random(rnd.getrandbits(48)), tmax=12 if tier == 'quick' else 20, adv_names=(i % 3 == 0),
                              allow_freq=(i % 4 != 3))
        s['split'] = (i % 4 == 3)
        r1 = random.Random(rnd.getrandbits(48))
        if s['split'] and i % 8 == 7:
            gen.make_late_start(s, r1)      # nothing is active in the first interval(s)
        if i % 10 == 4:
            # a scaled asset over a base whose LAST variables have no mapping row (orders without a step in the horizon)
            g = s['grid']
            T = g['T_nominal']
            nd = r1.choice([x for x in s['nodes'] if not x.endswith('_i1')])
            base = gen.gen_orderbook(r1, g, s['prices'], T, 'sob_b', nd, allow_mip=False)
            o = base['args']['orders']
            if gen.ok_local(gen.P(g, T + 2), g) and gen.ok_local(gen.P(g, T + 5), g):
                o['start'].append(gen.dtv(gen.P(g, T + 2)))
                o['end'].append(gen.dtv(gen.P(g, T + 5)))
                o['capa'].append(1.0)
                o['price'].append(3.0)
            s['assets'].append({'type': 'ScaledAsset', 'name': 'sob', 'base': base,
                                'args': {'min_scale': 0.0, 'max_scale': 2.0, 'norm_scale': r1.choice([1.0, 2.0]), 'fix_costs': gen.q8(r1, 0.125, 1)}})
        if i % 5 == 2:
            # a scaled asset INSIDE a structured asset, at the internal node: its scale keeps the kind 'size' (finding F-07c)
            for a in s['assets']:
                if a['type'] == 'StructuredAsset' and len(a['inner']) > 1 and a['inner'][1]['type'] != 'ScaledAsset':
                    b = a['inner'][1]
                    a['inner'][1] = {'type': 'ScaledAsset', 'name': b['name'] + '_sc', 'base': b,
                                     'args': {'min_scale': r1.choice([0.0, 0.5]), 'max_scale': r1.choice([1.0, 2.0, 4.0]),
                                              'norm_scale': r1.choice([1.0, 2.0]), 'fix_costs': gen.q8(r1, 0, 1)}}
        yield 'gen%d' % i, s
    # nodes whose dispatch has gaps in time (life times inside the horizon, hardly any full-horizon market, sparse order books):
    # a nodal row exists exactly for the (node, step) pairs with dispatch, in both directions
    for i in range(240 if tier == 'quick' else 1400):
        s = c07gen.gen_gappy_portfolio(random.Random(rnd.getrandbits(48)), tmax=12 if tier == 'quick' else 20)
        s['split'] = (i % 6 == 5)
        yield 'gap%d' % i, s
    # assets on their own coarser frequency whose coarse steps hold UNEQUAL numbers of fine steps (calendar days / weeks on
    # zone-aware grids across a daylight-saving switch, windows beginning inside a coarse step) and equal-length controls
    for i in range(160 if tier == 'quick' else 900):
        s = c07gen.gen_coarse_portfolio(random.Random(rnd.getrandbits(48)), quick=(tier == 'quick'))
        yield 'coarse%d' % i, s
    # the vector parameters of all asset classes in all accepted forms: interval data covering only PART of the asset's window (the
    # documented default applies elsewhere), complete interval data, price keys, arrays
    for i in range(400 if tier == 'quick' else 2400):
        s = c07gen.gen_param_portfolio(random.Random(rnd.getrandbits(48)), tmax=12 if tier == 'quick' else 20, arrays=(i % 8 != 7))
        s['split'] = (i % 8 == 7)
        yield 'param%d' % i, s
    # dispatch rows of factor ZERO (commodity factor 0, order of capacity 0, fuel if on / per start 0 - stand-alone, scaled, wrapped, on a
    # coarser frequency) at nodes where at some steps nothing else dispatches; zero capacities: the variable is mapped to the node and
    # step all the same, so the (node, step) has its nodal row and its entry in the nodal record
    for i in range(300 if tier == 'quick' else 1800):
        s = c07gen.gen_degenerate_portfolio(random.Random(rnd.getrandbits(48)), tmax=10 if tier == 'quick' else 16)
        s['split'] = (i % 6 == 5)
        yield 'zero%d' % i, s
    # LinkedAsset (comp/linked.py): the model of the linking loop against the real set-up, on captured and on generated structured problems
    from ..comp import linked as LK
    _rl = random.Random(seed * 15485863 + 71)
    for i in range(60 if tier == 'quick' else 400):
        yield 'lk%d' % i, {'_stream': 'linked', 'case': LK.gen_case(_rl.__class__(_rl.getrandbits(48)), tmax=6)}


def coarse_intervals(rec, drv, feats):
    """C07 for the variables of an asset on a coarser frequency: such a variable belongs to ONE coarse step of the asset, and its
    mapping rows must name exactly the fine steps of that coarse step - the fine steps in [coarse point, next coarse point) -,
    each once, weighted in proportion to the fine step lengths; two variables of the same kind never serve the same fine step.
    The coarse steps (fine steps of each, lengths) come from the Lean model of Timegrid's coarse branch (c07gen.coarse_model)."""
    viol, dis = [], []
    scn = rec['scn']
    for name, args, spec in c07gen.coarse_specs(scn):
        cap = rec['captured'].get(name)
        if cap is None or len(cap.c) == 0 or cap.mapping is None or not len(cap.mapping):
            continue
        cm = c07gen.coarse_model(scn['grid'], args, drv)
        if cm is None:
            feats.append('coarse-model-refuses')
            continue
        # tie: the model's coarse steps are those of the restricted grid the real code builds for this asset
        try:
            rc = c07gen.real_coarse(scn, spec)
        except Exception as e:
            rc = {'err': impl.err_class(e)}
        if rc is None or 'err' in rc or rc['minor'] != cm['minor'] or len(rc['dt']) != len(cm['dt']) or \
                any(abs(x - float(y)) > 1e-9 * max(1.0, abs(x)) for x, y in zip(rc['dt'], cm['dt'])):
            dis.append({'component': 'coarsen', 'detail': 'asset %r (freq %s): coarse steps of the model %s vs those of the real restricted grid %s' % (
                name, args['freq'], [_rng(x) for x in cm['minor']][:6], rc if rc is None or 'err' in rc else [_rng(x) for x in rc['minor']][:6])})
            continue
        feats.append('coarse-asset')
        sizes = sorted(set(len(x) for x in cm['minor']))
        if len(sizes) > 1:
            feats.append('coarse-unequal-major-steps')
        by_first = {x[0]: k for k, x in enumerate(cm['minor'])}
        m = cap.mapping
        m = m[m['type'].isin(['d', 'i'])]
        vn = m['var_name'].astype(str).values if 'var_name' in m.columns else ['nan'] * len(m)
        fac = m['disp_factor'].fillna(1.).values if 'disp_factor' in m.columns else np.ones(len(m))
        groups = {}
        for j, nd, ty, v, t, f in zip(m.index, m['node'].astype(str).values, m['type'].values, vn, m['time_step'].values, fac):
            groups.setdefault((int(j), nd, str(ty), v), []).append((int(t), float(f)))
        served = {}
        atype = type([a for a in rec['portf'].assets if a.name == name][0]).__name__

        def bad(msg, what):
            viol.append({'oracle': 'mapping_structure', 'detail': 'asset %r (%s, freq %s on a %s grid%s): %s' % (
                name, atype, args['freq'], scn['grid']['freq'], ', zone %s' % scn['grid']['tz'] if scn['grid'].get('tz') else '', msg),
                'facts': {'what': what, 'asset_type': atype, 'minor_sizes': sizes}})
        for (j, nd, ty, v), rows in sorted(groups.items()):
            steps = sorted(t for t, _ in rows)
            k = by_first.get(steps[0])
            if k is None or steps != cm['minor'][k]:
                kk = k if k is not None else next((i for i, x in enumerate(cm['minor']) if steps[0] in x), None)
                bad('variable %d (%s, node %s) is mapped to the steps %s; %s' % (
                    j, v, nd, _rng(steps), 'no coarse step of the asset contains step %d (its coarse steps hold the fine steps %s)' % (
                        steps[0], [_rng(x) for x in cm['minor']][:6]) if kk is None else
                    'its coarse step %d = [coarse point %d, next coarse point) holds exactly the fine steps %s (%d of them; the asset\'s coarse steps hold %s fine steps)' % (
                        kk, kk, _rng(cm['minor'][kk]), len(cm['minor'][kk]), [len(x) for x in cm['minor']][:8])), 'coarse_steps')
                break
            # weights in proportion to the fine step lengths: factor_t / (dt_t / dt_coarse) is the same for all t
            base = [f * float(cm['dt'][k] / cm['dt_fine'][t]) for t, f in rows]
            if max(base) - min(base) > 1e-9 * max(1.0, max(abs(b) for b in base)):
                bad('variable %d (%s, node %s): the weights of its rows over the fine steps %s are not in proportion to the step lengths (weight * dt_coarse / dt_fine ranges over %s .. %s)' % (
                    j, v, nd, _rng(steps), min(base), max(base)), 'coarse_weights')
                break
            if (nd, ty, v, k) in served and served[(nd, ty, v, k)] != j:
                bad('the fine steps %s (coarse step %d) are served by two %r variables at node %s: %d and %d' % (
                    _rng(steps), k, v, nd, served[(nd, ty, v, k)], j), 'coarse_twice')
                break
            served[(nd, ty, v, k)] = j
    return viol, dis


def _rng(steps):
    steps = list(steps)
    if len(steps) > 2 and steps == list(range(steps[0], steps[-1] + 1)):
        return '%d..%d' % (steps[0], steps[-1])
    return str(steps[:30])


def nodal_rows(op, skip, label):
    """C07's statement on the nodal rows of an assembled problem: exactly one row of type N per (node not in `skip`, step) to which the
    mapping assigns a dispatch variable - whatever the factor of its row, zero included: the variable is mapped there -, none otherwise;
    the nodal record lists them in the order of the rows; each row sums the dispatch variables mapped to its node and step with their factors"""
    viol = []

    def bad(msg, **facts):
        viol.append({'oracle': 'mapping_structure', 'detail': label + msg, 'facts': facts})
    m = op.mapping
    A = sp.csr_matrix(op.A) if op.A is not None else sp.csr_matrix((0, len(op.c)))
    d = m[m['type'] == 'd'] if len(m) else m
    if len(d) and len(skip):
        d = d[~d['node'].astype(str).isin([str(x) for x in skip])]
    pairs = set((int(t), str(nn)) for t, nn in zip(d['time_step'].values, d['node'].values)) if len(d) else set()
    rec_pairs = [(int(t), str(nn)) for t, nn in op.map_nodal_restr]
    fac = d['disp_factor'].fillna(1.).values if len(d) and 'disp_factor' in d.columns else np.ones(len(d))
    if len(set(rec_pairs)) != len(rec_pairs):
        bad('duplicate entries in the nodal record', what='nodal_dup')
    if set(rec_pairs) - pairs:
        # (step, node) pairs of the nodal record at which no variable dispatches: rows that should not exist
        extra = sorted(set(rec_pairs) - pairs)
        nds = sorted(set(nn for _, nn in extra))
        bad('%d nodal rows for (step, node) pairs without any dispatch row in the mapping: %s; node %s has dispatch at the steps %s only' % (
            len(extra), extra[:4], nds[0], sorted(t for t, nn in pairs if nn == nds[0])[:24]), what='nodal_set', direction='row_without_dispatch')
    if pairs - set(rec_pairs):
        miss = sorted(pairs - set(rec_pairs))
        t0, n0 = miss[0]
        sel = (d['time_step'].values == t0) & (d['node'].astype(str).values == n0)
        rows0 = [(int(j), str(a), float(f)) for j, a, f in zip(np.asarray(d.index)[sel], d['asset'].astype(str).values[sel], fac[sel])]
        allzero = all(f == 0 for _, _, f in rows0)
        bad('no nodal row (and no entry in the nodal record) for %d (step, node) pairs %s although the mapping has dispatch rows there; at step %d, node %s '
            'the mapping has the dispatch rows (variable, asset, factor) %s%s' % (
                len(miss), miss[:4], t0, n0, rows0[:4], ' - all of factor zero: the variables are mapped to this node and step all the same' if allzero else ''),
            what='nodal_set', direction='dispatch_without_row', all_factors_zero=allzero)
    nN = op.cType.count('N')
    if nN != len(rec_pairs):
        bad('%d rows of type N but %d entries in the nodal record' % (nN, len(rec_pairs)), what='nodal_count')
    else:
        Nrows = [i for i, k in enumerate(op.cType) if k == 'N']
        for k, (t, nn) in enumerate(rec_pairs):
            if (t, nn) not in pairs and not np.any(A[Nrows[k]].data != 0):
                bad('row %d of type N (recorded for node %s, step %d) is empty (0 = 0): no variable dispatches there' % (Nrows[k], nn, t), what='nodal_empty')
                break
        for k, (t, nn) in enumerate(rec_pairs):
            want = {}
            sel = (d['time_step'].values == t) & (d['node'].astype(str).values == nn)
            for j, f in zip(np.asarray(d.index)[sel], fac[sel]):
                want[int(j)] = want.get(int(j), 0.0) + float(f)
            row = A[Nrows[k]]
            got = {int(j): float(v) for j, v in zip(row.indices, row.data) if v != 0}
            want = {j: v for j, v in want.items() if v != 0}
            if got != want or op.b[Nrows[k]] != 0:
                bad('nodal row of node %s step %d has coefficients %s, dispatch rows say %s' % (nn, t, dict(list(got.items())[:4]), dict(list(want.items())[:4])), what='nodal_coeffs')
                break
    return viol


def inner_nodal_rows(rec):
    """the same statement on the problem the INNER portfolio of every structured asset produces (set up as the structured asset sets it
    up: its own nodes are skipped, they get their rows in the outer portfolio) - fresh objects"""
    from .. import scen
    viol = []
    if not any(a['type'] == 'StructuredAsset' for a in rec['scn']['assets']):
        return viol
    try:
        portf, tg, prices, _ = scen.build(rec['scn'])
    except Exception:
        return viol
    for a in portf.assets:
        if type(a).__name__ != 'StructuredAsset':
            continue
        try:
            with impl.Quiet():
                op = a.portfolio.setup_optim_problem(prices, tg, skip_nodes=a.node_names)
        except Exception:
            continue
        if op is None or op.mapping is None or not hasattr(op, 'map_nodal_restr') or len(op.A.shape) != 2 or op.A.shape[1] != len(op.c):
            continue
        skip = [str(x) for x in a.node_names]
        viol += nodal_rows(op, skip, 'inner portfolio of the structured asset %r (own nodes %s skipped): ' % (a.name, skip))
        for v in viol:
            v['facts'].setdefault('asset_type', 'StructuredAsset')
            v['facts'].setdefault('inner', True)
    return viol


def structural(rec):
    """direct check of C07's statement on the real problem objects"""
    viol = []
    op, portf, tg = rec['op'], rec['portf'], rec['tg']

    def bad(msg, **facts):
        viol.append({'oracle': 'mapping_structure', 'detail': msg, 'facts': facts})
    n = len(op.c)
    if not (len(op.l) == n and len(op.u) == n):
        bad('c, l, u have lengths %d, %d, %d' % (n, len(op.l), len(op.u)), what='sizes')
        return viol
    A = sp.csr_matrix(op.A) if op.A is not None else sp.csr_matrix((0, n))
    if A.shape[1] != n or A.shape[0] != len(op.b) or len(op.b) != len(op.cType):
        bad('A has shape %s for %d variables, b %d, cType %d' % (A.shape, n, len(op.b), len(op.cType)), what='sizes')
        return viol
    for nm, v in (('c', op.c), ('l', op.l), ('u', op.u), ('b', op.b)):
        if np.isnan(np.asarray(v, dtype=float)).any():
            bad('NaN in ' + nm, what='nan')
    if np.isnan(A.data).any():
        bad('NaN in A', what='nan')
    if (op.l > op.u).any():
        j = int(np.argmax(op.l > op.u))
        bad('lower bound exceeds upper bound at variable %d: %s > %s' % (j, op.l[j], op.u[j]), what='bounds')
    m = op.mapping
    idx = np.asarray(m.index, dtype=float)
    if len(m) and (np.isnan(idx).any() or (idx < 0).any() or (idx >= n).any() or (idx != np.floor(idx)).any()):
        bad('mapping index outside 0..%d: %s' % (n - 1, sorted(set(m.index))[-3:]), what='index_range')
        return viol
    steps = set(int(i) for i in tg.I)
    ms = set(int(t) for t in m['time_step'].values) if len(m) else set()
    if not ms <= steps:
        bad('mapping steps %s not on the grid' % sorted(ms - steps)[:5], what='steps')
    names = [a.name for a in portf.assets]
    blocks = pf.asset_blocks(rec)
    A_csc = A.tocsc()
    for a in portf.assets:
        lo, hi = blocks[a.name][0]
        cap = rec['captured'][a.name]
        rows = m[m['asset'] == a.name]
        if len(rows) and ((rows.index < lo).any() or (rows.index >= hi).any()):
            bad('mapping rows naming asset %r point at variables %s outside its block [%d,%d)' % (
                a.name, sorted(set(int(i) for i in rows.index if i < lo or i >= hi))[:5], lo, hi), what='block', asset_type=type(a).__name__)
            continue
        for nm, big, small in (('cost', op.c, cap.c), ('lower bound', op.l, cap.l), ('upper bound', op.u, cap.u)):
            if not np.array_equal(np.asarray(big[lo:hi], dtype=float), np.asarray(small, dtype=float)):
                j = int(np.argmax(np.asarray(big[lo:hi]) != np.asarray(small)))
                bad('%s of variable %d (asset %r, its variable %d) is %s but the asset computed %s' % (nm, lo + j, a.name, j, big[lo + j], small[j]),
                    what='block_values', asset_type=type(a).__name__)
                break
        # kind / node / step of every mapping row as the asset gave them
        cm = cap.mapping
        if len(cm) != len(rows):
            bad('asset %r: %d mapping rows in the portfolio, %d in its own problem' % (a.name, len(rows), len(cm)), what='rows_count', asset_type=type(a).__name__)
        elif len(cm):
            same = (np.asarray(rows.index) - lo == np.asarray(cm.index)).all() and \
                (rows['time_step'].values == cm['time_step'].values).all() and \
                (rows['type'].values == cm['type'].values).all() and \
                (rows['node'].astype(str).values == cm['node'].astype(str).values).all()
            if not same:
                bad('asset %r: mapping rows differ from the asset\'s own (variable, step, type or node)' % a.name, what='rows_content', asset_type=type(a).__name__)
        # row-less variables: zero cost, in no constraint
        mapped = set(int(i) for i in rows.index)
        for j in range(lo, hi):
            if j not in mapped:
                if op.c[j] != 0:
                    bad('variable %d (asset %r) has no mapping row but cost %s' % (j, a.name, op.c[j]), what='rowless_cost', asset_type=type(a).__name__)
                if A_csc[:, j].nnz:
                    bad('variable %d (asset %r) has no mapping row but occurs in %d constraints' % (j, a.name, A_csc[:, j].nnz), what='rowless_constraint', asset_type=type(a).__name__)
    other = set(m['asset'].unique()) - set(names) if len(m) else set()
    if other:
        bad('mapping names unknown assets %s' % sorted(other)[:3], what='asset_names')
    # nodal rows
    viol += nodal_rows(op, (), '')
    if not any(v['facts'].get('what', '').startswith('nodal') for v in viol):
        viol += inner_nodal_rows(rec)
    # internal variables are labelled with steps at which the asset is active (has dispatch variables)
    for a in portf.assets:
        if type(a).__name__ in ('StructuredAsset', 'LinkedAsset'):
            continue
        rows = m[m['asset'] == a.name] if len(m) else m
        if not len(rows):
            continue
        ds = set(int(t) for t in rows[rows['type'] == 'd']['time_step'].values)
        iis = set(int(t) for t in rows[rows['type'] == 'i']['time_step'].values)
        if ds and not iis <= ds:
            bad('asset %r: internal variables are labelled with steps %s at which the asset has no dispatch variable (its active steps: %d..%d)' % (
                a.name, sorted(iis - ds)[:4], min(ds), max(ds)), what='internal_steps', asset_type=type(a).__name__)
    # kinds survive wrapping: the scale of a scaled asset inside a structured asset is still described as 'size' (its value and
    # fixed costs are reported from that row), whatever node it sits at (repaired finding F-07c: typed 'i' at internal nodes)
    for a in portf.assets:
        if type(a).__name__ != 'StructuredAsset' or not len(m) or 'internal_asset' not in m.columns:
            continue
        rows = m[m['asset'] == a.name]
        for b in a.portfolio.assets:
            if type(b).__name__ != 'ScaledAsset':
                continue
            rb = rows[rows['internal_asset'].astype(str) == b.name]
            if not len(rb):
                continue                      # (inactive base: nothing to scale, no scale variable)
            sc = rb[rb['var_name'].astype(str) == 'scale__' + b.name]
            kinds = sorted(set(str(k) for k in sc['type'].values))
            if len(sc) != 1 or kinds != ['size']:
                bad('structured asset %r wraps the scaled asset %r (node %s, %s): its scale variable is described by %d mapping row(s) of kind %s, '
                    'it is of kind \'size\'' % (a.name, b.name, b.node_names[0], 'external' if b.node_names[0] in a.node_names else 'internal', len(sc), kinds),
                    what='wrapped_size_kind', asset_type='StructuredAsset')
    # stand-alone problems of the assets
    for a in portf.assets:
        cap = rec['captured'][a.name]
        k = len(cap.c)
        if not (len(cap.l) == k and len(cap.u) == k):
            bad('asset %r: c, l, u lengths %d, %d, %d' % (a.name, k, len(cap.l), len(cap.u)), what='asset_sizes', asset_type=type(a).__name__)
            continue
        if cap.A is not None and cap.A.shape[1] != k:
            bad('asset %r: A has %d columns for %d variables' % (a.name, cap.A.shape[1], k), what='asset_sizes', asset_type=type(a).__name__)
        if len(cap.mapping) and ((np.asarray(cap.mapping.index, dtype=float) >= k).any() or (np.asarray(cap.mapping.index, dtype=float) < 0).any()):
            bad('asset %r: mapping index beyond its %d variables' % (a.name, k), what='asset_index', asset_type=type(a).__name__)
        if (np.asarray(cap.l) > np.asarray(cap.u)).any():
            bad('asset %r: lower bound exceeds upper bound' % a.name, what='asset_bounds', asset_type=type(a).__name__)
        for msg in nan_entries(cap):
            bad('asset %r (%s), its own problem: %s' % (a.name, type(a).__name__, msg), what='asset_nan', asset_type=type(a).__name__)
    return viol


def nan_entries(op):
    """['<k> NaN entries in <vector>', ...] of a problem"""
    out = []
    for nm in ('c', 'l', 'u', 'b'):
        v = getattr(op, nm, None)
        if v is None:
            continue
        v = np.asarray(v, dtype=float)
        if np.isnan(v).any():
            out.append('%d of the %d entries of %s are NaN (first at %d)' % (int(np.isnan(v).sum()), len(v), nm, int(np.argmax(np.isnan(v)))))
    if getattr(op, 'A', None) is not None and np.isnan(sp.coo_matrix(op.A).data).any():
        out.append('NaN entries in A')
    return out


def _periodic(spec):
    return 'periodicity' in spec.get('args', {}) or ('base' in spec and _periodic(spec['base'])) or any(_periodic(b) for b in spec.get('inner', []))


def standalone_probe(scn, feats, problems=True, captured=None):
    """C07 on what every asset produces STAND-ALONE (fresh objects): its problem (`problems`; else the captured ones are taken as
    given) and its cost vector for price samples (`costs_only`): no NaN entry, one cost entry per variable"""
    from .. import scen
    viol = []
    try:
        portf, tg, prices, _ = scen.build(scn)
    except Exception:
        return viol
    for a, spec in zip(portf.assets, scn['assets']):
        at = type(a).__name__

        def bad(msg, what):
            viol.append({'oracle': 'mapping_structure', 'detail': 'asset %r (%s) stand-alone: %s' % (a.name, at, msg) + _partial_note(spec, scn),
                         'facts': {'what': what, 'asset_type': at}})
        op = captured.get(a.name) if captured else None
        if problems:
            try:
                with impl.Quiet():
                    op = a.setup_optim_problem(prices, tg)
            except Exception:
                op = None
            for msg in (nan_entries(op) if op is not None else []):
                bad('its own problem: ' + msg, 'asset_nan')
        try:
            with impl.Quiet():
                c = a.setup_optim_problem(prices, tg, costs_only=True)
        except Exception as e:
            feats.append('costs-only-error:' + impl.err_class(e))
            continue
        c = np.asarray(c, dtype=float)
        if np.isnan(c).any():
            bad('%d of the %d entries of its cost vector for price samples (costs_only) are NaN (first at %d)' % (int(np.isnan(c).sum()), len(c), int(np.argmax(np.isnan(c)))), 'costs_only_nan')
        elif op is not None and len(c) != len(op.c) and not _periodic(spec):
            # (periodic assets: the un-merged vector is returned, finding F-17e of C17)
            bad('its cost vector for price samples (costs_only) has %d entries, its problem %d variables' % (len(c), len(op.c)), 'costs_only_length')
    return viol


def _partial_note(spec, scn):
    _, ch = c07gen.complete_defaults({'grid': scn['grid'], 'assets': [spec]})
    return ('; interval data covering part of the horizon only: %s' % ', '.join(ch)) if ch else ''


def default_written_out(scn, rec, feats):
    """Where interval data of a parameter with a documented default leave steps unspecified, the default applies - so the problem has
    no undefined entry there.  Metamorphic form: the scenario in which the default is WRITTEN OUT over the rest of time (explicit
    intervals with value 0 resp. 1) describes the same assets.  If the set-up of the given scenario raises (`rec` None) while that of
    the written-out one works, or the two problems differ, the unspecified steps did not get the default."""
    s2, changed = c07gen.complete_defaults(scn)
    if not changed:
        return []
    feats.append('default-written-out')
    for ch in changed:
        feats.append('partial:' + ch.split('.')[-1])

    def bad(msg, what):
        return [{'oracle': 'mapping_structure', 'detail': 'interval data covering part of the horizon only (%s): %s' % (', '.join(changed), msg),
                 'facts': {'what': what, 'params': sorted(set(ch.split('.')[-1] for ch in changed))}}]
    try:
        rec2 = pf.setup_mono(s2)
    except Exception as e:
        feats.append('written-out-error:' + impl.err_class(e))
        return [] if rec is None else bad('the portfolio sets up, but not (%s) when the documented default is written out as explicit intervals over the rest of time' % impl.err_class(e), 'default_written_out_raises')
    if rec is None:
        return bad('the set-up of the portfolio raises, although the same portfolio sets up when the documented default (0 resp. 1) is written out '
                   'as explicit intervals over the rest of time - the default is not applied to the unspecified steps', 'default_not_applied')
    a, b = rec['op'], rec2['op']
    if nan_entries(a):
        return []                     # (reported by the structural oracle)
    for nm in ('c', 'l', 'u', 'b'):
        x, y = np.asarray(getattr(a, nm), dtype=float), np.asarray(getattr(b, nm), dtype=float)
        if x.shape != y.shape or not np.array_equal(x, y):
            j = int(np.argmax(x != y)) if x.shape == y.shape else -1
            return bad('%s of the problem differs from that of the same portfolio with the documented default written out as explicit intervals (%s)' % (
                nm, 'lengths %d vs %d' % (len(x), len(y)) if j < 0 else 'entry %d: %s vs %s' % (j, x[j], y[j])), 'default_differs')
    A1, A2 = sp.csr_matrix(a.A) if a.A is not None else None, sp.csr_matrix(b.A) if b.A is not None else None
    if (A1 is None) != (A2 is None) or (A1 is not None and (A1.shape != A2.shape or a.cType != b.cType or (A1 != A2).nnz)):
        rows = sorted(set(int(i) for i in (A1 != A2).nonzero()[0]))[:3] if A1 is not None and A2 is not None and A1.shape == A2.shape else None
        return bad('the constraint matrix differs from that of the same portfolio with the documented default written out as explicit intervals (%s)' % (
            'shapes / row types differ' if rows is None else 'rows %s, e.g. row %d (%s): %s vs %s' % (
                rows, rows[0], a.cType[rows[0]], {j: v for j, v in zip(A1[rows[0]].indices.tolist(), A1[rows[0]].data.tolist()) if v != 0}, {j: v for j, v in zip(A2[rows[0]].indices.tolist(), A2[rows[0]].data.tolist()) if v != 0})), 'default_differs')
    return []


def run_case(scn, drv):
    if isinstance(scn, dict) and scn.get('_stream') == 'linked':
        from ..comp import linked as LK
        r = LK.run_case(scn['case'], drv, with_oracle=False)      # the tie of the linked model; its documented-behaviour oracle states no property of this list
        r['features'] = ['stream:linked'] + list(r.get('features', []))
        return r
    r = {'evaluated': 1, 'nontrivial': False, 'features': [], 'disagreements': [], 'violations': []}
    feats = r['features']
    for a in scn['assets']:
        feats.append('asset:' + a['type'])
    for x in scn.get('params', []):
        feats.append('param-form:' + x.split(':')[-1])
    for x in (scn.get('degenerate') or {}).get('carriers', []):
        feats.append('zero-carrier:' + x)
    try:
        rec = pf.setup_mono(scn)
    except Exception as e:
        feats.append('setup-error:' + impl.err_class(e))
        # the portfolio cannot be assembled: what the assets produce stand-alone is still subject to the property, and an
        # undefined entry (NaN, refused by the portfolio's problem) where a documented default applies is a violation
        r['violations'] += standalone_probe(scn, feats)
        r['violations'] += default_written_out(scn, None, feats)
        return r
    r['disagreements'] += pf.hyp_wf(rec)
    feats.append('hypotheses-evaluated')
    if nan_entries(rec['op']) or any(nan_entries(c) for c in rec['captured'].values()):
        feats.append('nan-problem')        # (no rational number: nothing to hand to the model; the structural oracle reports it)
    else:
        r['disagreements'] += pf.corr_assemble(rec, drv)
    r['violations'] += structural(rec)
    r['violations'] += standalone_probe(scn, feats, problems=False, captured=rec['captured'])
    r['violations'] += default_written_out(scn, rec, feats)
    v, d = coarse_intervals(rec, drv, feats)
    r['violations'] += v
    r['disagreements'] += d
    op = rec['op']
    mapped = set(int(i) for i in op.mapping.index)
    if len(mapped) < len(op.c):
        feats.append('rowless-variable')
    if op.mapping.index.duplicated().any():
        feats.append('several-rows-per-variable')
    if pf.is_mip(op):
        feats.append('booleans')
    dm = op.mapping[op.mapping['type'] == 'd'] if len(op.mapping) else op.mapping
    for nd in (set(dm['node'].astype(str)) if len(dm) else ()):
        ts = sorted(set(int(t) for t in dm['time_step'].values[dm['node'].astype(str).values == nd]))
        if ts != list(range(ts[0], ts[-1] + 1)):
            feats.append('node-with-gap-in-time')
            break
    if len(dm) and 'disp_factor' in dm.columns:
        zf = dm['disp_factor'].fillna(1.).values == 0
        if zf.any():
            feats.append('zero-factor-dispatch-row')
            key = list(zip(dm['time_step'].values.astype(int), dm['node'].astype(str).values))
            if set(k for k, z in zip(key, zf) if z) - set(k for k, z in zip(key, zf) if not z):
                feats.append('node-step-with-zero-factor-rows-only')
    if len(op.l) and (np.asarray(op.l) == np.asarray(op.u)).any():
        feats.append('variable-with-equal-bounds')
    r['nontrivial'] = len(rec['portf'].assets) >= 2 and op.cType.count('N') >= 1
    if scn.get('split'):
        # every interval problem of a split set-up is itself an assembled problem and must stay faithfully described by its own mapping
        try:
            rs = pf.setup_split(scn, pf.split_interval(scn, rec['tg']))
            feats.append('split')
            r['evaluated'] += 1
            for k, o in enumerate(rs['op'].ops):
                nk = len(o.c)
                mk = o.mapping
                if len(mk) and (mk.index.max() >= nk or mk.index.min() < 0):
                    r['violations'].append({'oracle': 'mapping_structure', 'detail': 'split: interval %d: its own mapping points at variable %d of %d' % (k, int(mk.index.max()), nk), 'facts': {'what': 'interval_index'}})
                    break
                Tk = int(mk['time_step'].max()) + 1 if len(mk) else 0
                if len(o.map_nodal_restr) and max(int(t) for t, _ in o.map_nodal_restr) >= rec['tg'].T:
                    r['violations'].append({'oracle': 'mapping_structure', 'detail': 'split: interval %d: nodal record beyond the grid' % k, 'facts': {'what': 'interval_nodal'}})
                    break
                if o.A is not None and o.A.shape[1] != nk:
                    r['violations'].append({'oracle': 'mapping_structure', 'detail': 'split: interval %d: matrix has %d columns for %d variables' % (k, o.A.shape[1], nk), 'facts': {'what': 'interval_sizes'}})
                    break
            jm = rs['op'].mapping
            ntot = sum(len(o.c) for o in rs['op'].ops)
            # the joint mapping names ORIGINAL steps: every dispatch row sits at a step at which the unsplit problem has a
            # dispatch row of the same asset at the same node (an asset is active at the same steps either way)
            if len(jm) and len(op.mapping):
                key = lambda mm: set((str(a), str(nd), int(t)) for a, nd, ty, t in zip(mm['asset'], mm['node'], mm['type'], mm['time_step']) if ty == 'd')
                only_split = sorted(key(jm) - key(op.mapping))
                if only_split:
                    r['violations'].append({'oracle': 'mapping_structure', 'detail': 'split: the joint mapping has dispatch rows at (asset, node, step) %s where the unsplit problem has none' % only_split[:3],
                                            'facts': {'what': 'joint_steps'}})
            # the joint mapping describes the joint vector: block k of it is interval k's own mapping, shifted by the
            # number of variables before it (cost and bounds of the block are those of the interval problem)
            off = 0
            key = lambda mm, o_: sorted((int(i) - o_, str(a), str(nd), str(ty)) for i, a, nd, ty in zip(mm.index, mm['asset'], mm['node'], mm['type']))
            if len(rs['op'].c) == ntot and (not len(jm) or jm.index.max() < ntot):
                for k, o in enumerate(rs['op'].ops):
                    nk = len(o.c)
                    sub = jm[(jm.index >= off) & (jm.index < off + nk)]
                    if key(sub, off) != key(o.mapping, 0):
                        r['violations'].append({'oracle': 'mapping_structure', 'detail': 'split: variables %d..%d of the joint problem are those of interval %d, but the joint mapping has %d rows for them where the interval\'s own mapping has %d (or they name other assets/nodes/kinds)' % (
                            off, off + nk - 1, k, len(sub), len(o.mapping)), 'facts': {'what': 'joint_block'}})
                        break
                    # (the joint problem carries a cost vector only; bounds stay with the interval problems)
                    if not np.array_equal(np.asarray(rs['op'].c[off:off + nk]), np.asarray(o.c)):
                        r['violations'].append({'oracle': 'mapping_structure', 'detail': 'split: cost of variables %d..%d of the joint problem differs from that of interval %d' % (off, off + nk - 1, k), 'facts': {'what': 'joint_block_values'}})
                        break
                    off += nk
            if len(jm) and (jm.index.max() >= ntot or len(rs['op'].c) != ntot):
                r['violations'].append({'oracle': 'mapping_structure', 'detail': 'split: joint mapping reaches variable %d of %d' % (int(jm.index.max()), ntot), 'facts': {'what': 'joint_index'}})
        except Exception as e:
            feats.append('split-error:' + impl.err_class(e))
    r['observed'] = {'n_vars': len(op.c), 'n_rows': len(op.cType), 'n_mapping_rows': len(op.mapping)}
    return r
