"""C07 Mapping faithfulness."""
import random
import numpy as np
import scipy.sparse as sp
from .. import gen, pf, impl

ID = 'C07'
THEOREMS = [
    ('EAO.Properties.C07', 'EAO.C07.assemble_sizes', 'cost and bound vectors have one entry per variable; n = sum of asset sizes'),
    ('EAO.Properties.C07', 'EAO.C07.assemble_cols', 'every column index of every row (asset rows and nodal rows) is an existing variable'),
    ('EAO.Properties.C07', 'EAO.C07.assemble_block', 'variable offset_i + j carries exactly asset i\'s cost and bounds of its variable j'),
    ('EAO.Properties.C07', 'EAO.C07.assemble_mapping_faithful', 'every mapping row is the shifted row of exactly the asset it names and points into that asset\'s block'),
    ('EAO.Properties.C07', 'EAO.C07.rowless_not_in_nodal', 'a variable without mapping row occurs in no nodal row'),
    ('EAO.Properties.C07', 'EAO.C07.nodal_rows_exact', 'exactly one nodal row per (node not skipped, step) that has dispatch, none otherwise; the nodal record lists them in order'),
]
COMPONENTS = ['hypotheses of the assembly theorems (well-formedness of asset problems) evaluated on every captured real asset problem', 'assemble (all aspects, positional) on captured real asset problems']
RULE = ('random portfolios incl. order books with out-of-horizon orders (row-less variables), transports/multi-commodity (several rows per variable), '
        'MIP assets and scaled assets (appended variables), adversarial asset/node names; non-trivial = problem with >= 2 assets and >= 1 nodal row; distinct by scenario hash')
ASSUMPTIONS = []
EXPLANATION = 'theorems about the model assemble; exact positional correspondence with the real portfolio problem; structural oracle on the real OptimProblem objects (portfolio and every captured asset problem)'


def scenarios(seed, tier):
    n = 600 if tier == 'quick' else 3600
    rnd = random.Random(seed * 7919 + 7)
    for i in range(n):
        s = gen.gen_portfolio(random.Random(rnd.getrandbits(48)), tmax=12 if tier == 'quick' else 20, adv_names=(i % 3 == 0),
                              allow_freq=(i % 4 != 3))
        s['split'] = (i % 4 == 3)
        r1 = random.Random(rnd.getrandbits(48))
        if s['split'] and i % 8 == 7:
            gen.make_late_start(s, r1)      # nothing is active in the first interval(s)
        if i % 10 == 4:
            # a scaled asset over a base whose LAST variables have no mapping row (orders without a step in the horizon)
            g = s['grid']
            T = g['T_nominal']
            nd = r1.choice([x for x in s['nodes'] if not x.endswith('_i1')])
            base = gen.gen_orderbook(r1, g, s['prices'], T, 'sob_b', nd, allow_mip=False)
            o = base['args']['orders']
            if gen.ok_local(gen.P(g, T + 2), g) and gen.ok_local(gen.P(g, T + 5), g):
                o['start'].append(gen.dtv(gen.P(g, T + 2)))
                o['end'].append(gen.dtv(gen.P(g, T + 5)))
                o['capa'].append(1.0)
                o['price'].append(3.0)
            s['assets'].append({'type': 'ScaledAsset', 'name': 'sob', 'base': base,
                                'args': {'min_scale': 0.0, 'max_scale': 2.0, 'norm_scale': r1.choice([1.0, 2.0]), 'fix_costs': gen.q8(r1, 0.125, 1)}})
        yield 'gen%d' % i, s


def structural(rec):
    """direct check of C07's statement on the real problem objects"""
    viol = []
    op, portf, tg = rec['op'], rec['portf'], rec['tg']

    def bad(msg, **facts):
        viol.append({'oracle': 'mapping_structure', 'detail': msg, 'facts': facts})
    n = len(op.c)
    if not (len(op.l) == n and len(op.u) == n):
        bad('c, l, u have lengths %d, %d, %d' % (n, len(op.l), len(op.u)), what='sizes')
        return viol
    A = sp.csr_matrix(op.A) if op.A is not None else sp.csr_matrix((0, n))
    if A.shape[1] != n or A.shape[0] != len(op.b) or len(op.b) != len(op.cType):
        bad('A has shape %s for %d variables, b %d, cType %d' % (A.shape, n, len(op.b), len(op.cType)), what='sizes')
        return viol
    for nm, v in (('c', op.c), ('l', op.l), ('u', op.u), ('b', op.b)):
        if np.isnan(np.asarray(v, dtype=float)).any():
            bad('NaN in ' + nm, what='nan')
    if np.isnan(A.data).any():
        bad('NaN in A', what='nan')
    if (op.l > op.u).any():
        j = int(np.argmax(op.l > op.u))
        bad('lower bound exceeds upper bound at variable %d: %s > %s' % (j, op.l[j], op.u[j]), what='bounds')
    m = op.mapping
    idx = np.asarray(m.index, dtype=float)
    if len(m) and (np.isnan(idx).any() or (idx < 0).any() or (idx >= n).any() or (idx != np.floor(idx)).any()):
        bad('mapping index outside 0..%d: %s' % (n - 1, sorted(set(m.index))[-3:]), what='index_range')
        return viol
    steps = set(int(i) for i in tg.I)
    ms = set(int(t) for t in m['time_step'].values) if len(m) else set()
    if not ms <= steps:
        bad('mapping steps %s not on the grid' % sorted(ms - steps)[:5], what='steps')
    names = [a.name for a in portf.assets]
    blocks = pf.asset_blocks(rec)
    A_csc = A.tocsc()
    for a in portf.assets:
        lo, hi = blocks[a.name][0]
        cap = rec['captured'][a.name]
        rows = m[m['asset'] == a.name]
        if len(rows) and ((rows.index < lo).any() or (rows.index >= hi).any()):
            bad('mapping rows naming asset %r point at variables %s outside its block [%d,%d)' % (
                a.name, sorted(set(int(i) for i in rows.index if i < lo or i >= hi))[:5], lo, hi), what='block', asset_type=type(a).__name__)
            continue
        for nm, big, small in (('cost', op.c, cap.c), ('lower bound', op.l, cap.l), ('upper bound', op.u, cap.u)):
            if not np.array_equal(np.asarray(big[lo:hi], dtype=float), np.asarray(small, dtype=float)):
                j = int(np.argmax(np.asarray(big[lo:hi]) != np.asarray(small)))
                bad('%s of variable %d (asset %r, its variable %d) is %s but the asset computed %s' % (nm, lo + j, a.name, j, big[lo + j], small[j]),
                    what='block_values', asset_type=type(a).__name__)
                break
        # kind / node / step of every mapping row as the asset gave them
        cm = cap.mapping
        if len(cm) != len(rows):
            bad('asset %r: %d mapping rows in the portfolio, %d in its own problem' % (a.name, len(rows), len(cm)), what='rows_count', asset_type=type(a).__name__)
        elif len(cm):
            same = (np.asarray(rows.index) - lo == np.asarray(cm.index)).all() and \
                (rows['time_step'].values == cm['time_step'].values).all() and \
                (rows['type'].values == cm['type'].values).all() and \
                (rows['node'].astype(str).values == cm['node'].astype(str).values).all()
            if not same:
                bad('asset %r: mapping rows differ from the asset\'s own (variable, step, type or node)' % a.name, what='rows_content', asset_type=type(a).__name__)
        # row-less variables: zero cost, in no constraint
        mapped = set(int(i) for i in rows.index)
        for j in range(lo, hi):
            if j not in mapped:
                if op.c[j] != 0:
                    bad('variable %d (asset %r) has no mapping row but cost %s' % (j, a.name, op.c[j]), what='rowless_cost', asset_type=type(a).__name__)
                if A_csc[:, j].nnz:
                    bad('variable %d (asset %r) has no mapping row but occurs in %d constraints' % (j, a.name, A_csc[:, j].nnz), what='rowless_constraint', asset_type=type(a).__name__)
    other = set(m['asset'].unique()) - set(names) if len(m) else set()
    if other:
        bad('mapping names unknown assets %s' % sorted(other)[:3], what='asset_names')
    # nodal rows
    d = m[m['type'] == 'd'] if len(m) else m
    pairs = set((int(t), str(nn)) for t, nn in zip(d['time_step'].values, d['node'].values)) if len(d) else set()
    rec_pairs = [(int(t), str(nn)) for t, nn in op.map_nodal_restr]
    if len(set(rec_pairs)) != len(rec_pairs):
        bad('duplicate entries in the nodal record', what='nodal_dup')
    if set(rec_pairs) != pairs:
        bad('nodal rows for %s but dispatch at %s' % (sorted(set(rec_pairs) - pairs)[:3], sorted(pairs - set(rec_pairs))[:3]), what='nodal_set')
    nN = op.cType.count('N')
    if nN != len(rec_pairs):
        bad('%d rows of type N but %d entries in the nodal record' % (nN, len(rec_pairs)), what='nodal_count')
    else:
        Nrows = [i for i, k in enumerate(op.cType) if k == 'N']
        fac = d['disp_factor'].fillna(1.).values if 'disp_factor' in d.columns else np.ones(len(d))
        for k, (t, nn) in enumerate(rec_pairs):
            want = {}
            sel = (d['time_step'].values == t) & (d['node'].astype(str).values == nn)
            for j, f in zip(np.asarray(d.index)[sel], fac[sel]):
                want[int(j)] = want.get(int(j), 0.0) + float(f)
            row = A[Nrows[k]]
            got = {int(j): float(v) for j, v in zip(row.indices, row.data) if v != 0}
            want = {j: v for j, v in want.items() if v != 0}
            if got != want or op.b[Nrows[k]] != 0:
                bad('nodal row of node %s step %d has coefficients %s, dispatch rows say %s' % (nn, t, dict(list(got.items())[:4]), dict(list(want.items())[:4])), what='nodal_coeffs')
                break
    # internal variables are labelled with steps at which the asset is active (has dispatch variables)
    for a in portf.assets:
        if type(a).__name__ in ('StructuredAsset', 'LinkedAsset'):
            continue
        rows = m[m['asset'] == a.name] if len(m) else m
        if not len(rows):
            continue
        ds = set(int(t) for t in rows[rows['type'] == 'd']['time_step'].values)
        iis = set(int(t) for t in rows[rows['type'] == 'i']['time_step'].values)
        if ds and not iis <= ds:
            bad('asset %r: internal variables are labelled with steps %s at which the asset has no dispatch variable (its active steps: %d..%d)' % (
                a.name, sorted(iis - ds)[:4], min(ds), max(ds)), what='internal_steps', asset_type=type(a).__name__)
    # stand-alone problems of the assets
    for a in portf.assets:
        cap = rec['captured'][a.name]
        k = len(cap.c)
        if not (len(cap.l) == k and len(cap.u) == k):
            bad('asset %r: c, l, u lengths %d, %d, %d' % (a.name, k, len(cap.l), len(cap.u)), what='asset_sizes', asset_type=type(a).__name__)
            continue
        if cap.A is not None and cap.A.shape[1] != k:
            bad('asset %r: A has %d columns for %d variables' % (a.name, cap.A.shape[1], k), what='asset_sizes', asset_type=type(a).__name__)
        if len(cap.mapping) and ((np.asarray(cap.mapping.index, dtype=float) >= k).any() or (np.asarray(cap.mapping.index, dtype=float) < 0).any()):
            bad('asset %r: mapping index beyond its %d variables' % (a.name, k), what='asset_index', asset_type=type(a).__name__)
        if (np.asarray(cap.l) > np.asarray(cap.u)).any():
            bad('asset %r: lower bound exceeds upper bound' % a.name, what='asset_bounds', asset_type=type(a).__name__)
    return viol


def run_case(scn, drv):
    r = {'evaluated': 1, 'nontrivial': False, 'features': [], 'disagreements': [], 'violations': []}
    feats = r['features']
    for a in scn['assets']:
        feats.append('asset:' + a['type'])
    try:
        rec = pf.setup_mono(scn)
    except Exception as e:
        feats.append('setup-error:' + impl.err_class(e))
        return r
    r['disagreements'] += pf.hyp_wf(rec)
    feats.append('hypotheses-evaluated')
    r['disagreements'] += pf.corr_assemble(rec, drv)
    r['violations'] += structural(rec)
    op = rec['op']
    mapped = set(int(i) for i in op.mapping.index)
    if len(mapped) < len(op.c):
        feats.append('rowless-variable')
    if op.mapping.index.duplicated().any():
        feats.append('several-rows-per-variable')
    if pf.is_mip(op):
        feats.append('booleans')
    r['nontrivial'] = len(rec['portf'].assets) >= 2 and op.cType.count('N') >= 1
    if scn.get('split'):
        # every interval problem of a split set-up is itself an assembled problem and must stay faithfully described by its own mapping
        try:
            rs = pf.setup_split(scn, pf.split_interval(scn, rec['tg']))
            feats.append('split')
            r['evaluated'] += 1
            for k, o in enumerate(rs['op'].ops):
                nk = len(o.c)
                mk = o.mapping
                if len(mk) and (mk.index.max() >= nk or mk.index.min() < 0):
                    r['violations'].append({'oracle': 'mapping_structure', 'detail': 'split: interval %d: its own mapping points at variable %d of %d' % (k, int(mk.index.max()), nk), 'facts': {'what': 'interval_index'}})
                    break
                Tk = int(mk['time_step'].max()) + 1 if len(mk) else 0
                if len(o.map_nodal_restr) and max(int(t) for t, _ in o.map_nodal_restr) >= rec['tg'].T:
                    r['violations'].append({'oracle': 'mapping_structure', 'detail': 'split: interval %d: nodal record beyond the grid' % k, 'facts': {'what': 'interval_nodal'}})
                    break
                if o.A is not None and o.A.shape[1] != nk:
                    r['violations'].append({'oracle': 'mapping_structure', 'detail': 'split: interval %d: matrix has %d columns for %d variables' % (k, o.A.shape[1], nk), 'facts': {'what': 'interval_sizes'}})
                    break
            jm = rs['op'].mapping
            ntot = sum(len(o.c) for o in rs['op'].ops)
            # the joint mapping names ORIGINAL steps: every dispatch row sits at a step at which the unsplit problem has a
            # dispatch row of the same asset at the same node (an asset is active at the same steps either way)
            if len(jm) and len(op.mapping):
                key = lambda mm: set((str(a), str(nd), int(t)) for a, nd, ty, t in zip(mm['asset'], mm['node'], mm['type'], mm['time_step']) if ty == 'd')
                only_split = sorted(key(jm) - key(op.mapping))
                if only_split:
                    r['violations'].append({'oracle': 'mapping_structure', 'detail': 'split: the joint mapping has dispatch rows at (asset, node, step) %s where the unsplit problem has none' % only_split[:3],
                                            'facts': {'what': 'joint_steps'}})
            # the joint mapping describes the joint vector: block k of it is interval k's own mapping, shifted by the
            # number of variables before it (cost and bounds of the block are those of the interval problem)
            off = 0
            key = lambda mm, o_: sorted((int(i) - o_, str(a), str(nd), str(ty)) for i, a, nd, ty in zip(mm.index, mm['asset'], mm['node'], mm['type']))
            if len(rs['op'].c) == ntot and (not len(jm) or jm.index.max() < ntot):
                for k, o in enumerate(rs['op'].ops):
                    nk = len(o.c)
                    sub = jm[(jm.index >= off) & (jm.index < off + nk)]
                    if key(sub, off) != key(o.mapping, 0):
                        r['violations'].append({'oracle': 'mapping_structure', 'detail': 'split: variables %d..%d of the joint problem are those of interval %d, but the joint mapping has %d rows for them where the interval\'s own mapping has %d (or they name other assets/nodes/kinds)' % (
                            off, off + nk - 1, k, len(sub), len(o.mapping)), 'facts': {'what': 'joint_block'}})
                        break
                    if not (np.array_equal(np.asarray(rs['op'].c[off:off + nk]), np.asarray(o.c)) and np.array_equal(np.asarray(rs['op'].l[off:off + nk]), np.asarray(o.l))
                            and np.array_equal(np.asarray(rs['op'].u[off:off + nk]), np.asarray(o.u))):
                        r['violations'].append({'oracle': 'mapping_structure', 'detail': 'split: cost/bounds of variables %d..%d of the joint problem differ from those of interval %d' % (off, off + nk - 1, k), 'facts': {'what': 'joint_block_values'}})
                        break
                    off += nk
            if len(jm) and (jm.index.max() >= ntot or len(rs['op'].c) != ntot):
                r['violations'].append({'oracle': 'mapping_structure', 'detail': 'split: joint mapping reaches variable %d of %d' % (int(jm.index.max()), ntot), 'facts': {'what': 'joint_index'}})
        except Exception as e:
            feats.append('split-error:' + impl.err_class(e))
    r['observed'] = {'n_vars': len(op.c), 'n_rows': len(op.cType), 'n_mapping_rows': len(op.mapping)}
    return r
